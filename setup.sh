#!/bin/bash
# Build the framework offline from files on disk: hooked drivers from /repo + harness + unit tests
set -e
set -o pipefail
cd "$(dirname "$0")"
export CARGO_NET_OFFLINE=true
./check build
( cd harness && CARGO_TARGET_DIR="${MCX_BUILD_DIR:-$(pwd)/../.build}/harness" cargo test --release --offline -q 2>&1 | tail -5 )
echo "setup ok"
