#!/usr/bin/env python3
"""Generate the hand-written property-breaking mutants under /verif/mutants/ from textual edits,
verifying for each that the tree still builds and that the 93 unit tests still pass."""
import json, os, subprocess, sys, shutil

W = "/var/tmp/mkmut-wt"
TARGET = "/var/tmp/confirm-target"
M = []
def mut(name, prop, needs, edits, detected_by=None):
    M.append((name, prop, needs, edits, detected_by or [prop]))

mut("syn-allocates-state", "C09", "any SYN (state is created before the cookie is validated)",
    [("src/layer_4/tcp.rs",
      "            /* generate a SYNACK-cookie (same as masscan) */\n            tcp_repl.set_sequence(\n                synackcookie::generate(&client_info, &masscanned.synack_key).unwrap(),\n            );",
      "            /* generate a SYNACK-cookie (same as masscan) */\n            let syn_cookie = synackcookie::generate(&client_info, &masscanned.synack_key).unwrap();\n            /* prepare the control block of the connection to come */\n            proto::add_tcb(syn_cookie);\n            tcp_repl.set_sequence(syn_cookie);")])
mut("data-ack-saturating", "C07", "a data segment whose seq + payload length wraps past 2^32",
    [("src/layer_4/tcp.rs",
      "                tcp_req\n                    .get_sequence()\n                    .wrapping_add(tcp_req.payload().len() as u32),\n            );\n            tcp_repl.set_sequence(tcp_req.get_acknowledgement());\n        }\n        /* Answer to ACK: nothing */",
      "                tcp_req\n                    .get_sequence()\n                    .saturating_add(tcp_req.payload().len() as u32),\n            );\n            tcp_repl.set_sequence(tcp_req.get_acknowledgement());\n        }\n        /* Answer to ACK: nothing */")])
mut("na-hop-limit-64", "C04", "a neighbour solicitation (hop limit of the advertisement must be 255)",
    [("src/layer_3/ipv6.rs",
      "if let Icmpv6Types::NeighborAdvert = icmp_repl.get_icmpv6_type() {",
      "if let Icmpv6Types::NeighborSolicit = icmp_repl.get_icmpv6_type() {")])
mut("ghost-signature-unanchored", "C10", "a payload that contains 'Gh0st' after other leading bytes",
    [("src/proto/mod.rs",
      "        GHOST_PATTERN_SIGNATURE,\n        PROTO_GHOST,\n        SmackFlags::ANCHOR_BEGIN,",
      "        GHOST_PATTERN_SIGNATURE,\n        PROTO_GHOST,\n        SmackFlags::EMPTY,")])
mut("rpc-parser-reset-per-segment", "C11", "an ONC-RPC call over TCP cut after the protocol signature (28 bytes)",
    [("src/proto/rpc.rs",
      "                None => t.proto_state = Some(GenericProtocolState::RPC(ProtocolState::new())),\n                Some(GenericProtocolState::RPC(_)) => {}",
      "                None | Some(GenericProtocolState::RPC(_)) => {\n                    t.proto_state = Some(GenericProtocolState::RPC(ProtocolState::new()))\n                }")])
mut("smb1-mid-echoes-uid", "C17", "an SMB1 request whose UID differs from its MID",
    [("src/proto/smb.rs",
      "        resp.extend_from_slice(&self.mid.to_le_bytes()); // MID",
      "        resp.extend_from_slice(&self.uid.to_le_bytes()); // MID")])
mut("smb1-answers-replies", "C12", "an SMB1 negotiate / session setup message with the reply flag set",
    [("src/proto/smb.rs",
      "        if self.flags & 0x80 == 0x80 {\n            // Response\n            return None;\n        }",
      "")])
mut("stun-mapped-port-from-dport", "C15", "any STUN binding request whose source port differs from its destination port",
    [("src/proto/stun.rs",
      "StunMappedAddressAttribute::new(client_info.ip.src.unwrap(), client_info.port.src.unwrap()),",
      "StunMappedAddressAttribute::new(client_info.ip.src.unwrap(), client_info.port.dst.unwrap()),")])
mut("getport-returns-source-port", "C16", "portmapper GETPORT v2",
    [("src/proto/rpc.rs",
      "            let localport = client_info.port.dst.unwrap();\n            match pstate.prog_version {\n                2 => {",
      "            let localport = client_info.port.src.unwrap();\n            match pstate.prog_version {\n                2 => {")])
mut("syn-accepts-cwr-ece", "C06", "a SYN carrying both CWR and ECE",
    [("src/layer_4/tcp.rs",
      "(flags & !(TcpFlags::SYN | TcpFlags::PSH | TcpFlags::URG | TcpFlags::CWR | TcpFlags::ECE)) == 0 &&\n            /* not C && E */\n            ((flags & TcpFlags::CWR == 0) || (flags & TcpFlags::ECE == 0)) =>",
      "(flags & !(TcpFlags::SYN | TcpFlags::PSH | TcpFlags::URG | TcpFlags::CWR | TcpFlags::ECE)) == 0 =>")])
mut("http-only-on-web-ports", "C19", "an HTTP request to a port other than 80 / 443 / 8000-8999",
    [("src/proto/http.rs",
      "    _client_info: &ClientInfo,\n    tcb: Option<&mut TCPControlBlock>,\n) -> Option<Vec<u8>> {\n    debug!(\"receiving HTTP data\");",
      "    _client_info: &ClientInfo,\n    tcb: Option<&mut TCPControlBlock>,\n) -> Option<Vec<u8>> {\n    debug!(\"receiving HTTP data\");\n    /* web servers live on web ports */\n    if let Some(p) = _client_info.port.dst {\n        if p != 80 && p != 443 && !(8000..9000).contains(&p) {\n            return None;\n        }\n    }")])
mut("ipv4-deny-drop-not-logged", "C20", "a packet from a denied IPv4 source with a logger attached",
    [("src/layer_3/ipv4.rs",
      "        if remote_ip_deny_list.contains(&IpAddr::V4(ip_req.get_source())) {\n            masscanned.log.ipv4_drop(&ip_req, &client_info);\n            return None;",
      "        if remote_ip_deny_list.contains(&IpAddr::V4(ip_req.get_source())) {\n            return None;")])
mut("http-state-shared-between-flows", "C08", "two TCP flows sending partial HTTP requests interleaved",
    [("src/proto/http.rs",
      "lazy_static! {\n    static ref HTTP_SMACK: Smack = http_init();\n}",
      "lazy_static! {\n    static ref HTTP_SMACK: Smack = http_init();\n    /* parsing position of the request line, kept across segments */\n    static ref HTTP_LINE_STATE: std::sync::Mutex<usize> = std::sync::Mutex::new(HTTP_STATE_START);\n}"),
     ("src/proto/http.rs",
      "    http_parse(&mut pstate, data);\n    if pstate.state == HTTP_STATE_FAIL {",
      "    let over_tcp = _client_info.cookie.is_some();\n    if over_tcp {\n        let saved = *HTTP_LINE_STATE.lock().unwrap();\n        if saved != HTTP_STATE_START && saved < HTTP_STATE_FIELD_START && pstate.state == HTTP_STATE_START {\n            pstate.state = saved;\n        }\n    }\n    http_parse(&mut pstate, data);\n    if over_tcp {\n        *HTTP_LINE_STATE.lock().unwrap() = if pstate.state < HTTP_STATE_FIELD_START { pstate.state } else { HTTP_STATE_START };\n    }\n    if pstate.state == HTTP_STATE_FAIL {")])
mut("arp-reply-wrong-sender-ip", "C05", "any ARP request (sender protocol address of the reply)",
    [("src/layer_2/arp.rs",
      "            arp_repl.set_sender_proto_addr(arp_req.get_target_proto_addr().to_owned());",
      "            arp_repl.set_sender_proto_addr(arp_req.get_sender_proto_addr().to_owned());")],
    )
mut("dns-rdata-from-source-address", "C14", "a DNS IN/A query (RDATA must be the address the query was sent to)",
    [("src/proto/dns/query.rs",
      "                        rr.rdata = match client_info.ip.dst {",
      "                        rr.rdata = match client_info.ip.src {")])
mut("ssh-accepts-bare-lf", "C18", "an SSH identification string terminated by LF only",
    [("src/proto/ssh.rs",
      "                } else if data[i] == b' ' {\n                    pstate.state = SSH_STATE_COMMENT;\n                } else {\n                    pstate.ssh_software.push(data[i]);",
      "                } else if data[i] == b'\\n' {\n                    pstate.state = SSH_STATE_EOB;\n                } else if data[i] == b' ' {\n                    pstate.state = SSH_STATE_COMMENT;\n                } else {\n                    pstate.ssh_software.push(data[i]);")])
mut("ipv4-multicast-dst-answered-from-first-self-ip", "C03", "self-IP list configured... (C03: IP source must be the request's destination)",
    [("src/layer_3/ipv4.rs",
      "    ip_repl.set_source(ip_req.get_destination());",
      "    /* never answer from a multicast / broadcast address */\n    let dst = ip_req.get_destination();\n    if dst.is_multicast() || dst.is_broadcast() {\n        ip_repl.set_source(std::net::Ipv4Addr::new(dst.octets()[0] & 0x7f, dst.octets()[1], dst.octets()[2], dst.octets()[3]));\n    } else {\n        ip_repl.set_source(dst);\n    }")])
mut("ipv6-deny-list-skips-icmpv6", "C02", "deny list configured and an ICMPv6 message from a denied source",
    [("src/layer_3/ipv6.rs",
      "        if remote_ip_deny_list.contains(&IpAddr::V6(src)) {",
      "        if remote_ip_deny_list.contains(&IpAddr::V6(src))\n            && ip_req.get_next_header() != IpNextHeaderProtocols::Icmpv6\n        {")])
mut("http-header-without-colon-accepted", "C13", "a header line without colon",
    [("src/proto/http.rs",
      "                if data[i] == b'\\r' || data[i] == b'\\n' {\n                    pstate.state = HTTP_STATE_FAIL;",
      "                if data[i] == b'\\r' {\n                } else if data[i] == b'\\n' {\n                    pstate.state = HTTP_STATE_FIELD_START;")])

mut("smb2-session-id-truncated", "C17", "an SMB2 request whose SessionId does not fit in 32 bits",
    [("src/proto/smb.rs",
      "        resp.extend_from_slice(&self.session_id.to_le_bytes()); // SessionId",
      "        resp.extend_from_slice(&(self.session_id as u32 as u64).to_le_bytes()); // SessionId")])
mut("stun-id-forced-magic", "C15", "a cookie-less (RFC 3489) binding request: the first 4 id bytes are not the magic cookie",
    [("src/proto/stun.rs",
      "    stun_resp.id = stun_req.id;",
      "    /* transaction id: magic cookie + 96 bits */\n    stun_resp.id = (stun_req.id & ((1u128 << 96) - 1)) | ((_STUN_MAGIC as u128) << 96);")])
mut("syn-ignores-ns-bit", "C06", "a SYN with the NS flag (ninth flag bit) set",
    [("src/layer_4/tcp.rs",
      "(flags & !(TcpFlags::SYN | TcpFlags::PSH | TcpFlags::URG | TcpFlags::CWR | TcpFlags::ECE)) == 0 &&",
      "(flags & 0xff & !(TcpFlags::SYN | TcpFlags::PSH | TcpFlags::URG | TcpFlags::CWR | TcpFlags::ECE)) == 0 &&")])
mut("arp-reply-target-hw-not-requester", "C05", "any ARP request whose target hardware address field is not the requester's MAC (always, in practice zeros)",
    [("src/layer_2/arp.rs",
      "            arp_repl.set_target_hw_addr(arp_req.get_sender_hw_addr().to_owned());",
      "            arp_repl.set_target_hw_addr(arp_req.get_target_hw_addr().to_owned());")])
mut("dns-class-any-treated-as-in", "C14", "a DNS question with class 255 (ANY) and type A",
    [("src/proto/dns/cst.rs",
      "            1 => DNSClass::IN,\n            3 => DNSClass::CH,",
      "            1 | 255 => DNSClass::IN,\n            3 => DNSClass::CH,")])
mut("ssh-version-accepts-letters", "C18", "an SSH identification whose version field contains a letter (SSH-2.0a-x)",
    [("src/proto/ssh.rs",
      "                } else if !data[i].is_ascii_digit() && data[i] != b'.' {",
      "                } else if !data[i].is_ascii_alphanumeric() && data[i] != b'.' {")])

def sh(cmd, **kw):
    return subprocess.run(cmd, shell=True, capture_output=True, text=True, **kw)

only = sys.argv[1:]
sh(f"git -C /repo worktree remove --force {W}")
r = sh(f"git -C /repo worktree add --detach {W} HEAD")
assert r.returncode == 0, r.stderr
ok = 0
for name, prop, needs, edits, by in M:
    if only and not any(o in name for o in only):
        continue
    sh(f"git -C {W} checkout -- . && git -C {W} clean -fdq")
    good = True
    for path, old, new in edits:
        p = os.path.join(W, path)
        s = open(p).read()
        if s.count(old) != 1:
            print(f"{name}: pattern occurs {s.count(old)} times in {path}")
            good = False
            break
        open(p, "w").write(s.replace(old, new))
    if not good:
        continue
    t = sh(f"cd {W} && CARGO_NET_OFFLINE=true CARGO_TARGET_DIR={TARGET} cargo test --offline 2>&1 | grep -E '^test result|^error' | head -3")
    if "93 passed; 0 failed" not in t.stdout:
        print(f"{name}: suite does not pass: {t.stdout.strip()[:200]}")
        continue
    d = f"/verif/mutants/{name}"
    os.makedirs(d, exist_ok=True)
    diff = sh(f"git -C {W} diff").stdout
    open(f"{d}/patch.diff", "w").write(diff)
    json.dump({"property": prop, "detected_by": by, "needs": needs, "origin": "hand-written mutation (tools/make_mutants.py)", "passes_repo_tests": True,
               "confirmed": {"suite_with_patch": t.stdout.strip()}}, open(f"{d}/meta.json", "w"), indent=1)
    ok += 1
    print(f"{name}: ok ({prop})")
sh(f"git -C /repo worktree remove --force {W}")
print(ok, "mutants written")
