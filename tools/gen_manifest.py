#!/usr/bin/env python3
"""Regenerate /verif/MANIFEST.json from the table below (kept in one place so that it is
always schema-valid).  Usage: tools/gen_manifest.py"""
import json, os, subprocess, sys

HERE = os.path.dirname(os.path.dirname(os.path.abspath(__file__)))

# property -> (technique, level text, level note, design ref)
CLAIMED = {}
def claim(pid, technique, text, note, ref):
    CLAIMED[pid] = (technique, text, note, ref)

exec(open(os.path.join(HERE, "tools", "claims.py")).read())

props = [json.loads(l) for l in open(os.path.join(HERE, "properties.jsonl"))]
ids = [p["id"] for p in props]

def hook_commits():
    try:
        out = subprocess.check_output(["git", "-C", "/repo", "log", "--format=%H %s"], text=True)
        return [l.split()[0] for l in out.splitlines() if "verif hook" in l]
    except Exception:
        return []

checks = []
for pid in ids:
    if pid not in CLAIMED:
        continue
    technique, text, note, ref = CLAIMED[pid]
    checks.append({
        "property_id": pid,
        "quick_cmd": f"./check {pid} quick",
        "thorough_cmd": f"./check {pid} thorough",
        "evidence_file": f"/verif/evidence/{pid}.json",
        "replay_cmd_template": "./check replay {path}",
        "engine": "mcx",
        "level_claimed": {"category": "model_checking", "text": text, "design_ref": ref},
        "level_note": note,
        "technique": technique,
    })

na = []
NOT_YET = json.load(open(os.path.join(HERE, "tools", "not_applicable.json")))
for pid in ids:
    if pid not in CLAIMED:
        na.append({"property_id": pid, "reason": NOT_YET.get(pid, "check not built yet in this session (planned, see DESIGN.md section 4)")})

manifest = {
    "version": 1,
    "setup_cmd": "./setup.sh",
    "hooks": {
        "guard": "--cfg ivre_masscanned_verif",
        "enable": "RUSTFLAGS='--cfg ivre_masscanned_verif' cargo build (dev profile with overflow checks into .build/hooks-dev, release into .build/hooks-release); the driver mode is entered only when MASSCANNED_VERIF=1",
        "baseline_off_cmd": "cd /repo && cargo test --workspace --no-fail-fast --offline",
        "source_commits": hook_commits(),
        "add_only": True,
    },
    "engines": [
        {
            "name": "mcx",
            "path": "/verif/harness",
            "serves_properties": sorted(CLAIMED.keys()),
            "kind_free_text": "hand-rolled explicit-state / bounded-exhaustive explorers (sweeps over full field products, deviation neighbourhoods, BFS over the real connection table, product automaton of the compiled matcher with a reference NFA) driving the real reply() through a cfg-gated stdin/stdout driver, judged by an independent reference model",
        }
    ],
    "checks": checks,
    "not_applicable": na,
    "notes": "All checks rebuild /repo's working tree with the hook cfg (./check does it). Exit 0 held / 1 VIOLATION / 2 machinery error. Known findings: /verif/KNOWN_FINDINGS.txt.",
}
json.dump(manifest, open(os.path.join(HERE, "MANIFEST.json"), "w"), indent=1)
print("claimed:", sorted(CLAIMED.keys()))
