#!/usr/bin/env python3
"""Rewrite the cost table of DESIGN.md section 7 from evidence/by-tier/*.json (the per-tier copies the
checks write on every run)."""
import json, os, re
rows = []
for k in range(1, 21):
    pid = f"C{k:02d}"
    cells = []
    for tier in ("quick", "thorough"):
        p = f"/verif/evidence/by-tier/{pid}.{tier}.json"
        if os.path.exists(p):
            e = json.load(open(p))
            c = e["coverage"]
            cells.append(f"{c.get('evaluations', 0) / 1e6:.1f} M / {c.get('states', 0)} / {e['wall_s']:.0f} s")
        else:
            cells.append("not run")
    rows.append(f"| {pid} | {cells[0]} | {cells[1]} |")
s = open("/verif/DESIGN.md").read()
m = re.search(r"(## 7\. Cost summary[^\n]*\n\n\| property[^\n]*\n\|[-| ]*\n)((?:\| C\d\d [^\n]*\n)+)", s)
assert m, "cost table not found"
head = "## 7. Cost summary (measured by the checks themselves on the final machinery, 16 cores; regenerate with tools/gen_costs.py)\n\n| property | quick (frames / states / wall) | thorough (frames / states / wall) |\n|----------|------|------|\n"
s = s[:m.start()] + head + "\n".join(rows) + "\n" + s[m.end():]
open("/verif/DESIGN.md", "w").write(s)
print("\n".join(rows))
