#!/bin/bash
# tools/selftest_parallel.sh [slots]: the whole detection self-test (mutants/ + seeded/) split
# round robin over N slots (default 4) that run side by side, each with its own scratch worktree
# and driver build directory (.build/selftest<k>).  Prints the DETECTED / MISSED lines of every
# slot and one total; exit 0 iff nothing was missed.
set -u
cd "$(dirname "$0")/.."
N=${1:-4}
names=()
for meta in mutants/*/meta.json seeded/*/meta.json; do names+=("$(dirname "$meta")"); done
pids=()
for k in $(seq 0 $((N-1))); do
  mine=()
  for i in "${!names[@]}"; do [ $((i % N)) -eq $k ] && mine+=("${names[$i]}/"); done
  # exact directory match: the trailing slash keeps "seeded/C01" from matching "seeded/C01b"
  ( SELFTEST_SLOT=$k ./selftest.sh "${mine[@]}" > .build/selftest-par-$k.log 2>&1 ) &
  pids+=($!)
done
for p in "${pids[@]}"; do wait $p; done
det=0; mis=0
for k in $(seq 0 $((N-1))); do
  grep -E "^(DETECTED|MISSED|SKIP|UNDECIDED)" .build/selftest-par-$k.log
  d=$(grep -c "^DETECTED" .build/selftest-par-$k.log); m=$(grep -c "^MISSED" .build/selftest-par-$k.log)
  det=$((det+d)); mis=$((mis+m))
done
echo "selftest (parallel, $N slots): $det detected, $mis missed"
[ $mis -eq 0 ]
