#!/bin/bash
# tools/confirm_seed.sh <Cxx> [suffix]: confirm a seeded change delivered in /tmp/seed-<Cxx>/out:
#  patch applies + builds + the 93 tests pass; demo fails with the patch and passes without.
# On success copies it to /verif/seeded/<Cxx>[suffix]/ with a meta.json skeleton.
set -u
id=$1; suf=${2:-}; pre=${3:-seed}
src=/tmp/$pre-$id/out
W=/var/tmp/confirm-$id
export CARGO_NET_OFFLINE=true CARGO_TARGET_DIR=${CONFIRM_TARGET:-/var/tmp/confirm-target}
git -C /repo worktree remove --force $W >/dev/null 2>&1
git -C /repo worktree add --detach $W HEAD >/dev/null 2>&1 || { echo "worktree failed"; exit 2; }
trap 'git -C /repo worktree remove --force $W >/dev/null 2>&1' EXIT
cd $W
git apply $src/patch.diff || { echo "$id: patch does not apply"; exit 1; }
t1=$(cargo test --offline 2>&1 | grep -E "^test result")
echo "$id with patch: $t1"
echo "$t1" | grep -q "93 passed; 0 failed" || { echo "$id: suite does not pass with the patch"; exit 1; }
git apply $src/demo.diff || { echo "$id: demo does not apply"; exit 1; }
t2=$(cargo test --offline 2>&1 | grep -E "^test result")
echo "$id with patch+demo: $t2"
echo "$t2" | grep -qE "[1-9][0-9]* failed" || { echo "$id: demo does not fail with the patch"; exit 1; }
git apply -R $src/patch.diff || { echo "$id: cannot revert patch under demo"; exit 1; }
t3=$(cargo test --offline 2>&1 | grep -E "^test result")
echo "$id demo only: $t3"
echo "$t3" | grep -q " 0 failed" || { echo "$id: demo fails without the patch"; exit 1; }
d=/verif/seeded/$id$suf
mkdir -p $d
cp $src/patch.diff $src/demo.diff $src/notes.md $d/
python3 - "$id" "$d" "$t1" "$t2" "$t3" <<'PY'
import json,sys
id,d,t1,t2,t3=sys.argv[1:6]
json.dump({"property":id,"detected_by":[id],"needs":"see notes.md","origin":"independent sub-agent given only the property text and a private worktree",
 "confirmed":{"suite_with_patch":t1,"suite_with_patch_and_demo":t2,"demo_without_patch":t3,"commands":"git apply patch.diff; cargo test --offline; git apply demo.diff; cargo test --offline; git apply -R patch.diff; cargo test --offline"}},open(d+"/meta.json","w"),indent=1)
PY
echo "$id: confirmed -> $d"
