# claim(property, technique, level text, level note, DESIGN.md section)
NOTE = "Trusted: the reference model and decoders in harness/src (model.rs, app*.rs, sig.rs), the frame builders, the cfg-gated driver hook (H1-H3). Bounds: the stated field domains / deviation bound / search depth; wider fields by edge sets; nothing is sampled."
claim("C01",
      "bounded-exhaustive deviation-neighbourhood enumeration (0 and 1 deviations complete, part of 2) + explicit-state search over parser control states, on the real reply(), both build profiles, 72 configurations",
      "Every frame of the base corpus, every truncation, every listed value of every length/selector field, every byte position x 256 values (bounded region in the quick tier), tails, short strings after each signature, and every corpus frame in every reachable parser control state is executed on the real reply() under the configuration lattice on the overflow-checked and the release build; the oracle is 'no panic, process alive, answer within the watchdog'.",
      NOTE, "DESIGN.md section 4 C01")
claim("C02",
      "bounded-exhaustive sweep: authorised MAC set + all 1-bit flips, all 65536 EtherTypes, all 256 IP protocols, deny/self sets + all 1-bit flips, against the reference predicate",
      "The acceptance tests are memberships in finite sets, so their boundary is the 1-bit neighbourhood, which is enumerated completely together with all EtherType / protocol values, for 4 (thorough 8) configurations; every reply is also checked to be sourced from (and to advertise) listed addresses.",
      NOTE, "DESIGN.md section 4 C02")
claim("C03",
      "bounded-exhaustive sweep: address alphabets and all 65536 values of each port for every reply-eliciting frame kind; mirror-map oracle on every reply",
      "All 65536 source ports x 4 destination ports and conversely for TCP SYN, TCP data behind a valid cookie, UDP STUN (incl. the dport+1 exception at 65535), UDP HTTP; 8-value alphabets for MACs and IP addresses; the mirror invariants are additionally evaluated on every reply of every other check.",
      NOTE, "DESIGN.md section 4 C03")
claim("C04",
      "bounded-exhaustive sweep designed so that each reply checksum takes all 65536 values; independent re-parse and re-checksum of every reply",
      "One echoed 16-bit request field is swept over all values per (L4 protocol x IP version x reply kind), echo payloads of every length 0..1472, DNS replies up to the largest a 4096-byte frame can elicit; the well-formedness invariants are also evaluated on every reply of every other check.",
      NOTE, "DESIGN.md section 4 C04")
claim("C05",
      "bounded-exhaustive sweep (all 65536 ARP ops, all 256x256 ICMP type/code pairs, all echo ids/seqs/lengths, ND option layouts) against a field-by-field reference",
      "Every frame of the stated finite products is executed on the real reply() and compared field by field with the expected ARP reply / NA / echo reply or silence, under two configurations.",
      NOTE, "DESIGN.md section 4 C05")
claim("C06",
      "bounded-exhaustive sweep over all 512 flag values x reserved bits x payloads x edge sequence numbers; cookie function analysed over >= 2^18 tuples (determinism, sensitivity, collision count)",
      "The SYN rule is decided for every flag value; the cookie clause is decided as functional determinism plus sensitivity on learned cookies (collisions counted against the 2^-32 expectation; every single address bit of 21 base addresses of every class, as source and as destination, must change the cookie), under 3 keys.",
      NOTE, "DESIGN.md section 4 C06")
claim("C07",
      "explicit-state BFS over the real connection table (hook H2 digest) against a reference connection model",
      "Breadth-first search over histories of a ~35-event-per-flow alphabet on 2-3 flows, de-duplicated on (canonical real table, reference state); every transition is judged: answered-or-not, flags, seq/ack arithmetic (incl. wrap and ack=0), application verdict, table size.",
      NOTE, "DESIGN.md section 4 C07")
claim("C08",
      "explicit-state BFS with a differential oracle on every transition (reply under the full history == reply under the own-flow restriction on a fresh table) + no-dedup interleaving enumeration + cookie-collision stage",
      "No hand-written expectation: the same frame is replayed after only its own flow's accepted data segments and the replies must be identical (wall clock masked); all interleavings of two 3-segment requests with noise are enumerated without de-duplication so that state invisible to the digest cannot hide.",
      NOTE + " Known finding D13 (equal cookies alias one control block).", "DESIGN.md section 4 C08")
claim("C09",
      "explicit-state BFS invariant |real table| == |validated flows of the reference| on every transition + volume sweeps with long-lived tables",
      "The table-size probe (hook H2) is compared with the reference set of validated flows after every frame of the search; all source ports x 12 kinds of unvalidated frames must leave a long-lived table empty; 200 valid segments on one flow grow it exactly once.",
      NOTE + " Known finding D13.", "DESIGN.md section 4 C09")
claim("C10",
      "explicit-state product automaton: real compiled matcher (stepped through hook H3) x reference NFA of the 19 signatures over 256 bytes + END, to a fixpoint; witnesses replayed through the real UDP/TCP paths",
      "Both sides are finite automata, so the fixpoint covers every byte string of every length; every transition is classified and every first divergence is an event with a row-numbering-independent key; segmentation of the matcher and the observable level (UDP, TCP whole, TCP cut at every offset inside the signature) are checked on witnesses.",
      NOTE + " Known finding D12: 103 listed first-divergence events (wildcard shadowing).", "DESIGN.md section 4 C10")
claim("C11",
      "differential exhaustive enumeration of segmentations (every 1-cut, every 2-cut, finest, zero-length insertions) + BFS over parser control states with merge-equivalence in every state",
      "The unsegmented run of the same stream is the reference; the parser-state BFS with one-byte segments reaches a fixpoint of the control states (529 on the current tree) and in each of them 'one segment xy' is compared with 'x then y' (state dump and replies).",
      NOTE, "DESIGN.md section 4 C11")
claim("C12",
      "bounded-exhaustive sweep over reply-typed messages (all 32768 DNS flag words with QR=1, all 65536 STUN types, all SMB2 commands with the response flag, ...) + explicit reflection chains iterated to silence",
      "Every reply the responder produces for the base corpus is re-addressed to it and the chain is iterated to silence; protocol-marked replies are built for every value of the marking field; a reply is allowed only where the reference grammars say the bytes are a valid request.",
      NOTE, "DESIGN.md section 4 C12")
claim("C13",
      "bounded-exhaustive grammar product + complete single-fault neighbourhood (every deletion / substitution / insertion / prefix) over UDP and TCP, against an independent recogniser",
      "The request grammar product and all single-byte faults of a core set are sent over UDP and fresh validated TCP flows; answered-or-not is compared with the recogniser of the statement's grammar and every 401 is validated (status, WWW-Authenticate, Content-Length == body bytes).",
      NOTE, "DESIGN.md section 4 C13")
claim("C14",
      "bounded-exhaustive sweep (all ids, all flag words, all qtypes, all qclasses, label layouts x question counts, every prefix) against an independent DNS decoder",
      "Every response is fully decoded (id, opcode, RD, QR, question echo, counts, one IN/A answer per question with RDATA = destination address, no trailing bytes); non-IN/A, QR=1 and truncated messages must be silent.",
      NOTE, "DESIGN.md section 4 C14")
claim("C15",
      "bounded-exhaustive sweep (all message types, transaction-id bytes, attribute lists, all ports, change-request flags) against an independent STUN decoder",
      "Every well-formed binding request must be answered with a decoded-correct success response reflecting the observed address; the change-port exception is checked for all destination ports.",
      NOTE + " Known finding D12 seen from this property (requests the matcher misses).", "DESIGN.md section 4 C15")
claim("C16",
      "bounded-exhaustive sweep (256 programs x 8 versions x 256 procedures, XID bytes, credential / verifier lengths, all destination ports) against an independent XDR reader",
      "Every reply is decoded and the precedence PROG_MISMATCH > NULL > GETPORT/GETADDR/DUMP > PROC_UNAVAIL > PROG_UNAVAIL and the advertised endpoint are checked, over UDP and TCP, IPv4 and IPv6.",
      NOTE + " Known finding D12 seen from this property.", "DESIGN.md section 4 C16")
claim("C17",
      "bounded-exhaustive sweep (all 65536 values of each SMB1 id, all flags and commands, ALL dialect sequences of length 1..4, blob lengths, SMB2 id bytes, all 65536 commands) against an independent decoder",
      "Every response is decoded: NetBIOS length, reply flag, echoed command and correlation fields, length/offset consistency with the blob present, selected dialect offered; reply-flagged or other-command messages must be silent.",
      NOTE, "DESIGN.md section 4 C17")
claim("C18",
      "exhaustive enumeration of all strings up to length 5 (thorough 6) over a 9-symbol alphabet after each SSH signature + complete single-fault neighbourhood of 11 banners; Gh0st tails; independent recogniser and zlib inflate",
      "Answered-or-not is compared with the recogniser of the identification-string grammar, the reply must be exactly 'SSH-2.0-1 CR LF'; every Gh0st reply is decoded (declared total length, body inflates to the declared length).",
      NOTE, "DESIGN.md section 4 C18")
claim("C19",
      "differential bounded-exhaustive sweep: all 65536 destination ports, all 65536 source ports, two 256x256 byte grids, both IP versions, vs the reference run, endpoint-carrying fields masked",
      "No hand-written expectation: the canonical reply (endpoint fields and wall clock masked) must equal that of the reference run (40000 -> 80, IPv4) for every payload of the corpus, over UDP and fresh validated TCP flows.",
      NOTE, "DESIGN.md section 4 C19")
claim("C20",
      "bounded-exhaustive enumeration of every control-flow path of the L2-L4 layers (corpus + every truncation + every header-field value + selectors) with the real loggers attached; per-frame event trace compared with the reference trace",
      "The real ConsoleLogger / LogfmtLogger lines of each frame are parsed (arity / key=value syntax) and the multiset of events is compared with the reference: one recv and one terminal per layer reached, nested, terminal = send iff a reply was emitted, printed addresses and ports = the frame's.",
      NOTE, "DESIGN.md section 4 C20")
