# claim(property, technique, level text, level note, DESIGN.md section)
claim("C05",
      "bounded-exhaustive sweep (full Cartesian products: all 65536 ARP ops, all 256x256 ICMP type/code pairs, all echo ids/seqs/lengths) on the real reply() against a reference model",
      "Every frame of the stated finite products is executed on the real reply() (release build) and compared field by field with the reference model's expected ARP reply / NA / echo reply or silence, under two configurations (address lists absent / present).",
      "Trusted: the reference model in harness/src/model.rs, the frame builders, the driver hook. Bounds: the listed field domains; wider fields by edge sets.",
      "DESIGN.md section 4 C05")
