#!/bin/bash
# Detection self-test: apply each property-breaking patch of mutants/ (and seeded/) to a scratch
# worktree of /repo, build the hooked drivers from it, run the owning quick check and require a
# VIOLATION line for the owning property.  Nothing is written to /repo or to /verif/evidence.
#   ./selftest.sh [name-substring ...]
set -u
cd "$(dirname "$0")"
VERIF="$(pwd)"
# one self-test at a time per slot: runs of a slot share the driver build directory
# .build/selftest$SELFTEST_SLOT (tools/selftest_parallel.sh runs several slots side by side)
SLOT="${SELFTEST_SLOT:-}"
mkdir -p "$VERIF/.build"
exec 9>"$VERIF/.build/selftest$SLOT.lock"
flock 9
SCR=/var/tmp/mcx-selftest.$$
OUT="$SCR/out"
mkdir -p "$OUT"
trap 'git -C /repo worktree remove --force "$SCR/wt" >/dev/null 2>&1; rm -rf "$SCR"' EXIT
git -C /repo worktree add --detach "$SCR/wt" HEAD >/dev/null 2>&1 || { echo "cannot create worktree"; exit 2; }
pass=0; fail=0
results=()
for meta in mutants/*/meta.json seeded/*/meta.json; do
  [ -f "$meta" ] || continue
  dir=$(dirname "$meta")
  name=$(basename "$dir")
  if [ $# -gt 0 ]; then
    match=0; for pat in "$@"; do case "$dir/" in *$pat*) match=1;; esac; done
    [ $match -eq 1 ] || continue
  fi
  # a change that the property TEXT does not decide (the reference abstains there, with the reason
  # recorded in its meta.json and in DESIGN.md) is listed, not counted
  undecided=$(python3 -c "import json,sys; m=json.load(open('$meta')); print(m.get('undecided',''))")
  if [ -n "$undecided" ]; then echo "UNDECIDED $dir: $undecided" | cut -c1-300; results+=("$dir:undecided"); continue; fi
  props=$(python3 -c "import json,sys; m=json.load(open('$meta')); print(' '.join(m.get('detected_by', [m['property']])))")
  owner=$(python3 -c "import json,sys; m=json.load(open('$meta')); print(m['property'])")
  git -C "$SCR/wt" checkout -q -- . && git -C "$SCR/wt" clean -fdq
  if ! git -C "$SCR/wt" apply "$VERIF/$dir/patch.diff" 2>"$SCR/apply.err"; then
    echo "SKIP $dir: patch does not apply ($(head -1 $SCR/apply.err))"; results+=("$dir:skip"); continue
  fi
  detected=0
  for p in $props; do
    MCX_REPO="$SCR/wt" MCX_BUILD_DIR="$VERIF/.build/selftest$SLOT" MCX_HARNESS_BUILD_DIR="$VERIF/.build/harness" MCX_OUT_DIR="$OUT" \
      ./check "$p" quick > "$SCR/run.log" 2>&1
    rc=$?
    if [ $rc -eq 2 ]; then echo "  (machinery error running $p on $dir)"; tail -3 "$SCR/run.log"; fi
    if grep -q "^VIOLATION property=$owner " "$SCR/run.log"; then
      detected=1
      echo "DETECTED $dir by check $p: $(grep -A1 "^VIOLATION property=$owner " "$SCR/run.log" | sed -n 2p | cut -c1-160)"
      break
    fi
  done
  if [ $detected -eq 1 ]; then pass=$((pass+1)); results+=("$dir:detected"); else fail=$((fail+1)); results+=("$dir:MISSED"); echo "MISSED   $dir (checks run: $props)"; fi
done
echo "selftest: $pass detected, $fail missed"
printf '%s\n' "${results[@]}" > "$VERIF/.build/selftest$SLOT-last.txt" 2>/dev/null
[ $fail -eq 0 ]
