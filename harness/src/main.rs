//! mcx — model-checking harness for masscanned (see /verif/DESIGN.md).
//!
//!   mcx <C01..C20> <quick|thorough>     run one property check
//!   mcx replay <file>                   re-execute a replay artefact, print observed
//!
//! Exit: 0 held (possibly with KNOWN-FINDING lines) / 1 violation / 2 machinery error.

mod app;
mod appdns;
mod apprpc;
mod appsmb;
mod bfs;
mod corpus;
mod deviate;
mod driver;
mod engine;
mod mask;
mod model;
mod props;
mod shadow;
mod sig;
mod sip;
mod wire;

use std::collections::BTreeMap;
use std::io::Write;

use serde_json::{json, Value};

use driver::{Cfg, Cmd, Driver};
use engine::{Report, Violation};

pub fn verif_dir() -> String {
    std::env::var("MCX_VERIF_DIR").unwrap_or_else(|_| "/verif".to_string())
}

/// where evidence/ and replays/ are written (default: the verif dir)
pub fn out_dir() -> String {
    std::env::var("MCX_OUT_DIR").unwrap_or_else(|_| verif_dir())
}

#[derive(Clone, Debug)]
pub struct KnownFinding {
    pub prop: String,
    pub key: String,
    pub text: String,
}

pub fn load_known_findings() -> Vec<KnownFinding> {
    let path = format!("{}/KNOWN_FINDINGS.txt", verif_dir());
    let mut v = Vec::new();
    if let Ok(s) = std::fs::read_to_string(&path) {
        for line in s.lines() {
            let line = line.trim();
            if let Some(rest) = line.strip_prefix("finding:") {
                let rest = rest.trim();
                let mut prop = String::new();
                let mut key = String::new();
                let mut text = Vec::new();
                for tok in rest.split(' ') {
                    if let Some(p) = tok.strip_prefix("property=") {
                        if prop.is_empty() {
                            prop = p.to_string();
                            continue;
                        }
                    }
                    if let Some(k) = tok.strip_prefix("key=") {
                        if key.is_empty() {
                            key = k.to_string();
                            continue;
                        }
                    }
                    text.push(tok);
                }
                if !prop.is_empty() && !key.is_empty() {
                    for p in prop.split(',') {
                        v.push(KnownFinding {
                            prop: p.to_string(),
                            key: key.clone(),
                            text: text.join(" "),
                        });
                    }
                }
            }
        }
    }
    v
}

fn fnv(s: &str) -> u64 {
    let mut h: u64 = 0xcbf29ce484222325;
    for b in s.bytes() {
        h ^= b as u64;
        h = h.wrapping_mul(0x100000001b3);
    }
    h
}

fn exec_fresh(cfg: &Cfg, cmds: &[Cmd]) -> Result<Vec<String>, String> {
    let mut d = Driver::spawn(cfg)?;
    let mut obs = Vec::new();
    for c in cmds {
        match d.exec(std::slice::from_ref(c)) {
            Ok(o) => {
                let o = &o[0];
                obs.push(match c {
                    Cmd::Frame(_) => format!(
                        "{} {} n={}",
                        if o.panicked { format!("panic({})", engine::panic_site(&o.text)) } else { "ok".into() },
                        mask::canon_reply(o.reply.as_deref()),
                        o.n
                    ),
                    Cmd::Dump => format!("dump {}", o.text),
                    Cmd::Reset => "reset".to_string(),
                    _ => format!("smack {:?}", o.smack),
                });
            }
            Err(driver::DriverErr::Died(..)) => {
                obs.push("process died".to_string());
                break;
            }
            Err(driver::DriverErr::Timeout(..)) => {
                obs.push("no answer within the watchdog".to_string());
                break;
            }
            Err(driver::DriverErr::Protocol(e)) => return Err(e),
        }
    }
    Ok(obs)
}

fn write_replay(v: &Violation) -> Result<String, String> {
    let dir = format!("{}/replays", out_dir());
    std::fs::create_dir_all(&dir).map_err(|e| e.to_string())?;
    // replay twice on fresh drivers: identical observations or it is a machinery error
    let a = exec_fresh(&v.cfg, &v.cmds)?;
    let b = exec_fresh(&v.cfg, &v.cmds)?;
    // a violation found by the explorer whose replay differs between two fresh processes: the
    // RESPONDER is not deterministic on this input (e.g. the iteration order of a hash set leaks
    // into the reply).  The violation stands (it was observed on the real code); both
    // observations are recorded.
    let nondeterministic = a != b;
    let doc = json!({
        "nondeterministic_responder": nondeterministic,
        "observed_second_replay": if nondeterministic { json!(b) } else { json!(null) },
        "property": v.prop,
        "key": v.key,
        "what": v.what,
        "stage": v.stage,
        "cfg": v.cfg.to_json(),
        "cmds": v.cmds.iter().map(|c| c.to_json()).collect::<Vec<_>>(),
        "observed": a,
    });
    let name = format!("{}/{}-{:016x}.json", dir, v.prop, fnv(&format!("{}|{}|{}", v.prop, v.key, v.cfg.describe())));
    std::fs::write(&name, serde_json::to_string_pretty(&doc).unwrap()).map_err(|e| e.to_string())?;
    Ok(name)
}

/// Print verdict lines, write replays and the evidence file; returns the exit code.
pub fn finish(rep: Report) -> i32 {
    let kf = load_known_findings();
    let mut code = 0;
    let mut known_hits: BTreeMap<String, u64> = BTreeMap::new();
    let mut nviol = 0;
    let out = std::io::stdout();
    let mut out = out.lock();
    if !rep.sink.machinery_errors.is_empty() {
        for e in &rep.sink.machinery_errors {
            let _ = writeln!(out, "MACHINERY-ERROR: {}", e);
        }
        return 2;
    }
    for ((prop, key), v) in &rep.sink.violations {
        let n = rep.sink.vcount.get(&(prop.clone(), key.clone())).copied().unwrap_or(1);
        if let Some(k) = kf.iter().find(|k| &k.prop == prop && &k.key == key) {
            let _ = writeln!(out, "KNOWN-FINDING: property={} key={} ({} occurrences) {}", prop, key, n, k.text);
            *known_hits.entry(format!("{}:{}", prop, key)).or_insert(0) += n;
            continue;
        }
        nviol += 1;
        if std::env::var("MCX_KF_CANDIDATES").is_ok() {
            let _ = writeln!(out, "KF-CANDIDATE finding: property={} key={} {}", prop, key, v.what.chars().take(160).collect::<String>().replace('\n', " "));
        }
        match write_replay(v) {
            Ok(path) => {
                let _ = writeln!(out, "VIOLATION property={} replay={}", prop, path);
                let _ = writeln!(out, "  key={} occurrences={} stage={} cfg: {}", key, n, v.stage, v.cfg.describe());
                let _ = writeln!(out, "  {}", v.what.chars().take(600).collect::<String>());
                code = 1;
            }
            Err(e) => {
                let _ = writeln!(out, "MACHINERY-ERROR: {}", e);
                return 2;
            }
        }
    }
    // evidence
    let wall = rep.started.elapsed().as_secs_f64();
    let frames = rep.sink.counters.get("frames").copied().unwrap_or(0);
    let mut cov = serde_json::Map::new();
    cov.insert("states".into(), json!(rep.states.max(1)));
    cov.insert("transitions".into(), json!(rep.transitions.max(frames).max(1)));
    cov.insert("traces_validated_against_impl".into(), json!(rep.sink.counters.get("traces").copied().unwrap_or(frames)));
    cov.insert("evaluations".into(), json!(frames.max(rep.transitions)));
    cov.insert("distinct_nontrivial".into(), json!(rep.sink.classes.len()));
    cov.insert("outcome_classes".into(), json!(rep.sink.classes.iter().take(200).collect::<Vec<_>>()));
    cov.insert("rule".into(), json!(rep.rule));
    cov.insert("exhaustive".into(), json!(rep.exhaustive && rep.caps_hit.is_empty()));
    cov.insert("caps_hit".into(), json!(rep.caps_hit));
    cov.insert("stages".into(), json!(rep.stages));
    cov.insert("counters".into(), json!(rep.sink.counters));
    cov.insert("known_finding_hits".into(), json!(known_hits));
    let mut samples = rep.sink.samples.clone();
    if samples.is_empty() {
        samples.push(json!({"note": "no sample recorded"}));
    }
    cov.insert("samples".into(), json!(samples));
    for (k, v) in &rep.extra {
        cov.insert(k.clone(), v.clone());
    }
    let ev = json!({
        "property_id": rep.prop,
        "tier": rep.tier,
        "seed": std::env::var("VERIF_SEED").ok().and_then(|s| s.parse::<i64>().ok()).unwrap_or(0),
        "level": "model_checking",
        "coverage": Value::Object(cov),
        "assumptions": rep.assumptions,
        "wall_s": (wall * 100.0).round() / 100.0,
        "violations": nviol,
    });
    let dir = format!("{}/evidence", out_dir());
    let _ = std::fs::create_dir_all(&dir);
    let path = format!("{}/{}.json", dir, rep.prop);
    if let Err(e) = std::fs::write(&path, serde_json::to_string_pretty(&ev).unwrap()) {
        let _ = writeln!(out, "MACHINERY-ERROR: cannot write {}: {}", path, e);
        return 2;
    }
    // a per-tier copy, so that the record of a thorough run survives the next quick run
    let _ = std::fs::create_dir_all(format!("{}/by-tier", dir));
    let _ = std::fs::write(format!("{}/by-tier/{}.{}.json", dir, rep.prop, rep.tier), serde_json::to_string_pretty(&ev).unwrap());
    let _ = writeln!(
        out,
        "{} {}: {} frames, {} states, {} outcome classes, {} violations, {} known-finding keys, {:.1}s",
        rep.prop,
        rep.tier,
        frames,
        rep.states,
        rep.sink.classes.len(),
        nviol,
        known_hits.len(),
        wall
    );
    code
}

fn replay(path: &str) -> i32 {
    let s = match std::fs::read_to_string(path) {
        Ok(s) => s,
        Err(e) => {
            eprintln!("cannot read {}: {}", path, e);
            return 2;
        }
    };
    let v: Value = match serde_json::from_str(&s) {
        Ok(v) => v,
        Err(e) => {
            eprintln!("bad JSON: {}", e);
            return 2;
        }
    };
    let cfg = match Cfg::from_json(&v["cfg"]) {
        Some(c) => c,
        None => {
            eprintln!("bad cfg in replay");
            return 2;
        }
    };
    let cmds: Vec<Cmd> = v["cmds"].as_array().map(|a| a.iter().filter_map(Cmd::from_json).collect()).unwrap_or_default();
    println!("property: {}", v["property"]);
    println!("key:      {}", v["key"]);
    println!("what:     {}", v["what"]);
    println!("cfg:      {}", cfg.describe());
    if cmds.is_empty() {
        println!("this finding is a statistic over a whole sweep and records no frame sequence: re-run the check that reported it");
        return 0;
    }
    match exec_fresh(&cfg, &cmds) {
        Ok(obs) => {
            for (c, o) in cmds.iter().zip(obs.iter()) {
                println!("  {}   -> {}", c.line().trim_end(), o);
            }
            let recorded: Vec<String> = v["observed"].as_array().map(|a| a.iter().filter_map(|x| x.as_str().map(|s| s.to_string())).collect()).unwrap_or_default();
            if recorded == obs {
                println!("observation identical to the recorded one: the violation reproduces");
                1
            } else {
                println!("observation differs from the recorded one (recorded: {:?})", recorded);
                0
            }
        }
        Err(e) => {
            eprintln!("machinery error: {}", e);
            2
        }
    }
}

fn main() {
    let args: Vec<String> = std::env::args().collect();
    if args.len() < 3 {
        eprintln!("usage: mcx <C01..C20> <quick|thorough> | mcx replay <file>");
        std::process::exit(2);
    }
    if args[1] == "find-edge-cookies" {
        // offline helper: search key[0] values such that the harness's SipHash guess of the
        // cookie of flow 10.0.0.9:40000 -> 10.0.0.1:80 is 0xffffffff / 0x00000000
        let nthreads = 16u64;
        let span: u64 = args[2].parse().unwrap_or(1 << 32);
        std::thread::scope(|sc| {
            for t in 0..nthreads {
                sc.spawn(move || {
                    let mut d = [0u8; 12];
                    d[0..4].copy_from_slice(&u32::from_be_bytes([10, 0, 0, 9]).to_ne_bytes());
                    d[4..8].copy_from_slice(&u32::from_be_bytes([10, 0, 0, 1]).to_ne_bytes());
                    d[8..10].copy_from_slice(&40000u16.to_ne_bytes());
                    d[10..12].copy_from_slice(&80u16.to_ne_bytes());
                    let mut k = t;
                    while k < span {
                        let c = (sip::siphash24(k, 0x5eed, &d) & 0xffff_ffff) as u32;
                        if c == 0xffff_ffff || c == 0 || c == 0xffff_fffe || c == 1 {
                            println!("key0={:#x} key1=0x5eed cookie={:#010x}", k, c);
                        }
                        k += nthreads;
                    }
                });
            }
        });
        return;
    }
    if args[1] == "replay" {
        std::process::exit(replay(&args[2]));
    }
    let tier = args[2].as_str();
    if tier != "quick" && tier != "thorough" {
        eprintln!("tier must be quick or thorough");
        std::process::exit(2);
    }
    let thorough = tier == "thorough";
    let rep = match props::run(&args[1], thorough) {
        Some(r) => r,
        None => {
            eprintln!("unknown property {}", args[1]);
            std::process::exit(2);
        }
    };
    std::process::exit(finish(rep));
}
