//! Masking of wall-clock fields (HTTP Date, SMB server times) so that observations can be
//! compared across runs, histories, ports and IP versions.

use crate::app::mask_http_date;
use crate::wire::*;

/// Application payload of a TCP/UDP reply frame: (transport proto, l4 header without checksum
/// relevant parts, payload).
pub fn app_payload(frame: &[u8]) -> Option<(u8, Vec<u8>)> {
    let e = parse_eth(frame)?;
    let ip = match e.et {
        ET_IP4 => parse_ipv4(e.payload)?,
        ET_IP6 => parse_ipv6(e.payload)?,
        _ => return None,
    };
    match ip.proto {
        P_TCP => Some((P_TCP, parse_tcp(ip.payload)?.payload.to_vec())),
        P_UDP => Some((P_UDP, parse_udp(ip.payload)?.payload.to_vec())),
        _ => None,
    }
}

/// Mask wall-clock fields of an application payload.
pub fn mask_app(p: &[u8]) -> Vec<u8> {
    if p.starts_with(b"HTTP/") {
        return mask_http_date(p);
    }
    let mut v = p.to_vec();
    if p.len() > 8 && p[0] == 0 && &p[4..8] == b"\xffSMB" && p[8] == 0x72 && p.len() >= 4 + 32 + 35 {
        // SMB1 negotiate response: SystemTime at words offset 23 (after WordCount)
        let o = 4 + 32 + 1 + 23;
        for b in &mut v[o..o + 8] {
            *b = 0;
        }
    }
    if p.len() > 8 && p[0] == 0 && &p[4..8] == b"\xfeSMB" && p.len() >= 4 + 64 + 64 && p[4 + 12] == 0 && p[4 + 13] == 0 {
        // SMB2 negotiate response: SystemTime and ServerStartTime at body offset 40..56
        let o = 4 + 64 + 40;
        for b in &mut v[o..o + 16] {
            *b = 0;
        }
    }
    v
}

/// A whole reply frame with wall-clock fields and the checksums that depend on them masked.
/// Returns a canonical string for comparison.
pub fn canon_reply(reply: Option<&[u8]>) -> String {
    match reply {
        None => "-".to_string(),
        Some(r) => {
            if let Some((proto, app)) = app_payload(r) {
                let masked = mask_app(&app);
                if masked != app {
                    // header (minus L4 checksum) + masked payload
                    let e = parse_eth(r).unwrap();
                    let hdr_len = r.len() - app.len();
                    let mut h = r[..hdr_len].to_vec();
                    // zero the L4 checksum: TCP at +16, UDP at +6 of the L4 header
                    let l4 = if e.et == ET_IP4 { 14 + 20 } else { 14 + 40 };
                    let co = if proto == P_TCP { l4 + 16 } else { l4 + 6 };
                    if co + 2 <= h.len() {
                        h[co] = 0;
                        h[co + 1] = 0;
                    }
                    return format!("{}|{}", hex(&h), hex(&masked));
                }
            }
            hex(r)
        }
    }
}
