//! Explicit-state breadth-first search over the REAL connection table: a state is the history
//! that reaches it (fresh real object, handlers replayed); it is identified by the canonical
//! digest of the real table (hook H2) paired with the reference model's state; every transition
//! feeds one frame of a finite alphabet to the real reply() and is judged by the reference
//! connection model, by the table-size oracle (C09) and by the differential oracle of C08.

use std::collections::{BTreeMap, HashMap, HashSet};
use std::sync::Mutex;

use crate::driver::{Cfg, Cmd};
use crate::engine::{self, Item, Report, RunOpts, Sink, Violation};
use crate::mask::canon_reply;
use crate::model::{FlowKey, Model};

#[derive(Clone, Debug)]
pub struct Event {
    pub name: String,
    pub frame: Vec<u8>,
    /// flow the frame belongs to (TCP), if any
    pub flow: Option<FlowKey>,
    /// PSH|ACK data segment (the only kind of frame a later reply may depend on)
    pub is_data: bool,
}

/// Canonical form of a raw table dump: accumulators that the code only appends to are
/// abstracted to (length capped at 2, valid UTF-8), everything else verbatim.
pub fn canon_dump(text: &str, abstract_acc: bool) -> String {
    if !abstract_acc {
        return text.to_string();
    }
    let mut out = String::with_capacity(text.len());
    let mut rest = text;
    loop {
        // find the next accumulator field
        let mut best: Option<(usize, &str)> = None;
        for f in ["verb=", "uri=", "creds=", "verif=", "payload="] {
            if let Some(p) = rest.find(f) {
                if best.map(|(b, _)| p < b).unwrap_or(true) {
                    best = Some((p, f));
                }
            }
        }
        match best {
            None => {
                out.push_str(rest);
                break;
            }
            Some((p, f)) => {
                out.push_str(&rest[..p + f.len()]);
                let after = &rest[p + f.len()..];
                let end = after.find(|c: char| !c.is_ascii_hexdigit()).unwrap_or(after.len());
                let hexs = &after[..end];
                let bytes = crate::wire::unhex(hexs).unwrap_or_default();
                out.push_str(&format!("len{}{}", bytes.len().min(2), if std::str::from_utf8(&bytes).is_ok() { "u" } else { "x" }));
                rest = &after[end..];
            }
        }
    }
    out
}

pub struct BfsOpts {
    pub stage: String,
    pub max_depth: usize,
    pub max_states: usize,
    pub abstract_acc: bool,
    /// run the C08 differential (own-flow restriction on a fresh table) on every transition
    pub differential: bool,
}

struct Node {
    hist: Vec<usize>,
    /// per history entry: was this data segment accepted (answered)
    accepted: Vec<bool>,
}

pub struct BfsStats {
    pub states: u64,
    pub transitions: u64,
    pub depth: usize,
    pub fixpoint: bool,
}

pub fn bfs(cfg: &Cfg, events: &[Event], cookies: &HashMap<FlowKey, u32>, o: &BfsOpts, rep: &mut Report) -> BfsStats {
    let t0 = std::time::Instant::now();
    let mut seen: HashSet<String> = HashSet::new();
    let mut frontier: Vec<Node> = vec![Node { hist: vec![], accepted: vec![] }];
    seen.insert("<empty>".to_string());
    let mut states = 1u64;
    let mut transitions = 0u64;
    let mut depth = 0;
    let mut fixpoint = false;
    let ne = events.len() as u64;
    while depth < o.max_depth {
        if frontier.is_empty() {
            fixpoint = true;
            break;
        }
        let total = frontier.len() as u64 * ne;
        let results: Mutex<BTreeMap<u64, (String, bool)>> = Mutex::new(BTreeMap::new());
        let opts = RunOpts::new(&o.stage).stateful().chunk(16).no_monitor();
        let fr = &frontier;
        engine::run(
            cfg,
            total,
            &opts,
            |i| {
                let n = &fr[(i / ne) as usize];
                let e = &events[(i % ne) as usize];
                let mut cmds: Vec<Cmd> = n.hist.iter().map(|k| Cmd::Frame(events[*k].frame.clone())).collect();
                cmds.push(Cmd::Frame(e.frame.clone()));
                cmds.push(Cmd::Dump);
                if o.differential {
                    cmds.push(Cmd::Reset);
                    for (k, acc) in n.hist.iter().zip(n.accepted.iter()) {
                        let h = &events[*k];
                        if h.is_data && *acc && h.flow.is_some() && h.flow == e.flow {
                            cmds.push(Cmd::Frame(h.frame.clone()));
                        }
                    }
                    cmds.push(Cmd::Frame(e.frame.clone()));
                }
                cmds
            },
            |it: &Item, s: &mut Sink| {
                let n = &fr[(it.idx / ne) as usize];
                let ei = (it.idx % ne) as usize;
                let e = &events[ei];
                let model = Model::new();
                // position of the new frame: after the engine's Reset and the history
                let pos = 1 + n.hist.len();
                let tbl = engine::judge_item(cfg, &model, cookies, it, pos + 1, &o.stage, s);
                s.count("frames", (pos) as u64);
                let out = &it.outs[pos];
                let dump = &it.outs[pos + 1];
                let accepted = out.reply.is_some() && !out.panicked;
                if out.panicked {
                    s.violation(Violation {
                        prop: "C01".into(),
                        key: format!("panic:{}", engine::panic_site(&out.text)),
                        what: format!("reply() panicked after a history of {} frames: {}", n.hist.len(), out.text),
                        cfg: cfg.clone(),
                        cmds: it.cmds[..=pos].to_vec(),
                        idx: it.idx,
                        stage: o.stage.clone(),
                    });
                }
                if o.differential {
                    // last command of the item is the same frame on the restricted history
                    let alone = it.outs.last().unwrap();
                    s.count("frames", (it.cmds.len() - pos - 3) as u64);
                    let a = canon_reply(out.reply.as_deref());
                    let b = canon_reply(alone.reply.as_deref());
                    if a != b {
                        // cookie aliasing between two validated flows is the listed finding D13
                        let mut key = "interference".to_string();
                        if let Some(fk) = &e.flow {
                            if let Some(c) = cookies.get(fk) {
                                let alias = n.hist.iter().find(|k| {
                                    let h = &events[**k];
                                    h.flow.is_some() && h.flow != e.flow && cookies.get(h.flow.as_ref().unwrap()) == Some(c)
                                });
                                if let Some(k) = alias {
                                    key = crate::model::alias_key(fk, events[*k].flow.as_ref().unwrap());
                                }
                            }
                        }
                        s.violation(Violation {
                            prop: "C08".into(),
                            key,
                            what: format!(
                                "reply to '{}' depends on unrelated history: after the full history {} / after only its own flow's accepted data {}",
                                e.name, a, b
                            ),
                            cfg: cfg.clone(),
                            cmds: it.cmds[..=pos].to_vec(),
                            idx: it.idx,
                            stage: o.stage.clone(),
                        });
                    }
                }
                let key = format!("{}##{}", canon_dump(&dump.text, o.abstract_acc), model.table_digest(&tbl));
                results.lock().unwrap().insert(it.idx, (key, accepted));
            },
            &mut rep.sink,
        );
        transitions += total;
        let results = results.into_inner().unwrap();
        let mut next: Vec<Node> = Vec::new();
        for (idx, (key, accepted)) in results {
            if seen.insert(key) {
                states += 1;
                if (states as usize) <= o.max_states {
                    let n = &frontier[(idx / ne) as usize];
                    let mut hist = n.hist.clone();
                    hist.push((idx % ne) as usize);
                    let mut acc = n.accepted.clone();
                    acc.push(accepted);
                    next.push(Node { hist, accepted: acc });
                }
            }
        }
        depth += 1;
        frontier = next;
        if states as usize > o.max_states {
            rep.caps_hit.push(format!("{}: state cap {} hit at depth {}", o.stage, o.max_states, depth));
            break;
        }
    }
    if frontier.is_empty() {
        fixpoint = true;
    }
    if !fixpoint {
        rep.caps_hit.push(format!("{}: depth cap {} reached with {} unexpanded states", o.stage, o.max_depth, frontier.len()));
    }
    rep.stages.push(serde_json::json!({
        "stage": o.stage,
        "space": format!("BFS over histories of an alphabet of {} frames, dedup on (canonical real table, reference state)", events.len()),
        "states": states,
        "transitions": transitions,
        "depth": depth,
        "fixpoint": fixpoint,
        "wall_s": (t0.elapsed().as_secs_f64() * 100.0).round() / 100.0,
    }));
    eprintln!("[{}] bfs {}: {} states, {} transitions, depth {}, fixpoint {} in {:.1}s", rep.prop, o.stage, states, transitions, depth, fixpoint, t0.elapsed().as_secs_f64());
    rep.states += states;
    rep.transitions += transitions;
    BfsStats { states, transitions, depth, fixpoint }
}
