//! Product of the REAL compiled protocol matcher (stepped through hook H3, one symbol at a time)
//! with the reference signature NFA, over all 256 byte values and the end-of-input symbol, to a
//! fixpoint.  Used by C10 directly, and by every other check to attribute an unanswered request
//! to a specific matcher event (so that a listed known finding never hides a different one).

use std::collections::{BTreeMap, BTreeSet, HashMap, VecDeque};
use std::sync::OnceLock;

use crate::driver::{Cfg, Cmd, Driver};
use crate::sig::{signatures, Proto, Sig};

pub const END: u16 = 256;

#[derive(Clone, Copy, Debug, PartialEq, Eq, Hash, PartialOrd, Ord)]
pub struct RefKey {
    pub n: u8,
    pub alive: u32,
}

impl RefKey {
    pub fn dead() -> RefKey {
        RefKey { n: 0, alive: 0 }
    }
    pub fn is_dead(&self) -> bool {
        self.alive == 0
    }
}

/// Reference step: returns (next key, completed signature index)
pub fn ref_step(sigs: &[Sig], k: RefKey, sym: u16) -> (RefKey, Option<usize>) {
    if k.is_dead() {
        return (RefKey::dead(), None);
    }
    let n = k.n as usize;
    if sym == END {
        for (i, s) in sigs.iter().enumerate() {
            if k.alive & (1 << i) != 0 && s.anchor_end && s.pat.len() == n {
                return (RefKey::dead(), Some(i));
            }
        }
        return (RefKey::dead(), None);
    }
    let b = sym as u8;
    let mut alive = 0u32;
    for (i, s) in sigs.iter().enumerate() {
        if k.alive & (1 << i) == 0 {
            continue;
        }
        if n >= s.pat.len() {
            continue; // end-anchored pattern followed by more input
        }
        match s.pat[n] {
            Some(x) if x != b => {}
            _ => alive |= 1 << i,
        }
    }
    for (i, s) in sigs.iter().enumerate() {
        if alive & (1 << i) != 0 && s.pat.len() == n + 1 && !s.anchor_end {
            return (RefKey::dead(), Some(i));
        }
    }
    if alive == 0 {
        (RefKey::dead(), None)
    } else {
        (
            RefKey {
                n: (n + 1) as u8,
                alive,
            },
            None,
        )
    }
}

pub fn ref_desc(sigs: &[Sig], k: RefKey) -> String {
    if k.is_dead() {
        return "dead".into();
    }
    let names: Vec<&str> = sigs.iter().enumerate().filter(|(i, _)| k.alive & (1 << i) != 0).map(|(_, s)| s.name).collect();
    format!("n{}[{}]", k.n, names.join("+"))
}

#[derive(Clone, Copy, Debug, PartialEq, Eq, Hash, PartialOrd, Ord)]
pub struct PState {
    pub real: usize,
    pub refk: RefKey,
}

#[derive(Clone, Debug, PartialEq, Eq, Hash, PartialOrd, Ord)]
pub enum EdgeClass {
    Agree,
    Shadow,
    Miss(usize),         // reference completes signature i, matcher reports nothing
    Extra(i64),          // matcher reports id, no completed signature
    Wrong(usize, i64),   // both report, different protocols
}

#[derive(Clone, Debug)]
pub struct Edge {
    pub to: Option<usize>, // next product state (None: terminal on either side)
    pub real_to: usize,
    pub real_id: i64,
    pub ref_match: Option<usize>,
    pub class: EdgeClass,
}

#[derive(Clone, Debug)]
pub struct Event {
    pub key: String,
    pub class: EdgeClass,
    pub from: usize,
    pub syms: Vec<u16>,
    /// shortest symbol string reaching `from`
    pub witness: Vec<u8>,
}

pub struct Product {
    pub sigs: Vec<Sig>,
    pub states: Vec<PState>,
    pub index: HashMap<PState, usize>,
    pub parent: Vec<Option<(usize, u16)>>,
    pub edges: Vec<Vec<Edge>>, // [state][sym 0..=256]
    pub events: Vec<Event>,
    pub event_of: HashMap<(usize, u16), usize>,
    pub real_states: BTreeSet<usize>,
    pub transitions: u64,
    pub capped: bool,
    pub clean: Vec<bool>,
}

pub const STATE_CAP: usize = 20000;

fn sym_ranges(syms: &[u16]) -> String {
    let mut parts = Vec::new();
    let mut i = 0;
    while i < syms.len() {
        let a = syms[i];
        let mut b = a;
        while i + 1 < syms.len() && syms[i + 1] == b + 1 && syms[i + 1] != END {
            i += 1;
            b = syms[i];
        }
        let f = |x: u16| if x == END { "END".to_string() } else { format!("{:02x}", x) };
        if a == b {
            parts.push(f(a));
        } else {
            parts.push(format!("{}-{}", f(a), f(b)));
        }
        i += 1;
    }
    parts.join(",")
}

impl Product {
    /// shortest byte string reaching state `s` through agreeing transitions only (if any)
    pub fn clean_witness(&self, target: usize) -> Option<Vec<u8>> {
        let mut prev: Vec<Option<(usize, u16)>> = vec![None; self.states.len()];
        let mut seen = vec![false; self.states.len()];
        let mut q = VecDeque::new();
        seen[0] = true;
        q.push_back(0usize);
        while let Some(si) = q.pop_front() {
            if si == target {
                break;
            }
            for sym in 0..256usize {
                let e = &self.edges[si][sym];
                if e.class == EdgeClass::Agree {
                    if let Some(t) = e.to {
                        if !seen[t] {
                            seen[t] = true;
                            prev[t] = Some((si, sym as u16));
                            q.push_back(t);
                        }
                    }
                }
            }
        }
        if !seen[target] {
            return None;
        }
        let mut w = Vec::new();
        let mut s = target;
        while let Some((p, sym)) = prev[s] {
            w.push(sym as u8);
            s = p;
        }
        w.reverse();
        Some(w)
    }

    pub fn witness(&self, mut s: usize) -> Vec<u8> {
        let mut w = Vec::new();
        while let Some((p, sym)) = self.parent[s] {
            if sym != END {
                w.push(sym as u8);
            }
            s = p;
        }
        w.reverse();
        w
    }

    pub fn build(cfg: &Cfg) -> Result<Product, String> {
        let sigs = signatures();
        let mut drv = Driver::spawn(cfg)?;
        let start = PState {
            real: 0,
            refk: RefKey {
                n: 0,
                alive: (1u32 << sigs.len()) - 1,
            },
        };
        let mut p = Product {
            sigs,
            states: vec![start],
            index: HashMap::new(),
            parent: vec![None],
            edges: vec![],
            events: vec![],
            event_of: HashMap::new(),
            real_states: BTreeSet::new(),
            transitions: 0,
            capped: false,
            clean: vec![],
        };
        p.index.insert(start, 0);
        let mut real_cache: HashMap<(usize, u16), (usize, i64)> = HashMap::new();
        let mut q: VecDeque<usize> = VecDeque::new();
        q.push_back(0);
        while let Some(si) = q.pop_front() {
            let st = p.states[si];
            p.real_states.insert(st.real);
            // one batch: 256 bytes + END from this real state (cached per real state)
            if !real_cache.contains_key(&(st.real, 0)) {
                let mut cmds: Vec<Cmd> = (0..256u16).map(|b| Cmd::SmackNext(st.real, vec![b as u8])).collect();
                cmds.push(Cmd::SmackEnd(st.real));
                let outs = drv.exec(&cmds).map_err(|e| format!("matcher stepping failed: {:?}", e))?;
                for (sym, o) in outs.iter().enumerate() {
                    match o.smack {
                        Some((ns, id, _)) => {
                            real_cache.insert((st.real, sym as u16), (ns, id));
                        }
                        None => return Err(format!("matcher step panicked at state {} symbol {}", st.real, sym)),
                    }
                }
            }
            while p.edges.len() <= si {
                p.edges.push(Vec::new());
            }
            let mut row = Vec::with_capacity(257);
            for sym in 0..=256u16 {
                p.transitions += 1;
                let (real_to, real_id) = real_cache[&(st.real, sym)];
                let (ref_to, ref_match) = ref_step(&p.sigs, st.refk, sym);
                let class = match (ref_match, real_id) {
                    (None, -1) => EdgeClass::Agree, // refined to Shadow after liveness is known
                    (Some(i), -1) => EdgeClass::Miss(i),
                    (None, id) => EdgeClass::Extra(id),
                    (Some(i), id) => {
                        if p.sigs[i].proto.impl_id() == id {
                            EdgeClass::Agree
                        } else {
                            EdgeClass::Wrong(i, id)
                        }
                    }
                };
                let terminal = ref_match.is_some() || real_id != -1 || sym == END;
                let to = if terminal {
                    None
                } else {
                    let ns = PState {
                        real: real_to,
                        refk: ref_to,
                    };
                    let idx = match p.index.get(&ns) {
                        Some(i) => *i,
                        None => {
                            if p.states.len() >= STATE_CAP {
                                p.capped = true;
                                row.push(Edge { to: None, real_to, real_id, ref_match, class });
                                continue;
                            }
                            let i = p.states.len();
                            p.states.push(ns);
                            p.parent.push(Some((si, sym)));
                            p.index.insert(ns, i);
                            q.push_back(i);
                            i
                        }
                    };
                    Some(idx)
                };
                row.push(Edge { to, real_to, real_id, ref_match, class });
            }
            p.edges[si] = row;
        }
        // liveness of real states: can the matcher still report an id?
        let mut live: BTreeSet<usize> = BTreeSet::new();
        loop {
            let mut changed = false;
            for ((r, _sym), (to, id)) in real_cache.iter() {
                if live.contains(r) {
                    continue;
                }
                if *id != -1 || live.contains(to) {
                    live.insert(*r);
                    changed = true;
                }
            }
            if !changed {
                break;
            }
        }
        // refine Agree -> Shadow where the reference is still alive but the matcher is dead
        for si in 0..p.states.len() {
            for sym in 0..=256usize {
                let e = &mut p.edges[si][sym];
                if e.class == EdgeClass::Agree && e.ref_match.is_none() && e.real_id == -1 && sym as u16 != END {
                    if let Some(t) = e.to {
                        let ns = p.states[t];
                        let was_live = live.contains(&p.states[si].real);
                        if !ns.refk.is_dead() && !live.contains(&ns.real) && was_live {
                            e.class = EdgeClass::Shadow;
                        }
                    }
                }
            }
        }
        // "clean" product states: reachable through agreeing transitions only.  Only the FIRST
        // divergence on a path is an event; later ones are consequences of it.
        let mut clean = vec![false; p.states.len()];
        clean[0] = true;
        let mut stack = vec![0usize];
        while let Some(si) = stack.pop() {
            for sym in 0..=256usize {
                let e = &p.edges[si][sym];
                if e.class == EdgeClass::Agree {
                    if let Some(t) = e.to {
                        if !clean[t] {
                            clean[t] = true;
                            stack.push(t);
                        }
                    }
                }
            }
        }
        p.clean = clean.clone();
        // events: group symbols of a state by (class, reference successor)
        for si in 0..p.states.len() {
            if !clean[si] {
                continue;
            }
            let mut groups: BTreeMap<(EdgeClass, String), Vec<u16>> = BTreeMap::new();
            for sym in 0..=256u16 {
                let e = &p.edges[si][sym as usize];
                if e.class == EdgeClass::Agree {
                    continue;
                }
                let to_desc = match e.to {
                    Some(t) => ref_desc(&p.sigs, p.states[t].refk),
                    None => "end".into(),
                };
                groups.entry((e.class.clone(), to_desc)).or_default().push(sym);
            }
            for ((class, to_desc), syms) in groups {
                let kind = match &class {
                    EdgeClass::Shadow => "shadow".to_string(),
                    EdgeClass::Miss(i) => format!("miss({})", p.sigs[*i].name),
                    EdgeClass::Extra(id) => format!("extra(id{})", id),
                    EdgeClass::Wrong(i, id) => format!("wrong({}:id{})", p.sigs[*i].name, id),
                    EdgeClass::Agree => unreachable!(),
                };
                let key = format!("{}:{}--{}-->{}", kind, ref_desc(&p.sigs, p.states[si].refk), sym_ranges(&syms), to_desc);
                let ei = p.events.len();
                for s in &syms {
                    p.event_of.insert((si, *s), ei);
                }
                let witness = p.clean_witness(si).unwrap_or_else(|| p.witness(si));
                p.events.push(Event { key, class, from: si, syms, witness });
            }
        }
        Ok(p)
    }

    /// Walk a payload through the product; return the key of the first non-agreeing event.
    pub fn explain(&self, data: &[u8], at_end: bool) -> Option<String> {
        let mut s = 0usize;
        for b in data {
            if let Some(ei) = self.event_of.get(&(s, *b as u16)) {
                return Some(self.events[*ei].key.clone());
            }
            match self.edges[s][*b as usize].to {
                Some(t) => s = t,
                None => return None,
            }
        }
        if at_end {
            if let Some(ei) = self.event_of.get(&(s, END)) {
                return Some(self.events[*ei].key.clone());
            }
        }
        None
    }
}

static PRODUCT: OnceLock<Option<Product>> = OnceLock::new();

/// Build the product once per process (about one second); None if the probes fail.
pub fn product() -> Option<&'static Product> {
    PRODUCT
        .get_or_init(|| match Product::build(&Cfg::base()) {
            Ok(p) => Some(p),
            Err(e) => {
                eprintln!("matcher product unavailable: {}", e);
                None
            }
        })
        .as_ref()
}

pub fn explain(data: &[u8], at_end: bool) -> Option<String> {
    product().and_then(|p| p.explain(data, at_end))
}

pub fn proto_of_sig(p: &Product, i: usize) -> Proto {
    p.sigs[i].proto
}
