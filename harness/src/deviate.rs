//! Deviation neighbourhoods of a well-formed frame: a deviation is one departure from the
//! well-formed message — truncation at byte k (T), one lying length/offset/count field (L), one
//! substituted byte (B1), one appended tail (A).

use crate::wire::*;

#[derive(Clone, Debug)]
pub struct Field {
    /// absolute offset in the frame
    pub off: usize,
    /// width in bytes (1, 2, 3 or 4); nibble fields use width 1 with a mask
    pub width: usize,
    pub big_endian: bool,
    pub name: &'static str,
}

pub const EDGE16: [u32; 22] = [0, 1, 2, 3, 4, 5, 7, 8, 19, 20, 27, 28, 0x3f, 0x40, 0x7f, 0x80, 0xff, 0x100, 0x7fff, 0x8000, 0xfffe, 0xffff];
pub const EDGE32: [u32; 16] = [0, 1, 2, 3, 4, 8, 0xff, 0x100, 0x190, 0x191, 0xffff, 0x10000, 0x7fffffff, 0x80000000, 0xfffffffe, 0xffffffff];

/// Length-like fields of the L2-L4 headers of a frame.
pub fn header_fields(frame: &[u8]) -> Vec<Field> {
    let mut v = Vec::new();
    let e = match parse_eth(frame) {
        Some(e) => e,
        None => return v,
    };
    let f = |off, width, name| Field { off, width, big_endian: true, name };
    match e.et {
        ET_ARP => {
            v.push(f(14, 2, "arp.htype"));
            v.push(f(14 + 2, 2, "arp.ptype"));
            v.push(f(14 + 6, 2, "arp.op"));
            v.push(f(14 + 4, 1, "arp.hlen"));
            v.push(f(14 + 5, 1, "arp.plen"));
        }
        ET_IP4 if frame.len() >= 34 => {
            v.push(f(14, 1, "ip4.ver_ihl"));
            v.push(f(15, 1, "ip4.tos"));
            v.push(f(16, 2, "ip4.total_length"));
            v.push(f(18, 2, "ip4.id"));
            v.push(f(20, 2, "ip4.flags_frag"));
            v.push(f(22, 1, "ip4.ttl"));
            v.push(f(24, 2, "ip4.checksum"));
            let l4 = 34;
            match frame[23] {
                P_TCP if frame.len() >= l4 + 20 => {
                    v.push(f(l4 + 12, 1, "tcp.doff"));
                    v.push(f(l4 + 13, 1, "tcp.flags"));
                    v.push(f(l4 + 4, 4, "tcp.seq"));
                    v.push(f(l4 + 8, 4, "tcp.ack"));
                    v.push(f(l4 + 14, 2, "tcp.window"));
                    v.push(f(l4 + 16, 2, "tcp.checksum"));
                    v.push(f(l4 + 18, 2, "tcp.urgent"));
                }
                P_UDP if frame.len() >= l4 + 8 => {
                    v.push(f(l4 + 4, 2, "udp.length"));
                    v.push(f(l4 + 6, 2, "udp.checksum"));
                }
                P_ICMP if frame.len() >= l4 + 4 => {
                    v.push(f(l4 + 2, 2, "icmp.checksum"));
                }
                _ => {}
            }
        }
        ET_IP6 if frame.len() >= 54 => {
            v.push(f(14, 1, "ip6.ver"));
            v.push(f(15, 3, "ip6.flow_label"));
            v.push(f(18, 2, "ip6.payload_length"));
            v.push(f(21, 1, "ip6.hop_limit"));
            let l4 = 54;
            match frame[20] {
                P_TCP if frame.len() >= l4 + 20 => {
                    v.push(f(l4 + 12, 1, "tcp.doff"));
                    v.push(f(l4 + 13, 1, "tcp.flags"));
                    v.push(f(l4 + 4, 4, "tcp.seq"));
                    v.push(f(l4 + 8, 4, "tcp.ack"));
                    v.push(f(l4 + 14, 2, "tcp.window"));
                    v.push(f(l4 + 16, 2, "tcp.checksum"));
                    v.push(f(l4 + 18, 2, "tcp.urgent"));
                }
                P_UDP if frame.len() >= l4 + 8 => {
                    v.push(f(l4 + 4, 2, "udp.length"));
                    v.push(f(l4 + 6, 2, "udp.checksum"));
                }
                P_ICMP6 if frame.len() >= l4 + 26 && frame[l4] == 135 => {
                    // ND option type/length bytes
                    let mut o = l4 + 24;
                    while o + 2 <= frame.len() {
                        v.push(f(o + 1, 1, "nd.option_length"));
                        let l = frame[o + 1] as usize * 8;
                        if l == 0 {
                            break;
                        }
                        o += l;
                    }
                }
                _ => {}
            }
        }
        _ => {}
    }
    v
}

/// offset of the application payload of a TCP/UDP frame
pub fn app_offset(frame: &[u8]) -> Option<usize> {
    let e = parse_eth(frame)?;
    let (l4, proto) = match e.et {
        ET_IP4 if frame.len() >= 34 => (34, frame[23]),
        ET_IP6 if frame.len() >= 54 => (54, frame[20]),
        _ => return None,
    };
    match proto {
        P_TCP if frame.len() >= l4 + 20 => Some(l4 + 20),
        P_UDP if frame.len() >= l4 + 8 => Some(l4 + 8),
        _ => None,
    }
}

/// Length-like fields of the application payload, by corpus payload name.
pub fn app_fields(name: &str, frame: &[u8]) -> Vec<Field> {
    let mut v = Vec::new();
    let p = match app_offset(frame) {
        Some(p) => p,
        None => return v,
    };
    let n = frame.len() - p;
    let be = |off: usize, width, name| Field { off: p + off, width, big_endian: true, name };
    let le = |off: usize, width, name| Field { off: p + off, width, big_endian: false, name };
    if name.contains("stun") {
        v.push(be(0, 2, "stun.type"));
        v.push(be(2, 2, "stun.length"));
        // attribute headers
        let mut o = 20;
        while o + 4 <= n {
            v.push(be(o, 2, "stun.attr_type"));
            v.push(be(o + 2, 2, "stun.attr_length"));
            let l = u16::from_be_bytes([frame[p + o + 2], frame[p + o + 3]]) as usize;
            if o + 4 + 2 <= n {
                v.push(be(o + 4 + 1, 1, "stun.attr_family"));
            }
            o += 4 + l;
        }
    } else if name.contains("dns") {
        for k in 0..4 {
            v.push(be(4 + 2 * k, 2, "dns.count"));
        }
        v.push(be(2, 2, "dns.flags"));
        let mut o = 12;
        while o < n && frame[p + o] != 0 {
            v.push(be(o, 1, "dns.label_length"));
            o += 1 + frame[p + o] as usize;
        }
        if o < n {
            v.push(be(o, 1, "dns.root"));
        }
    } else if name.contains("smb") {
        v.push(be(1, 3, "nb.length"));
        v.push(be(0, 1, "nb.type"));
        if name.contains("smb1") {
            v.push(be(4 + 4, 1, "smb1.command"));
            v.push(be(4 + 9, 1, "smb1.flags"));
            v.push(be(4 + 32, 1, "smb1.word_count"));
            if name.contains("negotiate") {
                v.push(le(4 + 33, 2, "smb1.byte_count"));
                v.push(be(4 + 35, 1, "smb1.buffer_format"));
            } else {
                v.push(le(4 + 32 + 15, 2, "smb1.blob_length"));
                v.push(le(4 + 32 + 25, 2, "smb1.byte_count"));
            }
        } else {
            v.push(le(4 + 4, 2, "smb2.structure_size"));
            v.push(le(4 + 12, 2, "smb2.command"));
            v.push(le(4 + 16, 4, "smb2.flags"));
            v.push(le(4 + 20, 4, "smb2.next_command"));
            v.push(le(4 + 64, 2, "smb2.body_structure_size"));
            if name.contains("negotiate") {
                v.push(le(4 + 64 + 2, 2, "smb2.dialect_count"));
            } else {
                v.push(le(4 + 64 + 12, 2, "smb2.blob_offset"));
                v.push(le(4 + 64 + 14, 2, "smb2.blob_length"));
            }
        }
    } else if name.contains("rpc") {
        let b = if name.contains("rpc-tcp") { 4 } else { 0 };
        if b == 4 {
            v.push(be(0, 4, "rpc.record_mark"));
        }
        v.push(be(b + 4, 4, "rpc.msg_type"));
        v.push(be(b + 8, 4, "rpc.rpc_version"));
        v.push(be(b + 12, 4, "rpc.program"));
        v.push(be(b + 16, 4, "rpc.version"));
        v.push(be(b + 20, 4, "rpc.procedure"));
        v.push(be(b + 28, 4, "rpc.cred_length"));
        v.push(be(b + 36, 4, "rpc.verf_length"));
    } else if name.contains("ghost") {
        v.push(le(5, 4, "ghost.total_length"));
        v.push(le(9, 4, "ghost.uncompressed_length"));
    }
    v.retain(|f| f.off + f.width <= frame.len());
    v
}

pub fn field_values(f: &Field) -> Vec<u32> {
    match f.width {
        1 => (0..256).collect(),
        2 => EDGE16.to_vec(),
        3 => EDGE16.iter().cloned().chain([0x10000u32, 0xffffff]).collect(),
        _ => EDGE32.to_vec(),
    }
}

pub fn set_field(frame: &mut [u8], f: &Field, val: u32) {
    for k in 0..f.width {
        let shift = if f.big_endian { 8 * (f.width - 1 - k) } else { 8 * k };
        frame[f.off + k] = (val >> shift) as u8;
    }
}

/// Tail lengths for class A given the base length.
pub fn tail_lengths(base_len: usize) -> Vec<usize> {
    let mut v: Vec<usize> = (1..=16).collect();
    let mut p = 16;
    while p <= 4096 {
        for d in [p - 1, p, p + 1] {
            v.push(d);
        }
        p *= 2;
    }
    if base_len < 4096 {
        v.push(4096 - base_len);
    }
    v.retain(|n| *n >= 1 && base_len + n <= 4096);
    v.sort();
    v.dedup();
    v
}

pub const TAIL_FILL: [u8; 6] = [0x00, 0xff, 0x2a, 0x0d, 0x0a, 0x01];
