//! DNS reference (C14, and the QR clause of C12): independent decoder, verdict and validator.

use crate::app::{AppCtx, AppVerdict, Req, VErr};
use crate::wire::{hex, Ip};

#[derive(Clone, Debug)]
pub struct DnsQuery {
    pub id: u16,
    pub flags: u16,
    /// raw question section (byte-for-byte)
    pub qsection: Vec<u8>,
    /// (encoded name, offset of the question in the section)
    pub names: Vec<Vec<u8>>,
}

/// Parse one well-formed name at `i`: labels of 1..=63 non-zero bytes, total <= 255, root
/// terminated.  Returns the index after the terminating zero.
fn parse_name(m: &[u8], mut i: usize) -> Result<usize, &'static str> {
    let start = i;
    loop {
        if i >= m.len() {
            return Err("truncated");
        }
        let l = m[i] as usize;
        if l == 0 {
            i += 1;
            break;
        }
        if l >= 0xc0 {
            return Err("compression");
        }
        if l > 63 {
            return Err("bad-label-length");
        }
        if i + 1 + l > m.len() {
            // may be truncated, unless a zero byte inside makes a scanner see an end
            if m[i + 1..].contains(&0) {
                return Err("zero-in-label");
            }
            return Err("truncated");
        }
        if m[i + 1..i + 1 + l].contains(&0) {
            return Err("zero-in-label");
        }
        i += 1 + l;
    }
    if i - start > 255 {
        return Err("name-too-long");
    }
    Ok(i)
}

/// Verdict for a datagram that completed no signature (the DNS fallback).
pub fn verdict(m: &[u8], ctx: &AppCtx) -> AppVerdict {
    if m.len() < 12 {
        return AppVerdict::Silent("C14", "dns-truncated-header");
    }
    let id = u16::from_be_bytes([m[0], m[1]]);
    let flags = u16::from_be_bytes([m[2], m[3]]);
    let qd = u16::from_be_bytes([m[4], m[5]]) as usize;
    let an = u16::from_be_bytes([m[6], m[7]]);
    let ns = u16::from_be_bytes([m[8], m[9]]);
    let ar = u16::from_be_bytes([m[10], m[11]]);
    if flags & 0x8000 != 0 {
        return AppVerdict::Silent("C12", "dns-qr-set");
    }
    let with_records = an != 0 || ns != 0 || ar != 0;
    if with_records && qd == 0 {
        return AppVerdict::Unspecified("dns-query-with-records".into());
    }
    if qd == 0 {
        return AppVerdict::Unspecified("dns-no-question".into());
    }
    let mut i = 12;
    let mut names = Vec::new();
    let mut all_in_a = true;
    for _ in 0..qd {
        let s = i;
        match parse_name(m, i) {
            Ok(n) => i = n,
            Err("truncated") => return AppVerdict::Silent("C14", "dns-truncated"),
            Err(e) => return AppVerdict::Unspecified(format!("dns-{}", e)),
        }
        if i + 4 > m.len() {
            return AppVerdict::Silent("C14", "dns-truncated");
        }
        let ty = u16::from_be_bytes([m[i], m[i + 1]]);
        let cl = u16::from_be_bytes([m[i + 2], m[i + 3]]);
        names.push(m[s..i].to_vec());
        i += 4;
        if ty != 1 || cl != 1 {
            all_in_a = false;
        }
    }
    if with_records {
        // counts that promise answer / authority / additional records: when the message ENDS right
        // behind its questions the records are missing - a truncated message (C14: not answered);
        // when bytes follow, whether they are those records is not for the reference to say
        if i == m.len() {
            return AppVerdict::Silent("C14", "dns-truncated-records");
        }
        return AppVerdict::Unspecified("dns-query-with-records".into());
    }
    if !all_in_a {
        return AppVerdict::Silent("C14", "dns-question-not-in-a");
    }
    if i != m.len() && !ctx.sip.is_v4() {
        return AppVerdict::Unspecified("dns-trailing-bytes".into());
    }
    if !ctx.sip.is_v4() {
        return AppVerdict::Unspecified("dns-over-ipv6".into());
    }
    if i != m.len() {
        // bytes after the last question the header announces: if the message is answered at all,
        // the answer is the one to the query the counts delimit
        return AppVerdict::IfAnswered(Req::Dns(DnsQuery { id, flags, qsection: m[12..i].to_vec(), names }), "dns-trailing-bytes".into());
    }
    AppVerdict::Answer(Req::Dns(DnsQuery {
        id,
        flags,
        qsection: m[12..].to_vec(),
        names,
    }))
}

pub fn validate(q: &DnsQuery, r: &[u8], ctx: &AppCtx) -> Result<(), VErr> {
    let e = |k: &str, w: String| -> Result<(), VErr> { Err(("C14", k.to_string(), w)) };
    if r.len() < 12 {
        return e("dns-short", format!("DNS response too short: {}", hex(r)));
    }
    let id = u16::from_be_bytes([r[0], r[1]]);
    let flags = u16::from_be_bytes([r[2], r[3]]);
    if id != q.id {
        return e("dns-id", format!("response id {:#06x} != query id {:#06x}", id, q.id));
    }
    if flags & 0x8000 == 0 {
        return e("dns-qr", "response has QR=0".into());
    }
    if flags & 0x7800 != q.flags & 0x7800 {
        return e("dns-opcode", format!("opcode not echoed: flags {:#06x} vs {:#06x}", flags, q.flags));
    }
    if flags & 0x0100 != q.flags & 0x0100 {
        return e("dns-rd", format!("RD not echoed: flags {:#06x} vs {:#06x}", flags, q.flags));
    }
    let qd = u16::from_be_bytes([r[4], r[5]]) as usize;
    let an = u16::from_be_bytes([r[6], r[7]]) as usize;
    let ns = u16::from_be_bytes([r[8], r[9]]);
    let ar = u16::from_be_bytes([r[10], r[11]]);
    let n = q.names.len();
    if qd != n || an != n || ns != 0 || ar != 0 {
        return e("dns-counts", format!("counts qd={} an={} ns={} ar={} for {} questions", qd, an, ns, ar, n));
    }
    let qs = q.qsection.len();
    if r.len() < 12 + qs || r[12..12 + qs] != q.qsection[..] {
        return e("dns-question-echo", "question section not echoed byte-for-byte".into());
    }
    let mut i = 12 + qs;
    let dst = match ctx.sip {
        Ip::V4(b) => b,
        _ => return Ok(()),
    };
    for (k, name) in q.names.iter().enumerate() {
        // owner name: either the literal name or a compression pointer to it
        let owner_ok;
        if i + name.len() <= r.len() && r[i..i + name.len()] == name[..] {
            i += name.len();
            owner_ok = true;
        } else {
            owner_ok = false;
        }
        if !owner_ok {
            return e("dns-owner", format!("answer {} is not owned by the queried name", k));
        }
        if i + 10 > r.len() {
            return e("dns-rr-truncated", format!("answer {} truncated", k));
        }
        let ty = u16::from_be_bytes([r[i], r[i + 1]]);
        let cl = u16::from_be_bytes([r[i + 2], r[i + 3]]);
        let rdl = u16::from_be_bytes([r[i + 8], r[i + 9]]) as usize;
        i += 10;
        if ty != 1 || cl != 1 {
            return e("dns-rr-type", format!("answer {} is type {} class {}", k, ty, cl));
        }
        if rdl != 4 || i + 4 > r.len() {
            return e("dns-rdlength", format!("answer {} RDLENGTH {}", k, rdl));
        }
        if r[i..i + 4] != dst {
            return e(
                "dns-rdata",
                format!("answer {} RDATA {} != destination address {}", k, hex(&r[i..i + 4]), ctx.sip),
            );
        }
        i += 4;
    }
    if i != r.len() {
        return e("dns-trailing", format!("{} bytes after the last record", r.len() - i));
    }
    Ok(())
}

/// Build a query: list of (labels, qtype, qclass).
pub fn build_query(id: u16, flags: u16, qs: &[(Vec<Vec<u8>>, u16, u16)]) -> Vec<u8> {
    build_message(id, flags, qs, 0, 0, 0, &[])
}

pub fn encode_name(labels: &[Vec<u8>]) -> Vec<u8> {
    let mut v = Vec::new();
    for l in labels {
        v.push(l.len() as u8);
        v.extend_from_slice(l);
    }
    v.push(0);
    v
}

pub fn build_message(
    id: u16,
    flags: u16,
    qs: &[(Vec<Vec<u8>>, u16, u16)],
    an: u16,
    ns: u16,
    ar: u16,
    tail: &[u8],
) -> Vec<u8> {
    let mut v = Vec::new();
    v.extend_from_slice(&id.to_be_bytes());
    v.extend_from_slice(&flags.to_be_bytes());
    v.extend_from_slice(&(qs.len() as u16).to_be_bytes());
    v.extend_from_slice(&an.to_be_bytes());
    v.extend_from_slice(&ns.to_be_bytes());
    v.extend_from_slice(&ar.to_be_bytes());
    for (labels, t, c) in qs {
        v.extend_from_slice(&encode_name(labels));
        v.extend_from_slice(&t.to_be_bytes());
        v.extend_from_slice(&c.to_be_bytes());
    }
    v.extend_from_slice(tail);
    v
}

/// A-record RR bytes (for reply-typed test messages).
pub fn a_record(labels: &[Vec<u8>], ip: [u8; 4]) -> Vec<u8> {
    let mut v = encode_name(labels);
    v.extend_from_slice(&[0, 1, 0, 1, 0, 0, 0xa8, 0xc0, 0, 4]);
    v.extend_from_slice(&ip);
    v
}
