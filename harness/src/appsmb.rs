//! SMB1/SMB2 reference (C17): builders, verdict and validator for Negotiate / Session-Setup.

use crate::app::{AppCtx, AppVerdict, Req, VErr};
use crate::sig::Proto;
use crate::wire::hex;

#[derive(Clone, Debug)]
pub enum SmbReq {
    Smb1 {
        command: u8,
        pid_high: u16,
        tid: u16,
        pid_low: u16,
        uid: u16,
        mid: u16,
        /// number of dialects offered (negotiate)
        ndialects: usize,
        /// positions of the dialect strings the responder is documented to speak
        /// ("NT LM 0.12", "SMB 2.???", "SMB 2.002") in the offered list
        known_at: Vec<usize>,
    },
    Smb2 {
        command: u16,
        message_id: u64,
        async_id: u64,
        session_id: u64,
        /// dialects offered (negotiate)
        dialects: Vec<u16>,
    },
}

fn le16(b: &[u8], i: usize) -> u16 {
    u16::from_le_bytes([b[i], b[i + 1]])
}
fn le32(b: &[u8], i: usize) -> u32 {
    u32::from_le_bytes([b[i], b[i + 1], b[i + 2], b[i + 3]])
}
fn le64(b: &[u8], i: usize) -> u64 {
    let mut x = [0u8; 8];
    x.copy_from_slice(&b[i..i + 8]);
    u64::from_le_bytes(x)
}

pub const SMB2_MAINSTREAM: [u16; 5] = [0x0202, 0x0210, 0x0300, 0x0302, 0x0311];
pub const SMB2_KNOWN: [u16; 7] = [0x0202, 0x0210, 0x02ff, 0x0300, 0x0302, 0x0310, 0x0311];

/// Verdict for a message whose leading bytes completed the SMB1 or SMB2 signature.
pub fn verdict(p: Proto, m: &[u8], _ctx: &AppCtx) -> AppVerdict {
    if m.len() < 4 {
        return AppVerdict::Silent("C17", "smb-truncated");
    }
    let nblen = ((m[1] as usize) << 16) | ((m[2] as usize) << 8) | m[3] as usize;
    let body = &m[4..];
    let consistent_nb = nblen == body.len();
    let magic: &[u8] = if p == Proto::Smb1 { b"\xffSMB" } else { b"\xfeSMB" };
    if m[0] != 0 || m[1] != 0 || body.len() < 4 || &body[..4] != magic {
        return AppVerdict::Unspecified("smb-message-without-the-identified-magic".into());
    }
    match p {
        Proto::Smb1 => {
            if body.len() < 32 {
                return AppVerdict::Silent("C17", "smb1-truncated-header");
            }
            let command = body[4];
            let flags = body[9];
            if flags & 0x80 != 0 {
                return AppVerdict::Silent("C12", "smb1-reply-flag");
            }
            if command != 0x72 && command != 0x73 {
                return AppVerdict::Silent("C17", "smb1-other-command");
            }
            let hdr = SmbReq::Smb1 {
                command,
                pid_high: le16(body, 12),
                tid: le16(body, 24),
                pid_low: le16(body, 26),
                uid: le16(body, 28),
                mid: le16(body, 30),
                ndialects: 0,
                known_at: vec![],
            };
            let p = &body[32..];
            if command == 0x72 {
                // WordCount(1)=0 ByteCount(2) then dialects: 0x02 string NUL ...
                if p.len() < 3 {
                    return AppVerdict::Silent("C17", "smb1-truncated");
                }
                let wc = p[0];
                let bc = le16(p, 1) as usize;
                let d = &p[3..];
                if d.len() < bc {
                    return AppVerdict::Silent("C17", "smb1-truncated");
                }
                if wc != 0 || d.len() != bc || bc == 0 || !consistent_nb {
                    return AppVerdict::Unspecified("smb1-negotiate-inconsistent-counts".into());
                }
                // parse dialects
                let mut n = 0;
                let mut i = 0;
                let mut known_at: Vec<usize> = Vec::new();
                while i < d.len() {
                    if d[i] != 0x02 {
                        return AppVerdict::Unspecified("smb1-dialect-buffer-format".into());
                    }
                    let z = d[i + 1..].iter().position(|b| *b == 0);
                    match z {
                        None => return AppVerdict::Unspecified("smb1-dialect-unterminated".into()),
                        Some(z) => {
                            let name = &d[i + 1..i + 1 + z];
                            if name == b"NT LM 0.12" || name == b"SMB 2.???" || name == b"SMB 2.002" {
                                known_at.push(n);
                            }
                            i += 1 + z + 1;
                            n += 1;
                        }
                    }
                }
                if let SmbReq::Smb1 { command, pid_high, tid, pid_low, uid, mid, .. } = hdr {
                    return AppVerdict::Answer(Req::Smb(SmbReq::Smb1 {
                        command,
                        pid_high,
                        tid,
                        pid_low,
                        uid,
                        mid,
                        ndialects: n,
                        known_at,
                    }));
                }
                unreachable!()
            } else {
                // session setup andx (extended security): WordCount 12
                if p.len() < 27 {
                    return AppVerdict::Silent("C17", "smb1-truncated");
                }
                let wc = p[0];
                let seclen = le16(p, 1 + 14) as usize;
                let bc = le16(p, 1 + 24) as usize;
                let d = &p[27..];
                if d.len() < seclen {
                    return AppVerdict::Silent("C17", "smb1-truncated");
                }
                if wc != 12 || seclen == 0 || bc != d.len() || seclen > bc || !consistent_nb {
                    return AppVerdict::Unspecified("smb1-setup-inconsistent-counts".into());
                }
                AppVerdict::Answer(Req::Smb(hdr))
            }
        }
        Proto::Smb2 => {
            if body.len() < 64 {
                return AppVerdict::Silent("C17", "smb2-truncated-header");
            }
            let command = le16(body, 12);
            let flags = le32(body, 16);
            if flags & 1 != 0 {
                return AppVerdict::Silent("C12", "smb2-reply-flag");
            }
            if command > 1 {
                return AppVerdict::Silent("C17", "smb2-other-command");
            }
            let message_id = le64(body, 24);
            let async_id = le64(body, 32);
            let session_id = le64(body, 40);
            let p = &body[64..];
            if command == 0 {
                if p.len() < 36 {
                    return AppVerdict::Silent("C17", "smb2-truncated");
                }
                let count = le16(p, 2) as usize;
                let d = &p[36..];
                if d.len() < count * 2 {
                    return AppVerdict::Silent("C17", "smb2-truncated");
                }
                if count == 0 || d.len() != count * 2 || le16(p, 0) != 36 || !consistent_nb {
                    return AppVerdict::Unspecified("smb2-negotiate-inconsistent-counts".into());
                }
                let dialects: Vec<u16> = (0..count).map(|k| le16(d, 2 * k)).collect();
                let any_main = dialects.iter().any(|x| SMB2_MAINSTREAM.contains(x));
                let any_known = dialects.iter().any(|x| SMB2_KNOWN.contains(x));
                if !any_known {
                    return AppVerdict::Silent("C17", "smb2-no-supported-dialect");
                }
                if !any_main {
                    return AppVerdict::Unspecified("smb2-only-marginal-dialects".into());
                }
                AppVerdict::Answer(Req::Smb(SmbReq::Smb2 {
                    command,
                    message_id,
                    async_id,
                    session_id,
                    dialects,
                }))
            } else {
                if p.len() < 24 {
                    return AppVerdict::Silent("C17", "smb2-truncated");
                }
                let seclen = le16(p, 14) as usize;
                let d = &p[24..];
                if d.len() < seclen {
                    return AppVerdict::Silent("C17", "smb2-truncated");
                }
                if seclen == 0 || d.len() != seclen || le16(p, 0) != 25 || le16(p, 12) != 0x58 || !consistent_nb {
                    return AppVerdict::Unspecified("smb2-setup-inconsistent-counts".into());
                }
                AppVerdict::Answer(Req::Smb(SmbReq::Smb2 {
                    command,
                    message_id,
                    async_id,
                    session_id,
                    dialects: vec![],
                }))
            }
        }
        _ => AppVerdict::Unspecified("not smb".into()),
    }
}

pub fn validate(req: &SmbReq, r: &[u8], _ctx: &AppCtx) -> Result<(), VErr> {
    let e = |k: &str, w: String| -> Result<(), VErr> { Err(("C17", k.to_string(), w)) };
    if r.len() < 4 {
        return e("smb-short", format!("reply too short: {}", hex(r)));
    }
    if r[0] != 0 {
        return e("nb-type", format!("NetBIOS type {:#x} is not a session message", r[0]));
    }
    let nblen = ((r[1] as usize) << 16) | ((r[2] as usize) << 8) | r[3] as usize;
    if nblen != r.len() - 4 {
        return e("nb-length", format!("NetBIOS length {} != bytes that follow {}", nblen, r.len() - 4));
    }
    let b = &r[4..];
    match req {
        SmbReq::Smb1 { command, pid_high, tid, pid_low, uid, mid, ndialects, known_at } => {
            if b.len() < 32 + 3 || &b[0..4] != b"\xffSMB" {
                return e("smb1-magic", "SMB1 reply header missing".into());
            }
            if b[4] != *command {
                return e("smb1-command", format!("command {:#x} != request's {:#x}", b[4], command));
            }
            if b[9] & 0x80 == 0 {
                return e("smb1-reply-flag", "reply flag not set".into());
            }
            let got = (le16(b, 12), le16(b, 24), le16(b, 26), le16(b, 28), le16(b, 30));
            let want = (*pid_high, *tid, *pid_low, *uid, *mid);
            if got != want {
                return e(
                    "smb1-correlation",
                    format!("PIDHigh/TID/PIDLow/UID/MID {:?} != request's {:?}", got, want),
                );
            }
            let p = &b[32..];
            let wc = p[0] as usize;
            if p.len() < 1 + wc * 2 + 2 {
                return e("smb1-words", "parameter words overrun the message".into());
            }
            let bc = le16(p, 1 + wc * 2) as usize;
            let data = &p[1 + wc * 2 + 2..];
            if bc != data.len() {
                return e("smb1-bytecount", format!("ByteCount {} != bytes present {}", bc, data.len()));
            }
            if *command == 0x72 {
                if wc != 17 {
                    return e("smb1-wordcount", format!("negotiate response WordCount {}", wc));
                }
                let idx = le16(p, 1) as usize;
                if idx >= *ndialects {
                    return e(
                        "smb1-dialect-index",
                        format!("selected dialect index {} but the client offered {}", idx, ndialects),
                    );
                }
                // a responder cannot select a dialect it does not speak while one it speaks is offered
                if !known_at.is_empty() && !known_at.contains(&idx) {
                    return e(
                        "smb1-dialect-index",
                        format!("selected dialect index {} is not one of the offered dialects the responder speaks (at {:?})", idx, known_at),
                    );
                }
                let caps = le32(p, 1 + 19);
                if caps & 0x8000_0000 != 0 && bc < 16 {
                    return e("smb1-guid", "extended security but no room for the server GUID".into());
                }
            } else {
                if wc != 4 {
                    return e("smb1-wordcount", format!("session setup response WordCount {}", wc));
                }
                let seclen = le16(p, 1 + 6) as usize;
                if seclen > bc {
                    return e("smb1-bloblen", format!("SecurityBlobLength {} > ByteCount {}", seclen, bc));
                }
            }
            Ok(())
        }
        SmbReq::Smb2 { command, message_id, async_id, session_id, dialects } => {
            if b.len() < 64 || &b[0..4] != b"\xfeSMB" {
                return e("smb2-magic", "SMB2 reply header missing".into());
            }
            if le16(b, 12) != *command {
                return e("smb2-command", format!("command {:#x} != request's {:#x}", le16(b, 12), command));
            }
            if le32(b, 16) & 1 == 0 {
                return e("smb2-reply-flag", "response flag not set".into());
            }
            let got = (le64(b, 24), le64(b, 32), le64(b, 40));
            let want = (*message_id, *async_id, *session_id);
            if got != want {
                return e(
                    "smb2-correlation",
                    format!("MessageId/AsyncId/SessionId {:x?} != request's {:x?}", got, want),
                );
            }
            let p = &b[64..];
            let (off_at, len_at, fixed) = if *command == 0 { (56, 58, 64) } else { (4, 6, 8) };
            if p.len() < fixed {
                return e("smb2-short-body", "response body truncated".into());
            }
            let off = le16(p, off_at) as usize;
            let len = le16(p, len_at) as usize;
            if off != 64 + fixed || off + len != b.len() {
                return e(
                    "smb2-secbuf",
                    format!(
                        "SecurityBufferOffset {} / Length {} inconsistent with the blob present (body starts at {}, message is {} bytes)",
                        off,
                        len,
                        64 + fixed,
                        b.len()
                    ),
                );
            }
            if *command == 0 {
                let rev = le16(p, 4);
                if !dialects.contains(&rev) {
                    return e(
                        "smb2-dialect",
                        format!("selected dialect {:#06x} was not offered ({:x?})", rev, dialects),
                    );
                }
            }
            Ok(())
        }
    }
}

/* ------------------------------------------------------------------ builders */

pub fn nb(body: &[u8]) -> Vec<u8> {
    let mut v = vec![0u8, (body.len() >> 16) as u8, (body.len() >> 8) as u8, body.len() as u8];
    v.extend_from_slice(body);
    v
}

#[derive(Clone, Debug)]
pub struct Smb1Hdr {
    pub command: u8,
    pub flags: u8,
    pub flags2: u16,
    pub pid_high: u16,
    pub tid: u16,
    pub pid_low: u16,
    pub uid: u16,
    pub mid: u16,
}

impl Smb1Hdr {
    pub fn new(command: u8) -> Smb1Hdr {
        Smb1Hdr {
            command,
            flags: 0x18,
            flags2: 0xc853,
            pid_high: 0,
            tid: 0,
            pid_low: 0xfeff,
            uid: 0,
            mid: 0,
        }
    }
    pub fn bytes(&self) -> Vec<u8> {
        let mut v = b"\xffSMB".to_vec();
        v.push(self.command);
        v.extend_from_slice(&[0; 4]);
        v.push(self.flags);
        v.extend_from_slice(&self.flags2.to_le_bytes());
        v.extend_from_slice(&self.pid_high.to_le_bytes());
        v.extend_from_slice(&[0; 8]);
        v.extend_from_slice(&[0; 2]);
        v.extend_from_slice(&self.tid.to_le_bytes());
        v.extend_from_slice(&self.pid_low.to_le_bytes());
        v.extend_from_slice(&self.uid.to_le_bytes());
        v.extend_from_slice(&self.mid.to_le_bytes());
        v
    }
}

pub fn smb1_negotiate(h: &Smb1Hdr, dialects: &[&str]) -> Vec<u8> {
    let mut d = Vec::new();
    for s in dialects {
        d.push(0x02);
        d.extend_from_slice(s.as_bytes());
        d.push(0);
    }
    let mut b = h.bytes();
    b.push(0);
    b.extend_from_slice(&(d.len() as u16).to_le_bytes());
    b.extend_from_slice(&d);
    nb(&b)
}

pub fn smb1_session_setup(h: &Smb1Hdr, blob: &[u8]) -> Vec<u8> {
    let mut b = h.bytes();
    b.push(12); // WordCount
    b.push(0xff); // AndXCommand
    b.push(0); // AndXReserved
    b.extend_from_slice(&0u16.to_le_bytes()); // AndXOffset
    b.extend_from_slice(&0xffffu16.to_le_bytes()); // MaxBufferSize
    b.extend_from_slice(&2u16.to_le_bytes()); // MaxMpxCount
    b.extend_from_slice(&1u16.to_le_bytes()); // VcNumber
    b.extend_from_slice(&0u32.to_le_bytes()); // SessionKey
    b.extend_from_slice(&(blob.len() as u16).to_le_bytes()); // SecurityBlobLength
    b.extend_from_slice(&0u32.to_le_bytes()); // Reserved
    b.extend_from_slice(&0x8000_00d4u32.to_le_bytes()); // Capabilities
    b.extend_from_slice(&(blob.len() as u16).to_le_bytes()); // ByteCount
    b.extend_from_slice(blob);
    nb(&b)
}

#[derive(Clone, Debug)]
pub struct Smb2Hdr {
    pub command: u16,
    pub flags: u32,
    pub message_id: u64,
    pub async_id: u64,
    pub session_id: u64,
}

impl Smb2Hdr {
    pub fn new(command: u16) -> Smb2Hdr {
        Smb2Hdr {
            command,
            flags: 0,
            message_id: 0,
            async_id: 0,
            session_id: 0,
        }
    }
    pub fn bytes(&self) -> Vec<u8> {
        let mut v = b"\xfeSMB".to_vec();
        v.extend_from_slice(&64u16.to_le_bytes());
        v.extend_from_slice(&0u16.to_le_bytes()); // CreditCharge
        v.extend_from_slice(&0u32.to_le_bytes()); // Status
        v.extend_from_slice(&self.command.to_le_bytes());
        v.extend_from_slice(&1u16.to_le_bytes()); // Credits
        v.extend_from_slice(&self.flags.to_le_bytes());
        v.extend_from_slice(&0u32.to_le_bytes()); // NextCommand
        v.extend_from_slice(&self.message_id.to_le_bytes());
        v.extend_from_slice(&self.async_id.to_le_bytes());
        v.extend_from_slice(&self.session_id.to_le_bytes());
        v.extend_from_slice(&[0; 16]);
        v
    }
}

pub fn smb2_negotiate(h: &Smb2Hdr, dialects: &[u16], guid: &[u8; 16]) -> Vec<u8> {
    let mut b = h.bytes();
    b.extend_from_slice(&36u16.to_le_bytes());
    b.extend_from_slice(&(dialects.len() as u16).to_le_bytes());
    b.extend_from_slice(&1u16.to_le_bytes()); // SecurityMode
    b.extend_from_slice(&0u16.to_le_bytes()); // Reserved
    b.extend_from_slice(&0x7fu32.to_le_bytes()); // Capabilities
    b.extend_from_slice(guid);
    b.extend_from_slice(&[0; 8]);
    for d in dialects {
        b.extend_from_slice(&d.to_le_bytes());
    }
    nb(&b)
}

pub fn smb2_session_setup(h: &Smb2Hdr, blob: &[u8]) -> Vec<u8> {
    let mut b = h.bytes();
    b.extend_from_slice(&25u16.to_le_bytes());
    b.push(0); // Flags
    b.push(1); // SecurityMode
    b.extend_from_slice(&1u32.to_le_bytes()); // Capabilities
    b.extend_from_slice(&0u32.to_le_bytes()); // Channel
    b.extend_from_slice(&0x58u16.to_le_bytes()); // SecurityBufferOffset
    b.extend_from_slice(&(blob.len() as u16).to_le_bytes());
    b.extend_from_slice(&0u64.to_le_bytes()); // PreviousSessionId
    b.extend_from_slice(blob);
    nb(&b)
}
