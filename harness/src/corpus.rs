//! Addresses, flows and the base corpus: one well-formed frame per leaf of the dispatch tree.

use std::collections::HashMap;

use crate::apprpc;
use crate::appsmb::{self, Smb1Hdr, Smb2Hdr};
use crate::appdns;
use crate::driver::{Cfg, Cmd, Driver, MAC_SRV};
use crate::model::FlowKey;
use crate::wire::*;

pub const MAC_CLI: Mac = [0x02, 0, 0, 0, 0, 0x01];
pub const MAC_CLI2: Mac = [0x02, 0, 0, 0, 0, 0x02];

pub fn srv4() -> Ip {
    Ip::V4([10, 0, 0, 1])
}
pub fn srv4b() -> Ip {
    Ip::V4([10, 200, 3, 4])
}
pub fn cli4() -> Ip {
    Ip::V4([10, 0, 0, 9])
}
pub fn cli4b() -> Ip {
    Ip::V4([192, 168, 77, 3])
}
pub fn deny4() -> Ip {
    Ip::V4([10, 66, 6, 6])
}
pub fn srv6() -> Ip {
    Ip::parse("2001:db8::1")
}
pub fn srv6b() -> Ip {
    Ip::parse("2001:db8::ab:cdef")
}
pub fn cli6() -> Ip {
    Ip::parse("2001:db8::9")
}
pub fn cli6b() -> Ip {
    Ip::parse("fe80::77:3")
}
pub fn deny6() -> Ip {
    Ip::parse("2001:db8::bad")
}

pub fn self_ips() -> Vec<Ip> {
    vec![srv4(), srv4b(), srv6(), srv6b()]
}
pub fn deny_ips() -> Vec<Ip> {
    vec![deny4(), deny6()]
}

pub fn flow4(cport: u16, sport: u16) -> Flow {
    Flow {
        cmac: MAC_CLI,
        smac: MAC_SRV,
        cip: cli4(),
        sip: srv4(),
        cport,
        sport,
    }
}
pub fn flow6(cport: u16, sport: u16) -> Flow {
    Flow {
        cmac: MAC_CLI,
        smac: MAC_SRV,
        cip: cli6(),
        sip: srv6(),
        cport,
        sport,
    }
}
pub fn flow(v6: bool, cport: u16, sport: u16) -> Flow {
    if v6 {
        flow6(cport, sport)
    } else {
        flow4(cport, sport)
    }
}

pub fn key_of(f: &Flow) -> FlowKey {
    FlowKey {
        cip: f.cip,
        sip: f.sip,
        cport: f.cport,
        sport: f.sport,
    }
}

/// Learn SYN cookies the way a client does: send a SYN, read the SYN-ACK sequence number.
pub fn learn_cookies(cfg: &Cfg, flows: &[Flow]) -> Result<HashMap<FlowKey, u32>, String> {
    let mut d = Driver::spawn(cfg)?;
    let cmds: Vec<Cmd> = flows.iter().map(|f| Cmd::Frame(f.tcp(1000, 0, F_SYN, b""))).collect();
    let outs = d.exec(&cmds).map_err(|e| format!("{:?}", e))?;
    let mut m = HashMap::new();
    for (f, o) in flows.iter().zip(outs.iter()) {
        if let Some(r) = &o.reply {
            if let Some(c) = synack_seq(r) {
                m.insert(key_of(f), c);
            }
        }
    }
    Ok(m)
}

pub fn synack_seq(reply: &[u8]) -> Option<u32> {
    let e = parse_eth(reply)?;
    let ip = if e.et == ET_IP4 { parse_ipv4(e.payload)? } else { parse_ipv6(e.payload)? };
    if ip.proto != P_TCP {
        return None;
    }
    let t = parse_tcp(ip.payload)?;
    if t.flags & (F_SYN | F_ACK) == (F_SYN | F_ACK) {
        Some(t.seq)
    } else {
        None
    }
}

/* ------------------------------------------------------------------ payloads */

#[derive(Clone, Copy, Debug, PartialEq, Eq)]
pub enum Via {
    Both,
    UdpOnly,
    TcpOnly,
}

#[derive(Clone, Debug)]
pub struct Payload {
    pub name: &'static str,
    pub bytes: Vec<u8>,
    pub via: Via,
    /// must be answered (as far as the statements decide for a consistent request)
    pub answered: bool,
}

fn p(name: &'static str, bytes: Vec<u8>, via: Via, answered: bool) -> Payload {
    Payload {
        name,
        bytes,
        via,
        answered,
    }
}

pub fn stun_magic(body: &[u8], id12: &[u8; 12]) -> Vec<u8> {
    let mut v = vec![0, 1];
    v.extend_from_slice(&(body.len() as u16).to_be_bytes());
    v.extend_from_slice(&[0x21, 0x12, 0xa4, 0x42]);
    v.extend_from_slice(id12);
    v.extend_from_slice(body);
    v
}

pub fn stun_classic(body: &[u8], id16: &[u8; 16]) -> Vec<u8> {
    let mut v = vec![0, 1];
    v.extend_from_slice(&(body.len() as u16).to_be_bytes());
    v.extend_from_slice(id16);
    v.extend_from_slice(body);
    v
}

pub fn stun_attr(ty: u16, val: &[u8]) -> Vec<u8> {
    let mut v = ty.to_be_bytes().to_vec();
    v.extend_from_slice(&(val.len() as u16).to_be_bytes());
    v.extend_from_slice(val);
    v
}

pub const ID12: [u8; 12] = [0xa1, 0xa2, 0xa3, 0xa4, 0xa5, 0xa6, 0xa7, 0xa8, 0xa9, 0xaa, 0xab, 0xac];
pub const ID16: [u8; 16] = [
    0xb0, 0xb1, 0xb2, 0xb3, 0xb4, 0xb5, 0xb6, 0xb7, 0xb8, 0xb9, 0xba, 0xbb, 0xbc, 0xbd, 0xbe, 0xbf,
];

pub fn ghost_request() -> Vec<u8> {
    // magic, total length, uncompressed length, zlib("\x00")
    let body: [u8; 9] = [0x78, 0x9c, 0x63, 0x00, 0x00, 0x00, 0x01, 0x00, 0x01];
    let mut v = b"Gh0st".to_vec();
    v.extend_from_slice(&((13 + body.len()) as u32).to_le_bytes());
    v.extend_from_slice(&1u32.to_le_bytes());
    v.extend_from_slice(&body);
    v
}

pub fn dns_labels(name: &str) -> Vec<Vec<u8>> {
    name.split('.').filter(|s| !s.is_empty()).map(|s| s.as_bytes().to_vec()).collect()
}

pub fn payloads() -> Vec<Payload> {
    let mut v = Vec::new();
    v.push(p("http-get", b"GET / HTTP/1.1\r\nHost: x\r\n\r\n".to_vec(), Via::Both, true));
    v.push(p("http-post-lf", b"POST /a?b=c HTTP/1.0\n\n".to_vec(), Via::Both, true));
    v.push(p("http-options-2h", b"OPTIONS /x HTTP/1.1\r\nA:b\r\nC: d\r\n\r\n".to_vec(), Via::Both, true));
    v.push(p("http-incomplete", b"GET / HTTP/1.1\r\nHost: x\r\n".to_vec(), Via::Both, false));
    v.push(p("ssh-2", b"SSH-2.0-OpenSSH_8.1 comment\r\n".to_vec(), Via::Both, true));
    v.push(p("ssh-199", b"SSH-1.99-x\r\n".to_vec(), Via::Both, true));
    v.push(p("ghost", ghost_request(), Via::Both, true));
    v.push(p("stun-magic-empty", stun_magic(&[], &ID12), Via::Both, true));
    // a >= 256-byte body so that the length's high byte is not 00
    let mut big = Vec::new();
    big.extend(stun_attr(0x8022, &[b'x'; 252]));
    big.extend(stun_attr(0x0003, &[0, 0, 0, 2]));
    v.push(p("stun-magic-attrs", stun_magic(&big, &ID12), Via::Both, true));
    v.push(p("stun-classic-empty", stun_classic(&[], &ID16), Via::UdpOnly, true));
    v.push(p("stun-classic-change-port", stun_classic(&stun_attr(3, &[0, 0, 0, 2]), &ID16), Via::UdpOnly, true));
    v.push(p("stun-classic-change-none", stun_classic(&stun_attr(3, &[0, 0, 0, 0]), &ID16), Via::UdpOnly, true));
    let h1 = Smb1Hdr::new(0x72);
    v.push(p("smb1-negotiate", appsmb::smb1_negotiate(&h1, &["PC NETWORK PROGRAM 1.0", "NT LM 0.12"]), Via::Both, true));
    let h1s = Smb1Hdr::new(0x73);
    v.push(p("smb1-setup", appsmb::smb1_session_setup(&h1s, &[0x60, 0x28, 0x06, 0x06, 0x2b, 0x06, 0x01, 0x05]), Via::Both, true));
    let h2 = Smb2Hdr::new(0);
    v.push(p("smb2-negotiate", appsmb::smb2_negotiate(&h2, &[0x0202, 0x0210, 0x0300], &[7; 16]), Via::Both, true));
    let h2s = Smb2Hdr::new(1);
    v.push(p("smb2-setup", appsmb::smb2_session_setup(&h2s, &[0x60, 0x28, 0x06, 0x06]), Via::Both, true));
    // a reconnecting client: SessionId 0 in the header, the previous session's id in the request
    {
        let mut h = Smb2Hdr::new(1);
        h.session_id = 0;
        let mut m = appsmb::smb2_session_setup(&h, &[0x60, 0x28, 0x06, 0x06]);
        m[4 + 64 + 16..4 + 64 + 24].copy_from_slice(&0x1122_3344_5566_7788u64.to_le_bytes());
        v.push(p("smb2-setup-reconnect", m, Via::Both, true));
    }
    let xid = 0x72fe1d13;
    for (name, vers, proc_) in [
        ("rpc-nmap", 104316u32, 0u32),
        ("rpc-null", 2, 0),
        ("rpc-getport", 2, 3),
        ("rpc-getaddr", 3, 3),
        ("rpc-dump", 4, 4),
    ] {
        let call = apprpc::build_call(xid, 2, 100000, vers, proc_, &[], &[]);
        v.push(Payload {
            name: match name {
                "rpc-nmap" => "rpc-udp-nmap",
                "rpc-null" => "rpc-udp-null",
                "rpc-getport" => "rpc-udp-getport",
                "rpc-getaddr" => "rpc-udp-getaddr",
                _ => "rpc-udp-dump",
            },
            bytes: call.clone(),
            via: Via::UdpOnly,
            answered: true,
        });
        v.push(Payload {
            name: match name {
                "rpc-nmap" => "rpc-tcp-nmap",
                "rpc-null" => "rpc-tcp-null",
                "rpc-getport" => "rpc-tcp-getport",
                "rpc-getaddr" => "rpc-tcp-getaddr",
                _ => "rpc-tcp-dump",
            },
            bytes: apprpc::with_record_mark(&call),
            via: Via::TcpOnly,
            answered: true,
        });
    }
    v.push(p("rpc-udp-dump2", apprpc::build_call(0x0badcafe, 2, 100000, 2, 4, &[], &[]), Via::UdpOnly, true));
    v.push(p("rpc-tcp-dump2", apprpc::with_record_mark(&apprpc::build_call(0x0badcafe, 2, 100000, 2, 4, &[], &[])), Via::TcpOnly, true));
    // a record-marked call carried by a datagram: completes the stream signature, answered by the
    // stream responder (marked reply)
    v.push(p("rpc-marked-getport-in-datagram", apprpc::with_record_mark(&apprpc::build_call(0x12345678, 2, 100000, 2, 3, &[], &[])), Via::UdpOnly, true));
    v.push(p("rpc-marked-dump-in-datagram", apprpc::with_record_mark(&apprpc::build_call(0x12345678, 2, 100000, 4, 4, &[], &[])), Via::UdpOnly, true));
    v.push(p("dns-a", appdns::build_query(0x1337, 0x0100, &[(dns_labels("www.example.com"), 1, 1)]), Via::UdpOnly, true));
    v.push(p(
        "dns-a-2q",
        appdns::build_query(0x1338, 0x0000, &[(dns_labels("a.b"), 1, 1), (dns_labels("c"), 1, 1)]),
        Via::UdpOnly,
        true,
    ));
    v.push(p("dns-txt-ch", appdns::build_query(0x1339, 0x0100, &[(dns_labels("version.bind"), 16, 3)]), Via::UdpOnly, false));
    // queries whose answers exceed 512 bytes (the classic datagram limit) and 1500 bytes
    v.push(p("dns-a-x12", appdns::build_query(0x133a, 0x0100, &(0..12).map(|_| (dns_labels("www.example.com"), 1u16, 1u16)).collect::<Vec<_>>()), Via::UdpOnly, true));
    v.push(p("dns-a-x40", appdns::build_query(0x133b, 0x0000, &(0..40).map(|k| (dns_labels(&format!("h{}.example.org", k)), 1u16, 1u16)).collect::<Vec<_>>()), Via::UdpOnly, true));
    // polyglots: cookie-less STUN requests whose transaction id also reads as a complete DNS IN/A
    // query (id 0x0001, flags 0x0000 / 0x0008, one question "ab"); the signature set decides: STUN
    v.push(p("stun-classic-dns-polyglot", b"\x00\x01\x00\x00\x00\x01\x00\x00\x00\x00\x00\x00\x02ab\x00\x00\x01\x00\x01".to_vec(), Via::UdpOnly, true));
    v.push(p(
        "stun-change-dns-polyglot",
        b"\x00\x01\x00\x08\x00\x01\x00\x00\x00\x00\x00\x00\x02ab\x00\x00\x01\x00\x01\x00\x03\x00\x04\x00\x00\x00\x02".to_vec(),
        Via::UdpOnly,
        true,
    ));
    v.push(p("garbage", b"\x01\x02\x03hello world, this is not a protocol".to_vec(), Via::Both, false));
    v
}

/* ------------------------------------------------------------------ base frames */

pub fn nd_ns(src: &Ip, dst: &Ip, target: &Ip, options: &[u8], code: u8) -> Vec<u8> {
    let mut rest = vec![0u8; 4];
    rest.extend_from_slice(&target.bytes());
    rest.extend_from_slice(options);
    let l4 = icmp6(src, dst, 135, code, &rest);
    ip(src, dst, P_ICMP6, &l4)
}

pub fn slla(mac: &Mac) -> Vec<u8> {
    let mut v = vec![1, 1];
    v.extend_from_slice(mac);
    v
}

#[derive(Clone, Debug)]
pub struct BaseFrame {
    pub name: String,
    pub frame: Vec<u8>,
    /// for TCP data frames: frames to send first (SYN) — the data frame already carries the
    /// learned cookie
    pub prelude: Vec<Vec<u8>>,
}

/// The base corpus B.  `cookies` must hold the cookies of flows (v6?, 40000, 80).
/// STUN Binding requests carrying one attribute of every assigned type (RFC 3489 / 5389 / 5780
/// ranges) with WELL-FORMED values of the shapes those attributes have (IPv4 / IPv6 address with
/// another port, flag words, text, empty), in the short form and in the >= 256-byte form the
/// stream matcher identifies (attribute before / after the padding attribute).
pub fn stun_attr_shapes() -> Vec<Vec<u8>> {
    let mut types: Vec<u16> = (0u16..0x0031).collect();
    types.extend(0x8000u16..0x8031);
    types.extend([0xc000u16, 0xc057, 0xffff]);
    let vals: Vec<Vec<u8>> = vec![
        vec![0, 1, 0x1f, 0x90, 9, 9, 9, 9],
        [&[0u8, 2, 0x1f, 0x90][..], &[0x20, 1, 0xd, 0xb8, 0, 0, 0, 0, 0, 0, 0, 0, 0, 0, 0, 9][..]].concat(),
        vec![0, 0, 0, 2],
        vec![0, 0, 0, 6],
        vec![0x1f, 0x90, 0, 0],
        b"text".to_vec(),
        vec![],
    ];
    let pad = stun_attr(0x8022, &[b'p'; 252]);
    let mut v = Vec::new();
    // bytes BEHIND the declared end of the message that read as attributes (they are not part of it)
    for tail in [stun_attr(3, &[0, 0, 0, 2]), stun_attr(3, &[0, 0, 0, 6]), stun_attr(2, &[0, 1, 0x1f, 0x90, 9, 9, 9, 9]), vec![0, 3, 0, 4], vec![0, 0, 0, 0], [stun_attr(0x8022, b"abcd"), stun_attr(3, &[0, 0, 0, 2])].concat()] {
        v.push([stun_magic(&pad, &ID12), tail.clone()].concat());
        v.push([stun_magic(&[pad.clone(), stun_attr(3, &[0, 0, 0, 0])].concat(), &ID12), tail.clone()].concat());
        v.push([stun_magic(&[], &ID12), tail.clone()].concat());
        v.push([stun_classic(&[], &ID16), tail].concat());
    }
    // dissected attributes whose DECLARED length exceeds their fixed layout: the surplus bytes belong
    // to the attribute (the walker steps over the declared length), whatever they read as
    {
        let fixed: Vec<(u16, Vec<u8>)> = vec![
            (1, vec![0, 1, 0x1f, 0x90, 9, 9, 9, 9]),
            (1, [&[0u8, 2, 0x1f, 0x90][..], &[0x20, 1, 0xd, 0xb8, 0, 0, 0, 0, 0, 0, 0, 0, 0, 0, 0, 9][..]].concat()),
            (3, vec![0, 0, 0, 0]),
            (3, vec![0, 0, 0, 2]),
        ];
        let surplus: Vec<Vec<u8>> = vec![vec![0x80, 0x22, 0, 8], vec![0xff; 4], vec![0, 3, 0, 4, 0, 0, 0, 2], vec![0, 3, 0, 4, 0, 0, 0, 6, 0x80, 0x22, 0, 0], vec![0, 1, 0, 8, 0, 9, 0, 0], vec![0; 4]];
        let follow: Vec<Vec<u8>> = vec![vec![], stun_attr(3, &[0, 0, 0, 2]), stun_attr(3, &[0, 0, 0, 0]), stun_attr(0x8022, b"abcd")];
        let filler = stun_attr(0x8022, &[b'p'; 228]);
        for (t, val) in &fixed {
            for sp in &surplus {
                for fo in &follow {
                    let a = stun_attr(*t, &[val.clone(), sp.clone()].concat());
                    v.push(stun_magic(&[a.clone(), fo.clone(), filler.clone()].concat(), &ID12));
                    v.push(stun_magic(&[filler.clone(), a.clone(), fo.clone()].concat(), &ID12));
                    v.push(stun_classic(&[a, fo.clone(), filler.clone()].concat(), &ID16));
                }
            }
        }
    }
    for t in &types {
        for val in &vals {
            let a = stun_attr(*t, val);
            v.push(stun_magic(&a, &ID12));
            v.push(stun_magic(&[a.clone(), pad.clone()].concat(), &ID12));
            v.push(stun_magic(&[pad.clone(), a.clone()].concat(), &ID12));
            // ... and IN FRONT OF a CHANGE-REQUEST (change port): no attribute ends the list
            let cr = stun_attr(3, &[0, 0, 0, 2]);
            v.push(stun_magic(&[a.clone(), cr.clone(), pad.clone()].concat(), &ID12));
            v.push(stun_magic(&[pad.clone(), a.clone(), cr.clone()].concat(), &ID12));
            v.push(stun_classic(&[a, cr].concat(), &ID16));
        }
    }
    v
}

pub fn base_frames(cookies: &HashMap<FlowKey, u32>) -> Vec<BaseFrame> {
    let mut v: Vec<BaseFrame> = Vec::new();
    let mut add = |name: String, frame: Vec<u8>| {
        v.push(BaseFrame {
            name,
            frame,
            prelude: vec![],
        })
    };
    let c4 = match cli4() {
        Ip::V4(b) => b,
        _ => unreachable!(),
    };
    let s4 = match srv4() {
        Ip::V4(b) => b,
        _ => unreachable!(),
    };
    // ARP
    add("arp-request".into(), eth(&[0xff; 6], &MAC_CLI, ET_ARP, &Arp::request(MAC_CLI, c4, s4).bytes()));
    let mut ar = Arp::request(MAC_CLI, c4, s4);
    ar.op = 2;
    add("arp-reply".into(), eth(&MAC_SRV, &MAC_CLI, ET_ARP, &ar.bytes()));
    for v6 in [false, true] {
        let f = flow(v6, 40000, 80);
        let tag = if v6 { "v6" } else { "v4" };
        add(format!("echo-{}", tag), f.icmp_echo(0x1234, 7, b"abcdefgh12345"));
        if v6 {
            add("nd-ns-noopt".into(), eth(&MAC_SRV, &MAC_CLI, ET_IP6, &nd_ns(&f.cip, &f.sip, &f.sip, &[], 0)));
            add("nd-ns-slla".into(), eth(&MAC_SRV, &MAC_CLI, ET_IP6, &nd_ns(&f.cip, &f.sip, &f.sip, &slla(&MAC_CLI), 0)));
            let mut two = slla(&MAC_CLI);
            two.extend_from_slice(&[14, 1, 1, 2, 3, 4, 5, 6]);
            add("nd-ns-2opt".into(), eth(&MAC_SRV, &MAC_CLI, ET_IP6, &nd_ns(&f.cip, &f.sip, &f.sip, &two, 0)));
            add("icmp6-other".into(), f.ip_frame(P_ICMP6, &icmp6(&f.cip, &f.sip, 133, 0, &[0, 0, 0, 0])));
            add("icmp6-echo-reply".into(), f.ip_frame(P_ICMP6, &icmp6(&f.cip, &f.sip, 129, 0, &[0, 1, 0, 2, 9, 9])));
        } else {
            add("icmp4-other".into(), f.ip_frame(P_ICMP, &icmp4(13, 0, &[0; 16])));
            add("icmp4-echo-reply".into(), f.ip_frame(P_ICMP, &icmp4(0, 0, &[0, 1, 0, 2, 9, 9])));
        }
        add(format!("tcp-syn-{}", tag), f.tcp(1000, 0, F_SYN, b""));
        add(format!("tcp-ack-{}", tag), f.tcp(1000, 5, F_ACK, b""));
        add(format!("tcp-rst-{}", tag), f.tcp(1000, 5, F_RST, b""));
        add(format!("tcp-finack-{}", tag), f.tcp(1000, 5, F_FIN | F_ACK, b""));
        add(format!("tcp-data-badack-{}", tag), f.tcp(1000, 5, F_PSH | F_ACK, b"GET / HTTP/1.1\r\n\r\n"));
        add(format!("ip-other-proto-{}", tag), f.ip_frame(47, &[0; 16]));
    }
    add("ethertype-other".into(), eth(&MAC_SRV, &MAC_CLI, 0x88cc, &[0; 32]));
    // application payloads
    for pl in payloads() {
        for v6 in [false, true] {
            let f = flow(v6, 40000, 80);
            let tag = if v6 { "v6" } else { "v4" };
            if pl.via != Via::TcpOnly {
                v.push(BaseFrame {
                    name: format!("udp-{}-{}", pl.name, tag),
                    frame: f.udp(&pl.bytes),
                    prelude: vec![],
                });
            }
            if pl.via != Via::UdpOnly {
                if let Some(c) = cookies.get(&key_of(&f)) {
                    v.push(BaseFrame {
                        name: format!("tcp-{}-{}", pl.name, tag),
                        frame: f.tcp(1001, c.wrapping_add(1), F_PSH | F_ACK, &pl.bytes),
                        prelude: vec![f.tcp(1000, 0, F_SYN, b"")],
                    });
                }
            }
        }
    }
    v
}
