//! SipHash-2-4 (Aumasson & Bernstein), own implementation.  Used only as a cross-check and to
//! search for edge cookies; never the deciding oracle (cookies are learned from SYN-ACKs).

fn rotl(x: u64, b: u32) -> u64 {
    x.rotate_left(b)
}

pub fn siphash24(k0: u64, k1: u64, data: &[u8]) -> u64 {
    let mut v0 = k0 ^ 0x736f6d6570736575;
    let mut v1 = k1 ^ 0x646f72616e646f6d;
    let mut v2 = k0 ^ 0x6c7967656e657261;
    let mut v3 = k1 ^ 0x7465646279746573;
    macro_rules! round {
        () => {
            v0 = v0.wrapping_add(v1);
            v1 = rotl(v1, 13);
            v1 ^= v0;
            v0 = rotl(v0, 32);
            v2 = v2.wrapping_add(v3);
            v3 = rotl(v3, 16);
            v3 ^= v2;
            v0 = v0.wrapping_add(v3);
            v3 = rotl(v3, 21);
            v3 ^= v0;
            v2 = v2.wrapping_add(v1);
            v1 = rotl(v1, 17);
            v1 ^= v2;
            v2 = rotl(v2, 32);
        };
    }
    let n = data.len();
    let mut i = 0;
    while i + 8 <= n {
        let mut b = [0u8; 8];
        b.copy_from_slice(&data[i..i + 8]);
        let m = u64::from_le_bytes(b);
        v3 ^= m;
        round!();
        round!();
        v0 ^= m;
        i += 8;
    }
    let mut last: u64 = (n as u64) << 56;
    for (k, b) in data[i..].iter().enumerate() {
        last |= (*b as u64) << (8 * k);
    }
    v3 ^= last;
    round!();
    round!();
    v0 ^= last;
    v2 ^= 0xff;
    round!();
    round!();
    round!();
    round!();
    v0 ^ v1 ^ v2 ^ v3
}

/// The cookie as the harness believes the implementation computes it (std Hasher write_u32 /
/// write_u128 / write_u16 feed native-endian bytes).
pub fn cookie_guess(key: [u64; 2], cip: &crate::wire::Ip, sip: &crate::wire::Ip, cport: u16, sport: u16) -> u32 {
    use crate::wire::Ip;
    let mut d = Vec::new();
    match (cip, sip) {
        (Ip::V4(a), Ip::V4(b)) => {
            d.extend_from_slice(&u32::from_be_bytes(*a).to_ne_bytes());
            d.extend_from_slice(&u32::from_be_bytes(*b).to_ne_bytes());
        }
        (Ip::V6(a), Ip::V6(b)) => {
            d.extend_from_slice(&u128::from_be_bytes(*a).to_ne_bytes());
            d.extend_from_slice(&u128::from_be_bytes(*b).to_ne_bytes());
        }
        _ => {}
    }
    d.extend_from_slice(&cport.to_ne_bytes());
    d.extend_from_slice(&sport.to_ne_bytes());
    (siphash24(key[0], key[1], &d) & 0xffff_ffff) as u32
}

#[cfg(test)]
mod tests {
    use super::*;
    #[test]
    fn paper_vector() {
        // SipHash paper, Appendix A: key 00..0f, message 00..0e -> a129ca6149be45e5
        let k0 = u64::from_le_bytes([0, 1, 2, 3, 4, 5, 6, 7]);
        let k1 = u64::from_le_bytes([8, 9, 10, 11, 12, 13, 14, 15]);
        let m: Vec<u8> = (0u8..15).collect();
        assert_eq!(siphash24(k0, k1, &m), 0xa129ca6149be45e5);
    }
}
