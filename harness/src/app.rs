//! Application-layer reference: whole-message / whole-stream recognisers written from the
//! property statements (C10-C18), and validators for the replies.

use crate::model::FlowState;
use crate::sig::{dispatch, Dispatch, Proto, Sig};
use crate::wire::{hex, Ip};
use crate::{appdns, apprpc, appsmb};

#[derive(Clone, Copy, Debug, PartialEq, Eq)]
pub enum Transport {
    Udp,
    Tcp,
}

/// Addressing context of a request (c = client, s = server/responder side as addressed).
#[derive(Clone, Debug)]
pub struct AppCtx {
    pub cip: Ip,
    pub sip: Ip,
    pub cport: u16,
    pub sport: u16,
    pub transport: Transport,
}

/// A request the statements say MUST be answered, with what is needed to validate the answer.
#[derive(Clone, Debug)]
pub enum Req {
    Http,
    Ssh,
    Ghost,
    Stun { id: [u8; 16], change_port: bool },
    Dns(appdns::DnsQuery),
    Rpc(apprpc::RpcCall),
    Smb(appsmb::SmbReq),
}

pub type VErr = (&'static str, String, String);

impl Req {
    pub fn kind(&self) -> &'static str {
        match self {
            Req::Http => "http",
            Req::Ssh => "ssh",
            Req::Ghost => "ghost",
            Req::Stun { .. } => "stun",
            Req::Dns(_) => "dns",
            Req::Rpc(_) => "rpc",
            Req::Smb(_) => "smb",
        }
    }
    pub fn prop(&self) -> &'static str {
        match self {
            Req::Http => "C13",
            Req::Ssh => "C18",
            Req::Ghost => "C18",
            Req::Stun { .. } => "C15",
            Req::Dns(_) => "C14",
            Req::Rpc(_) => "C16",
            Req::Smb(_) => "C17",
        }
    }
    pub fn change_port(&self) -> bool {
        matches!(self, Req::Stun { change_port: true, .. })
    }
    pub fn validate(&self, reply: &[u8], ctx: &AppCtx) -> Result<(), VErr> {
        match self {
            Req::Http => validate_http(reply),
            Req::Ssh => {
                if reply == b"SSH-2.0-1\r\n" {
                    Ok(())
                } else {
                    Err(("C18", "ssh-banner".into(), format!("SSH reply {} is not 'SSH-2.0-1\\r\\n'", hex(reply))))
                }
            }
            Req::Ghost => validate_ghost(reply),
            Req::Stun { id, .. } => validate_stun(reply, id, ctx),
            Req::Dns(q) => appdns::validate(q, reply, ctx),
            Req::Rpc(c) => apprpc::validate(c, reply, ctx),
            Req::Smb(r) => appsmb::validate(r, reply, ctx),
        }
    }
}

#[derive(Clone, Debug)]
pub enum AppVerdict {
    /// must not be answered with application data: (property, reason)
    Silent(&'static str, &'static str),
    Unspecified(String),
    Answer(Req),
    /// whether the message is answered is not settled (reason), but IF it is, the reply must be
    /// the right reply to this request (e.g. a complete request followed by bytes that the
    /// message's own length field excludes)
    IfAnswered(Req, String),
}

/* ------------------------------------------------------------------ dispatch */

/// Verdict for one UDP datagram.
pub fn datagram_verdict(sigs: &[Sig], payload: &[u8], ctx: &AppCtx) -> AppVerdict {
    match dispatch(sigs, payload, true) {
        Dispatch::Matched(p, _, _) => message_verdict(p, payload, ctx, true),
        _ => appdns::verdict(payload, ctx),
    }
}

/// Verdict for a whole message handed to protocol `p` (one datagram, or the first TCP segment).
pub fn message_verdict(p: Proto, msg: &[u8], ctx: &AppCtx, datagram: bool) -> AppVerdict {
    match p {
        Proto::Http => match http_status(msg) {
            HttpStatus::Complete(_) => AppVerdict::Answer(Req::Http),
            HttpStatus::Incomplete => AppVerdict::Silent("C13", "http-incomplete"),
            HttpStatus::Invalid(w) => AppVerdict::Silent("C13", w),
            HttpStatus::Unspec(w) => AppVerdict::Unspecified(w.into()),
        },
        Proto::Ssh => ssh_verdict(msg),
        Proto::Ghost => AppVerdict::Answer(Req::Ghost),
        Proto::Stun => stun_verdict(msg, ctx),
        Proto::RpcUdp => {
            if datagram {
                apprpc::verdict_udp(msg, ctx)
            } else {
                AppVerdict::Unspecified("RPC/UDP signature over TCP".into())
            }
        }
        Proto::RpcTcp => {
            if datagram {
                // a record-marked call in a datagram: handed to the stream parser; a complete
                // call is answered like over TCP
                apprpc::verdict_tcp_whole(msg, ctx)
            } else {
                apprpc::verdict_tcp_whole(msg, ctx)
            }
        }
        Proto::Smb1 | Proto::Smb2 => appsmb::verdict(p, msg, ctx),
    }
}

/// Verdict for one accepted TCP data segment; updates the flow's reference state
/// (= the bytes received so far).
pub fn stream_verdict(sigs: &[Sig], st: &mut FlowState, seg: &[u8], ctx: &AppCtx) -> AppVerdict {
    let before = st.stream.len();
    st.stream.extend_from_slice(seg);
    st.segments += 1;
    if st.muddled {
        return AppVerdict::Unspecified("flow state unspecified".into());
    }
    if let Some(p) = st.per_message {
        // message-per-segment protocol: this segment is a message of the identified protocol
        if seg.is_empty() {
            return AppVerdict::Silent("C11", "empty-segment");
        }
        let v = message_verdict(p, seg, ctx, false);
        if let AppVerdict::Unspecified(_) | AppVerdict::IfAnswered(..) = v {
            st.muddled = true;
        }
        return v;
    }
    if st.answered {
        if st.http_boundary && !seg.is_empty() {
            // a further request on a connection whose earlier requests were complete and answered:
            // if this segment is by itself a complete request it must be answered as well
            st.http_boundary = false;
            if let Dispatch::Matched(Proto::Http, _, _) = dispatch(sigs, seg, false) {
                if let HttpStatus::Complete(at) = http_status(seg) {
                    st.http_boundary = at + 1 == seg.len() && !announces_body(seg);
                    return AppVerdict::Answer(Req::Http);
                }
            }
        }
        return AppVerdict::Unspecified("segment after the first answered request".into());
    }
    if seg.is_empty() {
        return AppVerdict::Silent("C11", "empty-segment");
    }
    let d = dispatch(sigs, &st.stream, false);
    // the signature completes on this segment and every earlier segment was still undecided:
    // the identified protocol's handler is given the whole stream so far
    let fresh = !st.seen_non_pending;
    if !matches!(d, Dispatch::Pending) {
        st.seen_non_pending = true;
    }
    match d {
        Dispatch::Pending => AppVerdict::Silent("C10", "no-signature-completed-yet"),
        Dispatch::Dead => AppVerdict::Silent("C10", "no-signature"),
        Dispatch::Matched(p, _, _) => match p {
            Proto::Http => match http_status(&st.stream) {
                HttpStatus::Complete(at) => {
                    if at >= before {
                        st.answered = true;
                        st.http_boundary = at + 1 == st.stream.len() && !announces_body(&st.stream);
                        AppVerdict::Answer(Req::Http)
                    } else {
                        AppVerdict::Unspecified("after completion".into())
                    }
                }
                HttpStatus::Incomplete => AppVerdict::Silent("C11", "http-incomplete"),
                HttpStatus::Invalid(w) => AppVerdict::Silent("C13", w),
                HttpStatus::Unspec(w) => {
                    st.muddled = true;
                    AppVerdict::Unspecified(w.into())
                }
            },
            Proto::RpcTcp => {
                let v = apprpc::verdict_tcp_stream(&st.stream, before, ctx);
                match &v {
                    AppVerdict::Answer(_) => st.answered = true,
                    AppVerdict::Unspecified(_) => st.muddled = true,
                    _ => {}
                }
                v
            }
            _ => {
                if before == 0 || fresh {
                    let whole = st.stream.clone();
                    let v = message_verdict(p, &whole, ctx, false);
                    match &v {
                        AppVerdict::Answer(_) => {
                            st.answered = true;
                            if matches!(p, Proto::Ssh | Proto::Stun | Proto::Ghost | Proto::Smb1 | Proto::Smb2) {
                                st.per_message = Some(p);
                            }
                        }
                        AppVerdict::Unspecified(_) | AppVerdict::IfAnswered(..) => st.muddled = true,
                        // an SSH identification that is not answered (unterminated / malformed) leaves
                        // the connection with the SSH responder, which judges every segment as an
                        // identification of its own (C18: every well-formed identification is
                        // answered); for the other protocols a first segment that was not answered
                        // leaves the flow in a state the statements do not describe
                        AppVerdict::Silent(..) if matches!(p, Proto::Ssh) && d_len_is_signature(&d, st.stream.len()) => {
                            st.per_message = Some(p);
                        }
                        _ => st.muddled = true,
                    }
                    v
                } else {
                    st.muddled = true;
                    AppVerdict::Unspecified("non-incremental protocol split across segments".into())
                }
            }
        },
    }
}

/// the whole stream so far reaches at least the end of the completed signature
fn d_len_is_signature(d: &Dispatch, stream_len: usize) -> bool {
    matches!(d, Dispatch::Matched(_, _, n) if *n <= stream_len)
}

/* ------------------------------------------------------------------ HTTP */

/// the header block mentions a body (Content-Length / Transfer-Encoding, any case)
fn announces_body(req: &[u8]) -> bool {
    let l = req.to_ascii_lowercase();
    let has = |n: &[u8]| l.windows(n.len()).any(|w| w == n);
    has(b"content-length") || has(b"transfer-encoding")
}

#[derive(Clone, Debug, PartialEq, Eq)]
pub enum HttpStatus {
    /// complete request; index of the stream byte (the final LF) that completes it
    Complete(usize),
    Incomplete,
    Invalid(&'static str),
    Unspec(&'static str),
}

/// Recogniser of the statement's grammar:
///   METHOD SP target SP "HTTP/" digits "." digits EOL ( name ":" value EOL )* EOL
/// with EOL = CRLF | LF.  Lenient corners of real-world parsers are abstained on.
pub fn http_status(s: &[u8]) -> HttpStatus {
    use HttpStatus::*;
    // method
    let mut i = 0;
    let verb = crate::sig::HTTP_VERBS.iter().find(|v| s.starts_with(v.as_bytes()));
    let verb = match verb {
        Some(v) => v,
        None => {
            // could still be a prefix of a verb
            if crate::sig::HTTP_VERBS.iter().any(|v| v.as_bytes().starts_with(s)) {
                return Incomplete;
            }
            return Invalid("http-unknown-method");
        }
    };
    i += verb.len();
    if i >= s.len() {
        return Incomplete;
    }
    if s[i] != b' ' {
        return Invalid("http-no-space-after-method");
    }
    i += 1;
    // target: up to the next SP
    let start = i;
    while i < s.len() && s[i] != b' ' {
        i += 1;
    }
    let target = &s[start..i];
    let target_has_eol = target.iter().any(|b| *b == b'\r' || *b == b'\n');
    if i >= s.len() {
        if target_has_eol {
            return Unspec("http-target-with-line-end");
        }
        return Incomplete;
    }
    if target.is_empty() {
        return Invalid("http-empty-target");
    }
    if target_has_eol {
        return Unspec("http-target-with-line-end");
    }
    i += 1; // SP
    for c in b"HTTP/" {
        if i >= s.len() {
            return Incomplete;
        }
        if s[i] != *c {
            return Invalid("http-bad-version-literal");
        }
        i += 1;
    }
    // major
    let ds = i;
    while i < s.len() && s[i].is_ascii_digit() {
        i += 1;
    }
    if i >= s.len() {
        return Incomplete;
    }
    if s[i] != b'.' {
        return Invalid("http-bad-version");
    }
    let major_empty = i == ds;
    i += 1;
    let ds = i;
    while i < s.len() && s[i].is_ascii_digit() {
        i += 1;
    }
    let minor_empty = i == ds;
    if i >= s.len() {
        return Incomplete;
    }
    // end of request line
    match eol(s, i) {
        Eol::Lf(n) => i = n,
        Eol::Incomplete => return Incomplete,
        Eol::LoneCr => return Unspec("http-lone-cr"),
        Eol::No => return Invalid("http-bad-version"),
    }
    if major_empty || minor_empty {
        return Unspec("http-empty-version-number");
    }
    // header lines
    loop {
        if i >= s.len() {
            return Incomplete;
        }
        match eol(s, i) {
            Eol::Lf(n) => return Complete(n - 1),
            Eol::Incomplete => return Incomplete,
            Eol::LoneCr => return Unspec("http-lone-cr"),
            Eol::No => {}
        }
        if s[i] == b':' {
            return Unspec("http-empty-header-name");
        }
        // name up to ':'
        loop {
            if i >= s.len() {
                return Incomplete;
            }
            if s[i] == b'\r' || s[i] == b'\n' {
                return Invalid("http-header-without-colon");
            }
            if s[i] == b':' {
                break;
            }
            i += 1;
        }
        i += 1;
        // value up to EOL
        loop {
            if i >= s.len() {
                return Incomplete;
            }
            match eol(s, i) {
                Eol::Lf(n) => {
                    i = n;
                    break;
                }
                Eol::Incomplete => return Incomplete,
                Eol::LoneCr => return Unspec("http-lone-cr"),
                Eol::No => i += 1,
            }
        }
    }
}

enum Eol {
    /// line end found; index just after the LF
    Lf(usize),
    Incomplete,
    LoneCr,
    No,
}

fn eol(s: &[u8], i: usize) -> Eol {
    if s[i] == b'\n' {
        Eol::Lf(i + 1)
    } else if s[i] == b'\r' {
        if i + 1 >= s.len() {
            Eol::Incomplete
        } else if s[i + 1] == b'\n' {
            Eol::Lf(i + 2)
        } else {
            Eol::LoneCr
        }
    } else {
        Eol::No
    }
}

pub fn validate_http(r: &[u8]) -> Result<(), VErr> {
    if !r.starts_with(b"HTTP/1.1 401") {
        return Err(("C13", "http-status".into(), format!("response does not start with 'HTTP/1.1 401': {}", String::from_utf8_lossy(&r[..r.len().min(40)]))));
    }
    // split header / body at the first empty line (CRLF or LF line ends)
    let mut i = 0;
    let mut body_at = None;
    let mut lines: Vec<&[u8]> = Vec::new();
    while i < r.len() {
        let mut jx = i;
        while jx < r.len() && r[jx] != b'\n' {
            jx += 1;
        }
        if jx >= r.len() {
            break;
        }
        let mut line = &r[i..jx];
        if line.last() == Some(&b'\r') {
            line = &line[..line.len() - 1];
        }
        i = jx + 1;
        if line.is_empty() {
            body_at = Some(i);
            break;
        }
        lines.push(line);
    }
    let body_at = match body_at {
        Some(b) => b,
        None => return Err(("C13", "http-no-blank-line".into(), "response header not terminated by an empty line".into())),
    };
    let lower = |l: &[u8]| String::from_utf8_lossy(l).to_ascii_lowercase();
    if !lines.iter().any(|l| lower(l).starts_with("www-authenticate:")) {
        return Err(("C13", "http-no-challenge".into(), "response carries no WWW-Authenticate header".into()));
    }
    let cl = lines
        .iter()
        .find(|l| lower(l).starts_with("content-length:"))
        .and_then(|l| lower(l)["content-length:".len()..].trim().parse::<usize>().ok());
    match cl {
        None => Err(("C13", "http-no-content-length".into(), "response has no parseable Content-Length".into())),
        Some(n) if n != r.len() - body_at => Err((
            "C13",
            "http-content-length".into(),
            format!("Content-Length {} but {} body bytes follow the blank line", n, r.len() - body_at),
        )),
        _ => Ok(()),
    }
}

/// HTTP reply with the wall-clock Date header masked.
pub fn mask_http_date(r: &[u8]) -> Vec<u8> {
    let mut out = Vec::with_capacity(r.len());
    for line in r.split_inclusive(|b| *b == b'\n') {
        if line.len() >= 5 && line[..5].eq_ignore_ascii_case(b"date:") {
            out.extend_from_slice(b"Date: <masked>\n");
        } else {
            out.extend_from_slice(line);
        }
    }
    out
}

/* ------------------------------------------------------------------ SSH */

/// 'SSH-<digits and dots>-<software>[ SP comment] CR LF', beginning with a signature prefix.
pub fn ssh_verdict(m: &[u8]) -> AppVerdict {
    if !m.starts_with(b"SSH-") {
        return AppVerdict::Silent("C18", "ssh-bad-prefix");
    }
    let mut i = 4;
    while i < m.len() && (m[i].is_ascii_digit() || m[i] == b'.') {
        i += 1;
    }
    if i >= m.len() {
        return AppVerdict::Silent("C18", "ssh-unterminated");
    }
    if m[i] != b'-' {
        return AppVerdict::Silent("C18", "ssh-bad-version");
    }
    i += 1;
    let rest = &m[i..];
    let end = rest.windows(2).position(|w| w == b"\r\n");
    match end {
        None => AppVerdict::Silent("C18", "ssh-unterminated"),
        Some(e) => {
            let body = &rest[..e];
            // software = up to first SP; comment = remainder
            let sp = body.iter().position(|b| *b == b' ');
            let (soft, comment) = match sp {
                Some(p) => (&body[..p], Some(&body[p + 1..])),
                None => (body, None),
            };
            if soft.is_empty() {
                return AppVerdict::Unspecified("ssh-empty-software".into());
            }
            if let Some(c) = comment {
                if c.is_empty() {
                    return AppVerdict::Unspecified("ssh-empty-comment".into());
                }
            }
            AppVerdict::Answer(Req::Ssh)
        }
    }
}

/* ------------------------------------------------------------------ Gh0st */

pub fn validate_ghost(r: &[u8]) -> Result<(), VErr> {
    if r.len() < 13 || &r[..5] != b"Gh0st" {
        return Err(("C18", "ghost-magic".into(), format!("Gh0st reply without magic/header: {}", hex(r))));
    }
    let total = u32::from_le_bytes([r[5], r[6], r[7], r[8]]) as usize;
    let ulen = u32::from_le_bytes([r[9], r[10], r[11], r[12]]) as usize;
    if total != r.len() {
        return Err(("C18", "ghost-total-length".into(), format!("Gh0st declared total length {} != frame length {}", total, r.len())));
    }
    use std::io::Read;
    let mut d = flate2::read::ZlibDecoder::new(&r[13..]);
    let mut out = Vec::new();
    match d.read_to_end(&mut out) {
        Err(e) => Err(("C18", "ghost-zlib".into(), format!("Gh0st body does not inflate: {}", e))),
        Ok(_) => {
            if out.len() != ulen {
                Err(("C18", "ghost-uncompressed-length".into(), format!("Gh0st declared uncompressed length {} but body inflates to {}", ulen, out.len())))
            } else if d.total_in() as usize != r.len() - 13 {
                Err(("C18", "ghost-trailing".into(), "bytes after the zlib stream".into()))
            } else {
                Ok(())
            }
        }
    }
}

/* ------------------------------------------------------------------ STUN */

/// A message whose leading bytes completed a STUN signature.
pub fn stun_verdict(m: &[u8], _ctx: &AppCtx) -> AppVerdict {
    if m.len() < 20 {
        return AppVerdict::Unspecified("stun-short-header".into());
    }
    let ty = u16::from_be_bytes([m[0], m[1]]);
    if ty != 0x0001 {
        if ty & 0x3fff == 0x0001 {
            // class request, method Binding, but the two most significant bits (zero in every
            // STUN message) set: neither a Binding request nor another class/method
            return AppVerdict::Unspecified("stun-top-bits-set".into());
        }
        return AppVerdict::Silent("C15", "stun-not-binding-request");
    }
    let len = u16::from_be_bytes([m[2], m[3]]) as usize;
    if len < m.len() - 20 {
        // bytes after the message the header delimits: not part of the request
        return match stun_verdict(&m[..20 + len], _ctx) {
            AppVerdict::Answer(r) => AppVerdict::IfAnswered(r, "stun-trailing-bytes".into()),
            _ => AppVerdict::Unspecified("stun-length-mismatch".into()),
        };
    }
    if len != m.len() - 20 {
        return AppVerdict::Unspecified("stun-length-mismatch".into());
    }
    // attributes: well-formed TLVs exactly filling the body
    let body = &m[20..];
    let mut i = 0;
    let mut change_ports = 0;
    let mut change_port = false;
    let mut oversize_mapped = false;
    while i < body.len() {
        if i + 4 > body.len() {
            return AppVerdict::Unspecified("stun-malformed-tlv".into());
        }
        let at = u16::from_be_bytes([body[i], body[i + 1]]);
        let al = u16::from_be_bytes([body[i + 2], body[i + 3]]) as usize;
        if i + 4 + al > body.len() {
            return AppVerdict::Unspecified("stun-malformed-tlv".into());
        }
        if al % 4 != 0 {
            return AppVerdict::Unspecified("stun-unpadded-attribute".into());
        }
        let v = &body[i + 4..i + 4 + al];
        match at {
            0x0003 => {
                if al != 4 {
                    if al >= 8 && al % 4 == 0 && i + 4 + al == body.len() && change_ports == 0 {
                        // an over-long CHANGE-REQUEST as last attribute: whether it is honoured is not
                        // settled, but nothing in its VALUE beyond the 4-byte flag word can ask for
                        // another port
                        let f = u32::from_be_bytes([body[i + 4], body[i + 5], body[i + 6], body[i + 7]]);
                        let mut id = [0u8; 16];
                        id.copy_from_slice(&m[4..20]);
                        if f & 2 == 0 {
                            return AppVerdict::IfAnswered(Req::Stun { id, change_port: false }, "stun-change-request-size".into());
                        }
                    }
                    return AppVerdict::Unspecified("stun-change-request-size".into());
                }
                // several CHANGE-REQUESTs: the response comes from the next port if ANY of them
                // carries the change-port flag (and only one port further: C03)
                change_ports += 1;
                change_port |= u32::from_be_bytes([v[0], v[1], v[2], v[3]]) & 2 != 0;
            }
            0x0001 => {
                // MAPPED-ADDRESS in a request: must at least be well-formed
                let ok = (al == 8 && v[1] == 1) || (al == 20 && v[1] == 2);
                if !ok {
                    // a value LONGER than the fixed layout of its family: whether such a request is
                    // answered is not settled, but the attribute is a well-formed TLV and the list
                    // is walked by its declared length - the surplus bytes are not attributes, and
                    // the attributes behind it are
                    if (al > 8 && v[1] == 1) || (al > 20 && v[1] == 2) {
                        oversize_mapped = true;
                    } else {
                        return AppVerdict::Unspecified("stun-malformed-mapped-address".into());
                    }
                }
            }
            _ => {}
        }
        i += 4 + al;
    }
    let _ = change_ports;
    let mut id = [0u8; 16];
    id.copy_from_slice(&m[4..20]);
    if oversize_mapped {
        return AppVerdict::IfAnswered(Req::Stun { id, change_port }, "stun-oversize-mapped-address".into());
    }
    AppVerdict::Answer(Req::Stun { id, change_port })
}

pub fn validate_stun(r: &[u8], id: &[u8; 16], ctx: &AppCtx) -> Result<(), VErr> {
    let e = |k: &str, w: String| -> Result<(), VErr> { Err(("C15", k.to_string(), w)) };
    if r.len() < 20 {
        return e("stun-short", format!("STUN response too short: {}", hex(r)));
    }
    let ty = u16::from_be_bytes([r[0], r[1]]);
    if ty != 0x0101 {
        return e("stun-type", format!("STUN response type {:#06x} != 0x0101", ty));
    }
    let len = u16::from_be_bytes([r[2], r[3]]) as usize;
    if len != r.len() - 20 {
        return e("stun-length", format!("STUN message length {} != attribute bytes {}", len, r.len() - 20));
    }
    if &r[4..20] != id {
        return e("stun-id", format!("transaction id {} != request's {}", hex(&r[4..20]), hex(id)));
    }
    let body = &r[20..];
    let mut i = 0;
    let mut mapped = 0;
    while i < body.len() {
        if i + 4 > body.len() {
            return e("stun-tlv", "truncated attribute header".into());
        }
        let at = u16::from_be_bytes([body[i], body[i + 1]]);
        let al = u16::from_be_bytes([body[i + 2], body[i + 3]]) as usize;
        if i + 4 + al > body.len() {
            return e("stun-tlv", "attribute overruns message".into());
        }
        let v = &body[i + 4..i + 4 + al];
        if at == 0x0001 {
            mapped += 1;
            let want_fam = if ctx.cip.is_v4() { 1 } else { 2 };
            let ipb = ctx.cip.bytes();
            if al != 4 + ipb.len() || v[0] != 0 || v[1] != want_fam {
                return e("stun-mapped-family", format!("MAPPED-ADDRESS family/length wrong: {}", hex(v)));
            }
            let port = u16::from_be_bytes([v[2], v[3]]);
            if port != ctx.cport {
                return e("stun-mapped-port", format!("MAPPED-ADDRESS port {} != source port {}", port, ctx.cport));
            }
            if v[4..] != ipb[..] {
                return e("stun-mapped-addr", format!("MAPPED-ADDRESS address {} != source {}", hex(&v[4..]), ctx.cip));
            }
        }
        i += 4 + al;
    }
    if mapped != 1 {
        return e("stun-mapped-count", format!("{} MAPPED-ADDRESS attributes", mapped));
    }
    Ok(())
}

#[cfg(test)]
mod tests {
    use super::*;
    #[test]
    fn http() {
        assert_eq!(http_status(b"GET / HTTP/1.1\r\n\r\n"), HttpStatus::Complete(17));
        assert_eq!(http_status(b"GET / HTTP/1.1\n\n"), HttpStatus::Complete(15));
        assert_eq!(http_status(b"GET / HTTP/1.1\r\nHost: x\r\n\r\nbody"), HttpStatus::Complete(26));
        assert_eq!(http_status(b"GET / HTTP/1.1\r\nHost: x\r\n"), HttpStatus::Incomplete);
        assert_eq!(http_status(b"GET / HTTP/1.1\r\nHost x\r\n\r\n"), HttpStatus::Invalid("http-header-without-colon"));
        assert_eq!(http_status(b"GEX / HTTP/1.1\r\n\r\n"), HttpStatus::Invalid("http-unknown-method"));
        assert_eq!(http_status(b"GET  / HTTP/1.1\r\n\r\n"), HttpStatus::Invalid("http-empty-target"));
        assert_eq!(http_status(b"GET / HTTX/1.1\r\n\r\n"), HttpStatus::Invalid("http-bad-version-literal"));
        assert_eq!(http_status(b"GET / HTTP/1.a\r\n\r\n"), HttpStatus::Invalid("http-bad-version"));
        assert_eq!(http_status(b"GE"), HttpStatus::Incomplete);
    }
    #[test]
    fn ssh() {
        assert!(matches!(ssh_verdict(b"SSH-2.0-x\r\n"), AppVerdict::Answer(_)));
        assert!(matches!(ssh_verdict(b"SSH-2.0-x y\rz\r\n"), AppVerdict::Answer(_)));
        assert!(matches!(ssh_verdict(b"SSH-2.0-x\n"), AppVerdict::Silent(..)));
        assert!(matches!(ssh_verdict(b"SSH-2.0a-x\r\n"), AppVerdict::Silent(..)));
    }
}
