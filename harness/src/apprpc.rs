//! ONC-RPC / portmapper reference (C16): independent XDR reader, verdicts and validator.

use crate::app::{AppCtx, AppVerdict, Req, VErr};
use crate::wire::hex;

#[derive(Clone, Debug)]
pub struct RpcCall {
    pub xid: u32,
    pub rpcvers: u32,
    pub prog: u32,
    pub vers: u32,
    pub proc_: u32,
    pub tcp: bool,
}

fn be32(b: &[u8], i: usize) -> u32 {
    u32::from_be_bytes([b[i], b[i + 1], b[i + 2], b[i + 3]])
}

#[derive(Debug)]
enum Parse {
    /// (call, index of last byte of the verifier length word, index of last byte of the call)
    Complete(RpcCall, usize, usize),
    Incomplete,
    Unspec(&'static str),
}

/// Parse a call body starting at `off` (after the record mark for TCP).
fn parse_call(m: &[u8], off: usize, tcp: bool) -> Parse {
    let need = |n: usize| m.len() >= off + n;
    if !need(24) {
        return Parse::Incomplete;
    }
    let xid = be32(m, off);
    let mtype = be32(m, off + 4);
    let rpcvers = be32(m, off + 8);
    let prog = be32(m, off + 12);
    let vers = be32(m, off + 16);
    let proc_ = be32(m, off + 20);
    if mtype != 0 {
        return Parse::Unspec("rpc-not-a-call");
    }
    if !need(32) {
        return Parse::Incomplete;
    }
    let clen = be32(m, off + 28) as usize;
    if clen > 400 {
        return Parse::Unspec("rpc-oversized-credentials");
    }
    if clen % 4 != 0 {
        return Parse::Unspec("rpc-unpadded-credentials");
    }
    if !need(32 + clen + 8) {
        return Parse::Incomplete;
    }
    let vlen = be32(m, off + 32 + clen + 4) as usize;
    if vlen > 400 {
        return Parse::Unspec("rpc-oversized-verifier");
    }
    if vlen % 4 != 0 {
        return Parse::Unspec("rpc-unpadded-verifier");
    }
    let lo = off + 32 + clen + 8 - 1;
    let hi = lo + vlen;
    Parse::Complete(
        RpcCall {
            xid,
            rpcvers,
            prog,
            vers,
            proc_,
            tcp,
        },
        lo,
        hi,
    )
}

fn in_range(c: &RpcCall) -> bool {
    (99840..=100095).contains(&c.prog)
}

pub fn verdict_udp(m: &[u8], _ctx: &AppCtx) -> AppVerdict {
    match parse_call(m, 0, false) {
        Parse::Complete(c, _lo, hi) => {
            if m.len() <= hi {
                // verifier body not (entirely) present
                return AppVerdict::Unspecified("rpc-truncated-verifier".into());
            }
            if !in_range(&c) {
                return AppVerdict::Unspecified("rpc-program-out-of-range".into());
            }
            AppVerdict::Answer(Req::Rpc(c))
        }
        Parse::Incomplete => AppVerdict::Silent("C16", "rpc-truncated"),
        Parse::Unspec(w) => AppVerdict::Unspecified(w.into()),
    }
}

/// A whole record-marked call in one message (datagram or first TCP segment).
pub fn verdict_tcp_whole(m: &[u8], ctx: &AppCtx) -> AppVerdict {
    verdict_tcp_stream(m, 0, ctx)
}

/// Stream verdict: `stream` is everything received so far, the current segment starts at
/// `before`.  The reply must be triggered by the segment that completes the call.
pub fn verdict_tcp_stream(stream: &[u8], before: usize, _ctx: &AppCtx) -> AppVerdict {
    if stream.len() < 4 {
        return AppVerdict::Silent("C11", "rpc-incomplete");
    }
    // record marking (RFC 5531 section 11): the call is the concatenation of the fragments up to
    // and including the one with the last-fragment bit
    let mut payload: Vec<u8> = Vec::new();
    let mut idx: Vec<usize> = Vec::new();
    let mut i = 0usize;
    let mut record_over = false;
    while i + 4 <= stream.len() && !record_over {
        let mark = be32(stream, i);
        let flen = (mark & 0x7fff_ffff) as usize;
        let last = mark >> 31 == 1;
        if flen == 0 && !last {
            return AppVerdict::Unspecified("rpc-empty-fragment".into());
        }
        let avail = (stream.len() - (i + 4)).min(flen);
        for k in 0..avail {
            payload.push(stream[i + 4 + k]);
            idx.push(i + 4 + k);
        }
        if avail < flen {
            break;
        }
        i += 4 + flen;
        record_over = last;
    }
    match parse_call(&payload, 0, true) {
        Parse::Incomplete => {
            if record_over {
                // the record ended before the call did
                return AppVerdict::Unspecified("rpc-call-exceeds-record".into());
            }
            AppVerdict::Silent("C11", "rpc-incomplete")
        }
        Parse::Unspec(w) => AppVerdict::Unspecified(w.into()),
        Parse::Complete(c, lo, hi) => {
            // payload indices -> stream indices
            let lo = idx[lo];
            let hi_present = payload.len() > hi;
            let hi = if hi_present { idx[hi] } else { usize::MAX };
            let _ = hi_present;
            if !in_range(&c) {
                return AppVerdict::Unspecified("rpc-program-out-of-range".into());
            }
            if lo == hi {
                // no verifier body: completion point is unambiguous
                if lo >= before {
                    AppVerdict::Answer(Req::Rpc(c))
                } else {
                    AppVerdict::Unspecified("after completion".into())
                }
            } else {
                // verifier body present: the statement does not say whether the call is
                // complete before or after it
                if hi != usize::MAX && stream.len() > hi && before <= lo {
                    AppVerdict::Answer(Req::Rpc(c))
                } else {
                    AppVerdict::Unspecified("rpc-cut-around-verifier-body".into())
                }
            }
        }
    }
}

struct Xdr<'a> {
    b: &'a [u8],
    i: usize,
}

impl<'a> Xdr<'a> {
    fn u32(&mut self) -> Result<u32, String> {
        if self.i + 4 > self.b.len() {
            return Err(format!("XDR: truncated at {}", self.i));
        }
        let v = be32(self.b, self.i);
        self.i += 4;
        Ok(v)
    }
    fn string(&mut self) -> Result<Vec<u8>, String> {
        let n = self.u32()? as usize;
        let padded = (n + 3) / 4 * 4;
        if self.i + padded > self.b.len() {
            return Err(format!("XDR: string of {} bytes overruns reply", n));
        }
        let s = self.b[self.i..self.i + n].to_vec();
        if self.b[self.i + n..self.i + padded].iter().any(|x| *x != 0) {
            return Err("XDR: non-zero string padding".into());
        }
        self.i += padded;
        Ok(s)
    }
    fn done(&self) -> bool {
        self.i == self.b.len()
    }
}

pub fn universal_addr(ctx: &AppCtx) -> String {
    format!("{}.{}.{}", ctx.sip, ctx.sport >> 8, ctx.sport & 0xff)
}

pub fn validate(c: &RpcCall, r: &[u8], ctx: &AppCtx) -> Result<(), VErr> {
    let e = |k: &str, w: String| -> Result<(), VErr> { Err(("C16", k.to_string(), w)) };
    let body: &[u8] = if c.tcp {
        if r.len() < 4 {
            return e("rpc-short", format!("reply too short: {}", hex(r)));
        }
        let mark = be32(r, 0);
        if mark & 0x8000_0000 == 0 {
            return e("rpc-record-mark", "last-fragment bit not set".into());
        }
        if (mark & 0x7fff_ffff) as usize != r.len() - 4 {
            return e(
                "rpc-record-mark",
                format!("record mark length {} != reply length {}", mark & 0x7fff_ffff, r.len() - 4),
            );
        }
        &r[4..]
    } else {
        r
    };
    if body.len() % 4 != 0 {
        return e("rpc-alignment", format!("reply length {} not 4-byte aligned", body.len()));
    }
    let mut x = Xdr { b: body, i: 0 };
    let res: Result<(), (String, String)> = (|| {
        let g = |s: String| ("rpc-xdr".to_string(), s);
        let xid = x.u32().map_err(g)?;
        if xid != c.xid {
            return Err(("rpc-xid".into(), format!("reply XID {:#x} != call XID {:#x}", xid, c.xid)));
        }
        if x.u32().map_err(g)? != 1 {
            return Err(("rpc-msgtype".into(), "message type is not REPLY".into()));
        }
        if x.u32().map_err(g)? != 0 {
            return Err(("rpc-reply-stat".into(), "reply is not MSG_ACCEPTED".into()));
        }
        let vf = x.u32().map_err(g)?;
        let vl = x.u32().map_err(g)?;
        if vf != 0 || vl != 0 {
            return Err(("rpc-verifier".into(), format!("verifier flavour {} length {} is not null", vf, vl)));
        }
        let stat = x.u32().map_err(g)?;
        let want_stat;
        if c.vers < 2 || c.vers > 4 {
            want_stat = 2;
            if stat == 2 {
                let lo = x.u32().map_err(g)?;
                let hi = x.u32().map_err(g)?;
                if lo != 2 || hi != 4 {
                    return Err(("rpc-mismatch-range".into(), format!("PROG_MISMATCH({},{}) != (2,4)", lo, hi)));
                }
            }
        } else if c.proc_ == 0 {
            want_stat = 0;
        } else if c.prog == 100000 {
            match c.proc_ {
                3 => {
                    want_stat = 0;
                    if stat == 0 {
                        if c.vers == 2 {
                            let port = x.u32().map_err(g)?;
                            if port != ctx.sport as u32 {
                                return Err(("rpc-getport".into(), format!("GETPORT answers {} but the client contacted port {}", port, ctx.sport)));
                            }
                        } else {
                            let s = x.string().map_err(g)?;
                            let want = universal_addr(ctx);
                            if s != want.as_bytes() {
                                return Err((
                                    "rpc-getaddr".into(),
                                    format!("GETADDR answers '{}' but the client contacted '{}'", String::from_utf8_lossy(&s), want),
                                ));
                            }
                        }
                    }
                }
                4 => {
                    want_stat = 0;
                    if stat == 0 {
                        let mut entries = 0;
                        loop {
                            let more = x.u32().map_err(g)?;
                            if more == 0 {
                                break;
                            }
                            if more != 1 {
                                return Err(("rpc-dump-list".into(), format!("bad value-follows marker {}", more)));
                            }
                            entries += 1;
                            let _prog = x.u32().map_err(g)?;
                            let _vers = x.u32().map_err(g)?;
                            if c.vers == 2 {
                                let prot = x.u32().map_err(g)?;
                                let port = x.u32().map_err(g)?;
                                // a version-2 mapping names its endpoint as (protocol, port): a protocol
                                // that is neither TCP (6) nor UDP (17) advertises no endpoint at all
                                if prot != 6 && prot != 17 {
                                    return Err(("rpc-dump-prot".into(), format!("DUMP mapping names protocol {} (neither TCP 6 nor UDP 17)", prot)));
                                }
                                if port != ctx.sport as u32 {
                                    return Err(("rpc-dump-port".into(), format!("DUMP advertises port {} but the client contacted {}", port, ctx.sport)));
                                }
                            } else {
                                let netid = x.string().map_err(g)?;
                                let addr = x.string().map_err(g)?;
                                let _owner = x.string().map_err(g)?;
                                let v6 = !ctx.sip.is_v4();
                                let netid_s = String::from_utf8_lossy(&netid).to_string();
                                let is6 = netid_s.ends_with('6');
                                if !(netid_s == "tcp" || netid_s == "udp" || netid_s == "tcp6" || netid_s == "udp6") || is6 != v6 {
                                    return Err(("rpc-dump-netid".into(), format!("DUMP netid '{}' does not match IP version", netid_s)));
                                }
                                let want = universal_addr(ctx);
                                if addr != want.as_bytes() {
                                    return Err((
                                        "rpc-dump-addr".into(),
                                        format!("DUMP advertises '{}' but the client contacted '{}'", String::from_utf8_lossy(&addr), want),
                                    ));
                                }
                            }
                        }
                        if entries == 0 {
                            return Err(("rpc-dump-empty".into(), "DUMP advertises nothing".into()));
                        }
                    }
                }
                _ => want_stat = 5,
            }
        } else {
            want_stat = 1;
        }
        if stat != want_stat {
            return Err((
                "rpc-accept-stat".into(),
                format!("accept_stat {} (want {}) for prog={} vers={} proc={}", stat, want_stat, c.prog, c.vers, c.proc_),
            ));
        }
        if !x.done() {
            return Err(("rpc-trailing".into(), format!("{} unexpected trailing bytes", x.b.len() - x.i)));
        }
        Ok(())
    })();
    match res {
        Ok(()) => Ok(()),
        Err((k, w)) => e(&k, w),
    }
}

/// Build a call (body only, no record mark).
pub fn build_call(xid: u32, rpcvers: u32, prog: u32, vers: u32, proc_: u32, cred: &[u8], verf: &[u8]) -> Vec<u8> {
    let mut v = Vec::new();
    for w in [xid, 0, rpcvers, prog, vers, proc_] {
        v.extend_from_slice(&w.to_be_bytes());
    }
    v.extend_from_slice(&0u32.to_be_bytes());
    v.extend_from_slice(&(cred.len() as u32).to_be_bytes());
    v.extend_from_slice(cred);
    v.extend_from_slice(&0u32.to_be_bytes());
    v.extend_from_slice(&(verf.len() as u32).to_be_bytes());
    v.extend_from_slice(verf);
    v
}

/// A call whose credential and verifier carry the given authentication flavors.
pub fn build_call_flavors(xid: u32, prog: u32, vers: u32, proc_: u32, cflavor: u32, cred: &[u8], vflavor: u32, verf: &[u8]) -> Vec<u8> {
    let mut v = build_call(xid, 2, prog, vers, proc_, cred, verf);
    v[24..28].copy_from_slice(&cflavor.to_be_bytes());
    let o = 32 + cred.len();
    v[o..o + 4].copy_from_slice(&vflavor.to_be_bytes());
    v
}

/// The call split into record fragments at the given payload offsets (last one marked last).
pub fn with_fragments(body: &[u8], cuts: &[usize]) -> Vec<u8> {
    let mut v = Vec::new();
    let mut start = 0usize;
    let mut pts: Vec<usize> = cuts.to_vec();
    pts.push(body.len());
    for (k, e) in pts.iter().enumerate() {
        let last = k + 1 == pts.len();
        let n = (*e - start) as u32;
        v.extend_from_slice(&(n | if last { 0x8000_0000 } else { 0 }).to_be_bytes());
        v.extend_from_slice(&body[start..*e]);
        start = *e;
    }
    v
}

pub fn with_record_mark(body: &[u8]) -> Vec<u8> {
    let mut v = (0x8000_0000u32 | body.len() as u32).to_be_bytes().to_vec();
    v.extend_from_slice(body);
    v
}
