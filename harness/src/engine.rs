//! Exploration engines: parallel enumeration of finite spaces over driver processes,
//! violation collection (deterministic: the minimal index per key is kept), evidence.

use std::collections::{BTreeMap, BTreeSet};
use std::sync::atomic::{AtomicBool, AtomicU64, Ordering};
use std::sync::Mutex;
use std::time::Instant;

use serde_json::{json, Value};

use crate::driver::{Cfg, Cmd, Driver, DriverErr, Out};
use crate::model::{Finding, Model, ModelTable};
use crate::wire::hex;

#[derive(Clone, Debug)]
pub struct Violation {
    pub prop: String,
    pub key: String,
    pub what: String,
    pub cfg: Cfg,
    /// commands that reproduce it on a fresh driver (last command is the offending one)
    pub cmds: Vec<Cmd>,
    /// enumeration index (for deterministic selection of the representative)
    pub idx: u64,
    pub stage: String,
}

#[derive(Default)]
pub struct Sink {
    /// (prop,key) -> representative with minimal (stage, idx)
    pub violations: BTreeMap<(String, String), Violation>,
    pub vcount: BTreeMap<(String, String), u64>,
    pub counters: BTreeMap<String, u64>,
    pub classes: BTreeSet<String>,
    pub samples: Vec<Value>,
    pub machinery_errors: Vec<String>,
}

impl Sink {
    pub fn new() -> Sink {
        Sink::default()
    }
    pub fn count(&mut self, k: &str, n: u64) {
        *self.counters.entry(k.to_string()).or_insert(0) += n;
    }
    pub fn class(&mut self, c: &str) {
        if !self.classes.contains(c) {
            self.classes.insert(c.to_string());
        }
    }
    pub fn sample(&mut self, v: Value) {
        if self.samples.len() < 6 {
            self.samples.push(v);
        }
    }
    pub fn violation(&mut self, v: Violation) {
        let k = (v.prop.clone(), v.key.clone());
        *self.vcount.entry(k.clone()).or_insert(0) += 1;
        match self.violations.get(&k) {
            Some(old) if (old.stage.as_str(), old.idx) <= (v.stage.as_str(), v.idx) => {}
            _ => {
                self.violations.insert(k, v);
            }
        }
    }
    pub fn merge(&mut self, other: Sink) {
        for (_, v) in other.violations {
            let k = (v.prop.clone(), v.key.clone());
            match self.violations.get(&k) {
                Some(old) if (old.stage.as_str(), old.idx) <= (v.stage.as_str(), v.idx) => {}
                _ => {
                    self.violations.insert(k, v);
                }
            }
        }
        for (k, n) in other.vcount {
            *self.vcount.entry(k).or_insert(0) += n;
        }
        for (k, n) in other.counters {
            *self.counters.entry(k).or_insert(0) += n;
        }
        for c in other.classes {
            self.classes.insert(c);
        }
        for s in other.samples {
            if self.samples.len() < 6 {
                self.samples.push(s);
            }
        }
        self.machinery_errors.extend(other.machinery_errors);
    }
}

pub fn nworkers() -> usize {
    std::env::var("MCX_WORKERS")
        .ok()
        .and_then(|s| s.parse().ok())
        .unwrap_or_else(|| std::thread::available_parallelism().map(|n| n.get()).unwrap_or(8).min(16))
}

/// What the per-item checker sees.
pub struct Item<'a> {
    pub idx: u64,
    pub cmds: &'a [Cmd],
    pub outs: &'a [Out],
}

pub struct RunOpts {
    pub stage: String,
    /// items per driver batch
    pub chunk: u64,
    /// apply the always-on monitor (model judgement with a fresh table per item) to frames
    pub monitor: bool,
    /// items are stateless single frames: no Reset is inserted between items
    pub stateless: bool,
    /// worker (driver process) count override
    pub workers: Option<usize>,
}

impl RunOpts {
    pub fn new(stage: &str) -> RunOpts {
        RunOpts {
            stage: stage.to_string(),
            chunk: 512,
            monitor: true,
            stateless: true,
            workers: None,
        }
    }
    pub fn workers(mut self, n: usize) -> RunOpts {
        self.workers = Some(n);
        self
    }
    pub fn stateful(mut self) -> RunOpts {
        self.stateless = false;
        self.chunk = 32;
        self
    }
    pub fn chunk(mut self, c: u64) -> RunOpts {
        self.chunk = c;
        self
    }
    pub fn no_monitor(mut self) -> RunOpts {
        self.monitor = false;
        self
    }
}

/// Enumerate items 0..total.  `gen(idx)` gives the commands of item idx (for stateful items the
/// engine prepends a Reset).  `check` sees the observations.  Every Frame observation also goes
/// through the C01 oracle (no panic, process alive, watchdog) and — with `monitor` — through the
/// reference model with a fresh connection table per item.
pub fn run<G, C>(cfg: &Cfg, total: u64, opts: &RunOpts, gen: G, check: C, sink: &mut Sink)
where
    G: Fn(u64) -> Vec<Cmd> + Sync,
    C: Fn(&Item, &mut Sink) + Sync,
{
    let next = AtomicU64::new(0);
    let abort = AtomicBool::new(false);
    let merged = Mutex::new(Sink::new());
    let nw = opts.workers.unwrap_or_else(nworkers).min(((total + opts.chunk - 1) / opts.chunk).max(1) as usize);
    std::thread::scope(|s| {
        for _ in 0..nw {
            s.spawn(|| {
                let model = Model::new();
                let mut local = Sink::new();
                let mut drv = match Driver::spawn(cfg) {
                    Ok(d) => d,
                    Err(e) => {
                        local.machinery_errors.push(e);
                        abort.store(true, Ordering::SeqCst);
                        merged.lock().unwrap().merge(local);
                        return;
                    }
                };
                loop {
                    if abort.load(Ordering::SeqCst) {
                        break;
                    }
                    let start = next.fetch_add(opts.chunk, Ordering::SeqCst);
                    if start >= total {
                        break;
                    }
                    let end = (start + opts.chunk).min(total);
                    // generate
                    let mut batch: Vec<Cmd> = Vec::new();
                    let mut spans: Vec<(u64, usize, usize)> = Vec::new();
                    for idx in start..end {
                        let mut cmds = gen(idx);
                        if !opts.stateless {
                            cmds.insert(0, Cmd::Reset);
                        }
                        let a = batch.len();
                        batch.extend(cmds);
                        spans.push((idx, a, batch.len()));
                    }
                    let outs = exec_resilient(cfg, &mut drv, &batch, &opts.stage, start, &mut local);
                    let outs = match outs {
                        Some(o) => o,
                        None => {
                            abort.store(true, Ordering::SeqCst);
                            break;
                        }
                    };
                    for (idx, a, b) in spans {
                        let item = Item {
                            idx,
                            cmds: &batch[a..b],
                            outs: &outs[a..b],
                        };
                        base_oracles(cfg, &model, &item, opts, &mut local);
                        check(&item, &mut local);
                    }
                }
                merged.lock().unwrap().merge(local);
            });
        }
    });
    sink.merge(merged.into_inner().unwrap());
}

/// Execute a batch; if the driver dies or hangs, attribute it (C01), restart, and continue
/// with the rest of the batch.  Returns None on machinery failure.
fn exec_resilient(
    cfg: &Cfg,
    drv: &mut Driver,
    batch: &[Cmd],
    stage: &str,
    idx0: u64,
    sink: &mut Sink,
) -> Option<Vec<Out>> {
    let mut outs: Vec<Out> = Vec::with_capacity(batch.len());
    let mut off = 0;
    let mut restarts = 0;
    while off < batch.len() {
        match drv.exec(&batch[off..]) {
            Ok(o) => {
                outs.extend(o);
                // a panic may have poisoned the table lock: clear it so that later items are
                // still meaningful (the panic itself is reported by the C01 oracle)
                if outs[off..].iter().any(|x| x.panicked) {
                    let _ = drv.one(Cmd::Reset);
                }
                off = batch.len();
            }
            Err(DriverErr::Died(i, part)) | Err(DriverErr::Timeout(i, part)) => {
                let died_at = off + i;
                outs.extend(part);
                // context: the commands since the last reset (bounded)
                let mut ctx_start = died_at;
                while ctx_start > 0 && died_at - ctx_start < 64 && !matches!(batch[ctx_start], Cmd::Reset) {
                    ctx_start -= 1;
                }
                sink.violation(Violation {
                    prop: "C01".into(),
                    key: "process-died-or-hung".into(),
                    what: format!("driver process died or stopped answering on {:?}", batch[died_at]),
                    cfg: cfg.clone(),
                    cmds: batch[ctx_start..=died_at].to_vec(),
                    idx: idx0,
                    stage: stage.to_string(),
                });
                outs.push(Out {
                    panicked: true,
                    text: "process died or hung".into(),
                    ..Default::default()
                });
                off = died_at + 1;
                restarts += 1;
                if restarts > 50 {
                    sink.machinery_errors.push("driver restarted more than 50 times in one batch".into());
                    return None;
                }
                match Driver::spawn(cfg) {
                    Ok(d) => *drv = d,
                    Err(e) => {
                        sink.machinery_errors.push(e);
                        return None;
                    }
                }
            }
            Err(DriverErr::Protocol(e)) => {
                sink.machinery_errors.push(format!("driver protocol error: {}", e));
                return None;
            }
        }
    }
    Some(outs)
}

/// Judge all frames of an item with the reference model (connection table seeded with the
/// given learned cookies, reset at every Reset command); findings go to the sink.  Returns the
/// model table after the last command and, per command, whether a reply was produced.
pub fn judge_item(
    cfg: &Cfg,
    model: &Model,
    seed: &std::collections::HashMap<crate::model::FlowKey, u32>,
    item: &Item,
    upto: usize,
    stage: &str,
    sink: &mut Sink,
) -> ModelTable {
    let fresh = || {
        let mut t = ModelTable::new();
        t.cookies = seed.clone();
        t
    };
    let mut tbl = fresh();
    for (k, (c, o)) in item.cmds.iter().zip(item.outs.iter()).enumerate().take(upto) {
        match c {
            Cmd::Reset => tbl = fresh(),
            Cmd::Frame(f) => {
                // a panic is reported by the C01 oracle; for the functional properties it is
                // a frame that got no reply
                let j = model.judge_out(cfg, &mut tbl, f, o);
                if !sink.classes.contains(&j.class) {
                    sink.class(&j.class);
                    sink.sample(sample_frame(cfg, f, o.reply.as_deref(), &j.class));
                }
                if j.abstained.is_some() {
                    sink.count("abstained", 1);
                }
                for fd in j.findings {
                    push_finding(sink, cfg, &fd, item, k, stage);
                }
            }
            _ => {}
        }
    }
    tbl
}

/// C01 on every command; model monitor on every frame (fresh reference table per item).
fn base_oracles(cfg: &Cfg, model: &Model, item: &Item, opts: &RunOpts, sink: &mut Sink) {
    let mut tbl = ModelTable::new();
    for (k, (c, o)) in item.cmds.iter().zip(item.outs.iter()).enumerate() {
        if let Cmd::Frame(f) = c {
            sink.count("frames", 1);
            if o.panicked {
                let site = panic_site(&o.text);
                sink.violation(Violation {
                    prop: "C01".into(),
                    key: format!("panic:{}", site),
                    what: format!("reply() panicked: {}", o.text),
                    cfg: cfg.clone(),
                    cmds: item.cmds[..=k].to_vec(),
                    idx: item.idx,
                    stage: opts.stage.clone(),
                });
            }
            if opts.monitor {
                // stateless items: only the invariants part is meaningful for TCP data, the
                // model abstains when the cookie is unknown.
                let j = if opts.stateless {
                    model.judge(cfg, &mut tbl, f, o.reply.as_deref())
                } else {
                    model.judge_out(cfg, &mut tbl, f, o)
                };
                if !sink.classes.contains(&j.class) {
                    sink.class(&j.class);
                    sink.sample(sample_frame(cfg, f, o.reply.as_deref(), &j.class));
                }
                if j.abstained.is_some() {
                    sink.count("abstained", 1);
                }
                if o.reply.is_some() {
                    sink.count("replies", 1);
                }
                for fd in j.findings {
                    push_finding(sink, cfg, &fd, item, k, &opts.stage);
                }
            }
        } else if let Cmd::Reset = c {
            tbl = ModelTable::new();
        }
    }
}

pub fn push_finding(sink: &mut Sink, cfg: &Cfg, fd: &Finding, item: &Item, k: usize, stage: &str) {
    // C07's quantifier: on every transition of the connection search "the reply (or silence) equals
    // that of the reference connection model"; an application-level mismatch on a TCP data segment
    // there (answered / not answered against the model's stream state) is therefore also reported
    // under C07 (matcher events of the listed finding D12 keep their own keys)
    if stage.starts_with("bfs-c07") && fd.prop != "C07" && (fd.key.starts_with("tcp-answered:") || fd.key.starts_with("unanswered:")) {
        sink.violation(Violation {
            prop: "C07".into(),
            key: format!("connection-model:{}", fd.key),
            what: format!("reply differs from the reference connection model: {}", fd.what),
            cfg: cfg.clone(),
            cmds: item.cmds[..=k].to_vec(),
            idx: item.idx,
            stage: stage.to_string(),
        });
    }
    sink.violation(Violation {
        prop: fd.prop.to_string(),
        key: fd.key.clone(),
        what: fd.what.clone(),
        cfg: cfg.clone(),
        cmds: item.cmds[..=k].to_vec(),
        idx: item.idx,
        stage: stage.to_string(),
    });
}

/// "msg @ file:line" -> "file:line"
pub fn panic_site(text: &str) -> String {
    match text.rfind(" @ ") {
        Some(p) => {
            let loc = &text[p + 3..];
            // registry paths: keep crate-relative tail
            match loc.rfind("/src/") {
                Some(q) if loc.contains(".cargo") => {
                    let head = &loc[..q];
                    let krate = head.rsplit('/').next().unwrap_or("");
                    format!("{}{}", krate, &loc[q..])
                }
                _ => loc.to_string(),
            }
        }
        None => "unknown".to_string(),
    }
}

/* ------------------------------------------------------------------ mixed radix */

/// Mixed-radix decomposition of `idx` over `dims` (first dimension varies slowest).
pub fn unrank(mut idx: u64, dims: &[u64]) -> Vec<u64> {
    let mut out = vec![0; dims.len()];
    for i in (0..dims.len()).rev() {
        out[i] = idx % dims[i];
        idx /= dims[i];
    }
    out
}

pub fn product(dims: &[u64]) -> u64 {
    dims.iter().product()
}

/* ------------------------------------------------------------------ reporting */

pub struct Report {
    pub prop: String,
    pub tier: String,
    pub started: Instant,
    pub sink: Sink,
    pub stages: Vec<Value>,
    pub states: u64,
    pub transitions: u64,
    pub exhaustive: bool,
    pub caps_hit: Vec<String>,
    pub rule: String,
    pub assumptions: Vec<String>,
    pub extra: BTreeMap<String, Value>,
    pub quiet: bool,
    /// running another property's stages as part of a union (quick tier: main configurations only)
    pub secondary: bool,
}

impl Report {
    pub fn new(prop: &str, tier: &str) -> Report {
        Report {
            prop: prop.to_string(),
            tier: tier.to_string(),
            started: Instant::now(),
            sink: Sink::new(),
            stages: vec![],
            states: 0,
            transitions: 0,
            exhaustive: true,
            caps_hit: vec![],
            rule: String::new(),
            assumptions: vec![],
            extra: BTreeMap::new(),
            quiet: false,
            secondary: false,
        }
    }
    pub fn stages_len(&self) -> usize {
        self.stages.len()
    }
    /// prefix the names of the stages recorded since `from`
    pub fn prefix_stages(&mut self, from: usize, prefix: &str) {
        for st in self.stages.iter_mut().skip(from) {
            if let Some(n) = st.get("stage").and_then(|x| x.as_str()).map(|x| x.to_string()) {
                st["stage"] = json!(format!("{}{}", prefix, n));
            }
        }
    }
    /// record a completed stage (a finite space enumerated completely)
    pub fn stage(&mut self, name: &str, space: &str, size: u64, t0: Instant) {
        self.stages.push(json!({
            "stage": name,
            "space": space,
            "size": size,
            "complete": true,
            "wall_s": (t0.elapsed().as_secs_f64() * 100.0).round() / 100.0,
        }));
        if !self.quiet {
            eprintln!("[{}] stage {} : {} items in {:.1}s", self.prop, name, size, t0.elapsed().as_secs_f64());
        }
    }
}

pub fn sample_frame(cfg: &Cfg, frame: &[u8], reply: Option<&[u8]>, verdict: &str) -> Value {
    json!({
        "cfg": cfg.describe(),
        "frame": hex(frame),
        "reply": reply.map(hex),
        "verdict": verdict,
    })
}

/// Execute a list of stateless commands in parallel slices; observations returned in order.
/// (C01 oracle and monitor are applied as in `run`.)
pub fn map_cmds(cfg: &Cfg, cmds: &[Cmd], stage: &str, monitor: bool, sink: &mut Sink) -> Vec<Out> {
    let results: Mutex<BTreeMap<u64, Vec<Out>>> = Mutex::new(BTreeMap::new());
    let chunk: u64 = 2048;
    let total = cmds.len() as u64;
    let nchunks = (total + chunk - 1) / chunk;
    let mut opts = RunOpts::new(stage).chunk(1);
    opts.monitor = false;
    let mon_opts = RunOpts {
        stage: stage.to_string(),
        chunk: 1,
        monitor,
        stateless: true,
        workers: None,
    };
    let model_holder = Model::new();
    let _ = &model_holder;
    run(
        cfg,
        nchunks,
        &opts,
        |ci| {
            let a = (ci * chunk) as usize;
            let b = ((ci + 1) * chunk).min(total) as usize;
            cmds[a..b].to_vec()
        },
        |it: &Item, s: &mut Sink| {
            if monitor {
                let model = Model::new();
                for (k, (c, o)) in it.cmds.iter().zip(it.outs.iter()).enumerate() {
                    if let Cmd::Frame(f) = c {
                        if o.panicked {
                            continue;
                        }
                        let mut tbl = ModelTable::new();
                        let j = model.judge(cfg, &mut tbl, f, o.reply.as_deref());
                        s.class(&j.class);
                        for fd in j.findings {
                            let single = Item { idx: it.idx * chunk + k as u64, cmds: &it.cmds[k..=k], outs: &it.outs[k..=k] };
                            push_finding(s, cfg, &fd, &single, 0, &mon_opts.stage);
                        }
                    }
                }
            }
            results.lock().unwrap().insert(it.idx, it.outs.to_vec());
        },
        sink,
    );
    let mut out = Vec::with_capacity(cmds.len());
    for (_, v) in results.into_inner().unwrap() {
        out.extend(v);
    }
    out
}
