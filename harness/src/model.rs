//! Reference model of the responder for layers 2-4 plus the connection model, written from
//! the property statements.  `judge()` compares one observed (frame, reply) pair with what the
//! statements require and returns findings tagged with the property whose clause is violated.
//!
//! Three-valued: where the statements do not decide, the model abstains (and says so).

use std::collections::{BTreeMap, HashMap, HashSet};

use crate::app::{self, AppCtx, AppVerdict, Transport};
use crate::driver::Cfg;
use crate::sig::{self, Dispatch, Proto, Sig};
use crate::wire::*;

#[derive(Clone, Debug, PartialEq, Eq)]
pub struct Finding {
    pub prop: &'static str,
    /// stable key (used for known-finding matching and de-duplication)
    pub key: String,
    pub what: String,
}

fn finding(prop: &'static str, key: &str, what: String) -> Finding {
    Finding {
        prop,
        key: key.to_string(),
        what,
    }
}

#[derive(Clone, Debug, Default)]
pub struct Judgement {
    pub findings: Vec<Finding>,
    /// outcome class (for the anti-vacuity count of distinct non-trivial outcomes)
    pub class: String,
    /// Some(reason) when the model abstained on whether/how the frame must be answered
    pub abstained: Option<String>,
}

#[derive(Clone, Debug, PartialEq, Eq, Hash, PartialOrd, Ord)]
pub struct FlowKey {
    pub cip: Ip,
    pub sip: Ip,
    pub cport: u16,
    pub sport: u16,
}

#[derive(Clone, Debug, Default)]
pub struct FlowState {
    /// accepted payload bytes so far (the model's whole application state)
    pub stream: Vec<u8>,
    /// the first request on this flow has been answered (later behaviour unspecified)
    pub answered: bool,
    /// number of data segments accepted
    pub segments: usize,
    /// a segment other than the first carried bytes for a protocol that is not parsed
    /// incrementally (outcome unspecified from then on)
    pub muddled: bool,
    /// the flow was identified as a message-per-segment protocol (SSH, STUN, Gh0st, SMB) and every
    /// segment so far was a complete message: later segments are judged as messages of it
    pub per_message: Option<crate::sig::Proto>,
    /// some earlier segment left the reference dispatcher in a state other than "pending"
    pub seen_non_pending: bool,
    /// HTTP connection on which every request so far was answered, ended exactly at the end of a
    /// segment and announced no body: the next segment starts a new request
    pub http_boundary: bool,
}

/// Reference connection table: set of validated flows, each with the bytes received so far.
#[derive(Clone, Debug, Default)]
pub struct ModelTable {
    pub flows: BTreeMap<FlowKey, FlowState>,
    /// cookies learned from observed SYN-ACKs (as a client learns them)
    pub cookies: HashMap<FlowKey, u32>,
    /// flow for which the last frame may or may not have created state (unspecified case)
    pub pending_maybe: Option<FlowKey>,
    /// the model could not follow the real table (data on a flow whose cookie it never learned)
    pub desync: bool,
    /// flows on which a data segment could not be judged (cookie unknown at that time): whether
    /// they are validated is unknown from then on
    pub unknown: std::collections::BTreeSet<FlowKey>,
}

impl ModelTable {
    pub fn new() -> ModelTable {
        ModelTable::default()
    }
    pub fn reset_flows(&mut self) {
        self.flows.clear();
        self.unknown.clear();
    }
    pub fn digest(&self) -> String {
        let mut s = String::new();
        for (k, f) in &self.flows {
            s.push_str(&format!(
                "{}:{}>{}:{}|{}|{}|{}|{};",
                k.cip,
                k.cport,
                k.sip,
                k.sport,
                hex(&f.stream),
                f.answered,
                f.muddled,
                f.http_boundary
            ));
        }
        s
    }
}

/// Key of the known finding D13 for one specific pair of flows with equal cookies.
pub fn alias_key(a: &FlowKey, b: &FlowKey) -> String {
    let d = |k: &FlowKey| format!("{}:{}>{}:{}", k.cip, k.cport, k.sip, k.sport).replace(' ', "");
    let (x, y) = if a <= b { (a, b) } else { (b, a) };
    format!("cookie-alias:{}|{}", d(x), d(y))
}

pub fn authorised_macs(cfg: &Cfg) -> HashSet<Mac> {
    let mut s = HashSet::new();
    s.insert(cfg.mac);
    s.insert([0xff; 6]);
    s.insert([0x33, 0x33, 0, 0, 0, 1]);
    for ip in &cfg.self_ips {
        match ip {
            Ip::V4(b) => {
                s.insert([0x01, 0x00, 0x5e, b[1] & 0x7f, b[2], b[3]]);
            }
            Ip::V6(b) => {
                s.insert([0x33, 0x33, 0xff, b[13], b[14], b[15]]);
            }
        }
    }
    s
}

fn in_self(cfg: &Cfg, ip: &Ip) -> bool {
    cfg.self_ips.is_empty() || cfg.self_ips.contains(ip)
}

pub struct Model {
    pub sigs: Vec<Sig>,
}

/// What the model expects at the transport layer for this frame.
#[derive(Clone, Debug)]
enum L4Expect {
    Silent(&'static str, &'static str), // (property, reason)
    Abstain(String),
    ArpReply(Arp),
    Echo4(Vec<u8>),           // rest of ICMP message after the checksum
    Echo6(Vec<u8>),
    Na([u8; 16]),
    SynAck { ack: u32 },
    FinAck { seq: u32, ack: u32 },
    /// data segment that must be answered: header arithmetic + application verdict
    Data { seq: u32, ack: u32, app: AppVerdict, ctx: AppCtx, stream_before: usize, stream: Vec<u8> },
    /// data segment on which answered-or-not is unspecified; if answered the arithmetic holds
    DataMaybe { seq: u32, ack: u32, why: String },
    Udp { app: AppVerdict, ctx: AppCtx, payload: Vec<u8> },
}

impl Model {
    pub fn new() -> Model {
        Model {
            sigs: sig::signatures(),
        }
    }

    /// Judge one observation.  `tbl` is the reference connection table (updated).
    pub fn judge(&self, cfg: &Cfg, tbl: &mut ModelTable, frame: &[u8], reply: Option<&[u8]>) -> Judgement {
        let mut j = Judgement::default();
        let e = match parse_eth(frame) {
            Some(e) => e,
            None => {
                // shorter than an Ethernet header: nothing can be addressed to us
                if reply.is_some() {
                    j.findings.push(finding(
                        "C02",
                        "reply-to-runt",
                        "reply to a frame shorter than an Ethernet header".into(),
                    ));
                }
                j.class = "runt".into();
                return j;
            }
        };
        // invariants that hold for every reply whatever the expectation
        if let Some(r) = reply {
            self.invariants(cfg, &e, frame, r, &mut j);
        }
        let exp = self.expect(cfg, tbl, &e);
        self.compare(cfg, tbl, &e, &exp, reply, &mut j);
        j
    }

    /// Reference-side state digest for BFS de-duplication.  A flow's future (as far as the
    /// model decides it) depends only on: muddled / answered flags, and otherwise on the stream
    /// received so far; a stream on which no signature can complete any more, or whose request
    /// is already invalid, is abstracted to a marker (all such streams have the same future:
    /// bare ACKs).
    pub fn table_digest(&self, tbl: &ModelTable) -> String {
        let mut s = String::new();
        for (k, f) in &tbl.flows {
            let st = if f.muddled {
                "M".to_string()
            } else if let Some(p) = f.per_message {
                format!("PM:{}", p.name())
            } else if f.answered {
                "A".to_string()
            } else {
                match sig::dispatch(&self.sigs, &f.stream, false) {
                    Dispatch::Dead => "D".to_string(),
                    Dispatch::Pending => format!("P:{}", hex(&f.stream)),
                    Dispatch::Matched(Proto::Http, _, _) => match app::http_status(&f.stream) {
                        app::HttpStatus::Invalid(_) => "I".to_string(),
                        _ => format!("H:{}", hex(&f.stream)),
                    },
                    Dispatch::Matched(..) => format!("X:{}", hex(&f.stream)),
                }
            };
            s.push_str(&format!("{}:{}>{}:{}|{};", k.cip, k.cport, k.sip, k.sport, st));
        }
        s
    }

    /// judge() plus the connection-table size oracle of C09 (needs the table size probe).
    pub fn judge_out(&self, cfg: &Cfg, tbl: &mut ModelTable, frame: &[u8], out: &crate::driver::Out) -> Judgement {
        tbl.pending_maybe = None;
        let mut j = self.judge(cfg, tbl, frame, out.reply.as_deref());
        if let Some(k) = tbl.pending_maybe.take() {
            if out.n == tbl.flows.len() + 1 {
                tbl.flows.entry(k).or_default().muddled = true;
            }
        }
        if let Some(a) = &j.abstained {
            if a.contains("not learned") {
                tbl.desync = true;
            }
        }
        if out.n != tbl.flows.len() && !tbl.desync {
            // distinct validated flows vs distinct cookies among them
            let mut cookies: Vec<u32> = tbl.flows.keys().filter_map(|k| tbl.cookies.get(k).copied()).collect();
            cookies.sort();
            cookies.dedup();
            if cookies.len() != tbl.flows.len() && out.n == cookies.len() {
                // name the (first) pair of validated flows that share a cookie
                let keys: Vec<&FlowKey> = tbl.flows.keys().collect();
                let mut pair = "cookie-alias".to_string();
                'outer: for (i, a) in keys.iter().enumerate() {
                    for b in keys.iter().skip(i + 1) {
                        if tbl.cookies.get(*a).is_some() && tbl.cookies.get(*a) == tbl.cookies.get(*b) {
                            pair = alias_key(a, b);
                            break 'outer;
                        }
                    }
                }
                j.findings.push(finding(
                    "C09",
                    &pair,
                    format!(
                        "{} validated flows share {} cookies: connection table has {} entries",
                        tbl.flows.len(),
                        cookies.len(),
                        out.n
                    ),
                ));
            } else {
                j.findings.push(finding(
                    "C09",
                    "table-size",
                    format!("connection table has {} entries but {} flows presented a valid cookie", out.n, tbl.flows.len()),
                ));
            }
        }
        j
    }

    fn expect(&self, cfg: &Cfg, tbl: &mut ModelTable, e: &PEth) -> L4Expect {
        if !authorised_macs(cfg).contains(&e.dst) {
            return L4Expect::Silent("C02", "dst-mac-not-authorised");
        }
        match e.et {
            ET_ARP => {
                let a = match Arp::parse(e.payload) {
                    Some(a) => a,
                    None => return L4Expect::Silent("C05", "arp-truncated"),
                };
                if a.op != 1 {
                    return L4Expect::Silent("C05", "arp-op-not-request");
                }
                if !in_self(cfg, &Ip::V4(a.tpa)) {
                    return L4Expect::Silent("C02", "arp-target-not-handled");
                }
                if a.htype != 1 || a.ptype != 0x0800 || a.hlen != 6 || a.plen != 4 {
                    return L4Expect::Abstain("arp request not Ethernet/IPv4".into());
                }
                L4Expect::ArpReply(Arp {
                    htype: 1,
                    ptype: 0x0800,
                    hlen: 6,
                    plen: 4,
                    op: 2,
                    sha: cfg.mac,
                    spa: a.tpa,
                    tha: a.sha,
                    tpa: a.spa,
                })
            }
            ET_IP4 | ET_IP6 => {
                let ip = if e.et == ET_IP4 {
                    parse_ipv4(e.payload)
                } else {
                    parse_ipv6(e.payload)
                };
                let ip = match ip {
                    Some(p) => p,
                    None => return L4Expect::Silent("C02", "ip-truncated"),
                };
                if cfg.deny_ips.contains(&ip.src) {
                    return L4Expect::Silent("C02", "src-ip-denied");
                }
                let is6 = e.et == ET_IP6;
                let supported = if is6 {
                    [P_ICMP6, P_TCP, P_UDP].contains(&ip.proto)
                } else {
                    [P_ICMP, P_TCP, P_UDP].contains(&ip.proto)
                };
                if !supported {
                    return L4Expect::Silent("C02", "next-protocol-unsupported");
                }
                let nd = is6 && ip.proto == P_ICMP6;
                if !nd && !in_self(cfg, &ip.dst) {
                    return L4Expect::Silent("C02", "dst-ip-not-handled");
                }
                self.expect_l4(cfg, tbl, &ip)
            }
            _ => L4Expect::Silent("C02", "ethertype-unsupported"),
        }
    }

    fn expect_l4(&self, cfg: &Cfg, tbl: &mut ModelTable, ip: &PIp) -> L4Expect {
        let p = ip.payload;
        match ip.proto {
            P_ICMP if ip.src.is_v4() => {
                if p.len() < 4 {
                    return L4Expect::Silent("C05", "icmp-truncated");
                }
                if p[0] == 8 && p[1] == 0 {
                    if !ip.consistent {
                        return L4Expect::Abstain("inconsistent IPv4 header".into());
                    }
                    L4Expect::Echo4(p[4..].to_vec())
                } else {
                    L4Expect::Silent("C05", "icmp-not-echo-request")
                }
            }
            P_ICMP6 if !ip.src.is_v4() => {
                if p.len() < 4 {
                    return L4Expect::Silent("C05", "icmp6-truncated");
                }
                if p[1] != 0 {
                    return L4Expect::Silent("C05", "icmp6-code-nonzero");
                }
                match p[0] {
                    128 => {
                        if !in_self(cfg, &ip.dst) {
                            return L4Expect::Silent("C02", "icmp6-echo-dst-not-handled");
                        }
                        if !ip.consistent {
                            return L4Expect::Abstain("inconsistent IPv6 header".into());
                        }
                        L4Expect::Echo6(p[4..].to_vec())
                    }
                    135 => {
                        if p.len() < 24 {
                            return L4Expect::Silent("C05", "nd-ns-truncated");
                        }
                        let mut t = [0u8; 16];
                        t.copy_from_slice(&p[8..24]);
                        if !in_self(cfg, &Ip::V6(t)) {
                            return L4Expect::Silent("C02", "nd-target-not-handled");
                        }
                        // options must be well-formed TLVs (length in units of 8, never 0)
                        let mut o = 24;
                        while o < p.len() {
                            if o + 2 > p.len() || p[o + 1] == 0 || o + p[o + 1] as usize * 8 > p.len() {
                                return L4Expect::Abstain("ND-NS with malformed options".into());
                            }
                            o += p[o + 1] as usize * 8;
                        }
                        if !ip.consistent {
                            return L4Expect::Abstain("inconsistent IPv6 header".into());
                        }
                        L4Expect::Na(t)
                    }
                    _ => L4Expect::Silent("C05", "icmp6-type-not-answered"),
                }
            }
            P_TCP => {
                let t = match parse_tcp(p) {
                    Some(t) => t,
                    None => return L4Expect::Silent("C07", "tcp-truncated"),
                };
                let key = FlowKey {
                    cip: ip.src,
                    sip: ip.dst,
                    cport: t.sport,
                    sport: t.dport,
                };
                let f = t.flags;
                if f & (F_PSH | F_ACK) == (F_PSH | F_ACK) {
                    // data rule (C07)
                    let validated = tbl.flows.contains_key(&key);
                    let cookie = tbl.cookies.get(&key).copied();
                    let seq = t.ack;
                    let ack = t.seq.wrapping_add(t.payload.len() as u32);
                    let valid_ack = cookie.map(|c| t.ack == c.wrapping_add(1));
                    if !validated && tbl.unknown.contains(&key) {
                        return L4Expect::Abstain("cookie of this flow not learned when an earlier segment arrived".into());
                    }
                    if !validated {
                        match valid_ack {
                            None => {
                                tbl.unknown.insert(key);
                                return L4Expect::Abstain("cookie of this flow not learned".into());
                            }
                            Some(false) => return L4Expect::Silent("C07", "data-without-valid-cookie"),
                            Some(true) => {}
                        }
                    }
                    // (a FIN on a segment that carries PSH and ACK does not make it less of a data
                    // segment: C07's data rule and C09's "flows that sent a PSH|ACK segment with
                    // ack = cookie+1" apply to it)
                    if f & (F_RST | F_SYN) != 0 && !validated {
                        // PSH|ACK together with RST/SYN/FIN and a valid cookie: the statements
                        // pull both ways (C07 data rule vs C12 reply-marked segments)
                        tbl.pending_maybe = Some(key);
                        return L4Expect::DataMaybe {
                            seq,
                            ack,
                            why: "PSH|ACK combined with RST/SYN/FIN behind a valid cookie".into(),
                        };
                    }
                    if !t.consistent || !ip.consistent {
                        if validated {
                            tbl.flows.get_mut(&key).unwrap().muddled = true;
                        } else {
                            tbl.pending_maybe = Some(key);
                        }
                        return L4Expect::DataMaybe {
                            seq,
                            ack,
                            why: "inconsistent headers".into(),
                        };
                    }
                    if validated && valid_ack != Some(true) && f & (F_RST | F_SYN) != 0 {
                        tbl.flows.get_mut(&key).unwrap().muddled = true;
                        return L4Expect::DataMaybe {
                            seq,
                            ack,
                            why: "validated flow, ack != cookie+1, extra flags".into(),
                        };
                    }
                    let ctx = AppCtx {
                        cip: ip.src,
                        sip: ip.dst,
                        cport: t.sport,
                        sport: t.dport,
                        transport: Transport::Tcp,
                    };
                    let st = tbl.flows.entry(key).or_default();
                    let before = st.stream.len();
                    let verdict = app::stream_verdict(&self.sigs, st, t.payload, &ctx);
                    let stream = st.stream.clone();
                    L4Expect::Data {
                        seq,
                        ack,
                        app: verdict,
                        ctx,
                        stream_before: before,
                        stream,
                    }
                } else if f == F_ACK {
                    L4Expect::Silent("C07", "bare-ack")
                } else if f == F_RST {
                    L4Expect::Silent("C07", "bare-rst")
                } else if f == (F_FIN | F_ACK) {
                    if !t.payload.is_empty() {
                        return L4Expect::Abstain("FIN|ACK carrying payload".into());
                    }
                    L4Expect::FinAck {
                        seq: t.ack,
                        ack: t.seq.wrapping_add(1),
                    }
                } else if f & F_SYN != 0 {
                    let others = f & !F_SYN;
                    let ok = others & !(F_PSH | F_URG | F_CWR | F_ECE) == 0
                        && !(others & F_CWR != 0 && others & F_ECE != 0);
                    if ok {
                        L4Expect::SynAck {
                            ack: t.seq.wrapping_add(1),
                        }
                    } else {
                        L4Expect::Silent("C06", "syn-with-disallowed-flags")
                    }
                } else if f & F_RST != 0 {
                    // any other segment carrying RST (no PSH&ACK): reply-marked (C12)
                    L4Expect::Silent("C12", "rst-segment")
                } else {
                    L4Expect::Abstain(format!("flag set {:#x} not named by the statements", f))
                }
            }
            P_UDP => {
                let u = match parse_udp(p) {
                    Some(u) => u,
                    None => return L4Expect::Silent("C02", "udp-truncated"),
                };
                let ctx = AppCtx {
                    cip: ip.src,
                    sip: ip.dst,
                    cport: u.sport,
                    sport: u.dport,
                    transport: Transport::Udp,
                };
                let mut v = app::datagram_verdict(&self.sigs, u.payload, &ctx);
                if !(u.consistent && ip.consistent) {
                    if let AppVerdict::Answer(..) = v {
                        v = AppVerdict::Unspecified("inconsistent headers".into());
                    }
                }
                L4Expect::Udp { app: v, ctx, payload: u.payload.to_vec() }
            }
            _ => L4Expect::Silent("C02", "next-protocol-unsupported"),
        }
    }

    /// Invariants on every reply: C04 (well-formedness), C03 (mirror addressing), C02 (source
    /// identity), whatever elicited it.
    fn invariants(&self, cfg: &Cfg, e: &PEth, _frame: &[u8], r: &[u8], j: &mut Judgement) {
        let re = match parse_eth(r) {
            Some(x) => x,
            None => {
                j.findings
                    .push(finding("C04", "reply-runt", format!("reply shorter than Ethernet header: {}", hex(r))));
                return;
            }
        };
        if re.src != cfg.mac {
            j.findings.push(finding(
                "C03",
                "eth-src",
                format!("reply Ethernet source {} is not the configured MAC", mac_str(&re.src)),
            ));
        }
        if re.dst != e.src {
            j.findings.push(finding(
                "C03",
                "eth-dst",
                format!("reply Ethernet destination {} is not the asker {}", mac_str(&re.dst), mac_str(&e.src)),
            ));
        }
        if re.et != e.et {
            j.findings
                .push(finding("C03", "ethertype", format!("reply EtherType {:#06x} != request {:#06x}", re.et, e.et)));
            return;
        }
        match re.et {
            ET_ARP => {
                if let Some(a) = Arp::parse(re.payload) {
                    if !in_self(cfg, &Ip::V4(a.spa)) {
                        j.findings.push(finding(
                            "C02",
                            "arp-advertises-foreign",
                            format!("ARP reply advertises {} which is not in the self-IP list", Ip::V4(a.spa)),
                        ));
                    }
                    // the shape of an ARP reply (C05: "an ARP reply (Ethernet/IPv4, op 2)") whenever the
                    // request asked for an IPv4 address with Ethernet-sized fields, whatever hardware
                    // type it announced
                    if let Some(q) = Arp::parse(e.payload) {
                        if q.op == 1 && q.ptype == 0x0800 && q.hlen == 6 && q.plen == 4 && (a.htype != 1 || a.ptype != 0x0800 || a.hlen != 6 || a.plen != 4 || a.op != 2) {
                            j.findings.push(finding(
                                "C05",
                                "arp-reply-shape",
                                format!("ARP reply is not an Ethernet/IPv4 reply: hardware type {}, protocol type {:#06x}, lengths {}/{}, operation {}", a.htype, a.ptype, a.hlen, a.plen, a.op),
                            ));
                        }
                    }
                } else {
                    j.findings.push(finding("C04", "arp-short", "ARP reply shorter than 28 bytes".into()));
                }
            }
            ET_IP4 | ET_IP6 => {
                let (rq, rp) = if re.et == ET_IP4 {
                    (parse_ipv4(e.payload), parse_ipv4(re.payload))
                } else {
                    (parse_ipv6(e.payload), parse_ipv6(re.payload))
                };
                let rp = match rp {
                    Some(x) => x,
                    None => {
                        j.findings.push(finding("C04", "ip-short", "reply IP header truncated".into()));
                        return;
                    }
                };
                self.wf_ip(re.et, re.payload, &rp, j);
                if !in_self(cfg, &rp.src) {
                    j.findings.push(finding(
                        "C02",
                        "reply-src-not-self",
                        format!("reply sourced from {} which is not in the self-IP list", rp.src),
                    ));
                }
                if let Some(rq) = rq {
                    if rp.dst != rq.src {
                        j.findings.push(finding(
                            "C03",
                            "ip-dst",
                            format!("reply IP destination {} != request source {}", rp.dst, rq.src),
                        ));
                    }
                    if rp.proto != rq.proto {
                        j.findings.push(finding(
                            "C03",
                            "transport",
                            format!("reply protocol {} != request protocol {}", rp.proto, rq.proto),
                        ));
                        return;
                    }
                    // IP source = request destination, except ND (source = solicited target)
                    let is_nd = re.et == ET_IP6
                        && rq.proto == P_ICMP6
                        && rq.payload.len() >= 24
                        && rq.payload[0] == 135
                        && rp.payload.first() == Some(&136);
                    if re.et == ET_IP6 && rp.proto == P_ICMP6 && rp.payload.len() >= 24 && rp.payload[0] == 136 {
                        let mut adv = [0u8; 16];
                        adv.copy_from_slice(&rp.payload[8..24]);
                        if !in_self(cfg, &Ip::V6(adv)) {
                            j.findings.push(finding(
                                "C02",
                                "na-advertises-foreign",
                                format!("neighbour advertisement for {} which is not in the self-IP list", Ip::V6(adv)),
                            ));
                        }
                    }
                    if is_nd {
                        let mut t = [0u8; 16];
                        t.copy_from_slice(&rq.payload[8..24]);
                        if rp.src != Ip::V6(t) {
                            j.findings.push(finding(
                                "C03",
                                "nd-src",
                                format!("NA sourced from {} instead of the solicited target {}", rp.src, Ip::V6(t)),
                            ));
                        }
                    } else if rp.src != rq.dst {
                        j.findings.push(finding(
                            "C03",
                            "ip-src",
                            format!("reply IP source {} != request destination {}", rp.src, rq.dst),
                        ));
                    }
                    self.wf_l4(&rq, &rp, j);
                }
            }
            _ => {}
        }
    }

    fn wf_ip(&self, et: u16, b: &[u8], rp: &PIp, j: &mut Judgement) {
        if et == ET_IP4 {
            if b[0] >> 4 != 4 {
                j.findings.push(finding("C04", "ip4-version", format!("IPv4 version nibble {}", b[0] >> 4)));
            }
            if b[0] & 0xf != 5 {
                j.findings.push(finding("C04", "ip4-ihl", format!("IHL {} but header has no options", b[0] & 0xf)));
            }
            let tl = u16::from_be_bytes([b[2], b[3]]) as usize;
            if tl != b.len() {
                j.findings
                    .push(finding("C04", "ip4-totlen", format!("IPv4 total length {} != actual {}", tl, b.len())));
            }
            if rp.flags_frag & 0x3fff != 0 {
                j.findings.push(finding("C04", "ip4-frag", format!("fragmented reply {:#06x}", rp.flags_frag)));
            }
            if rp.ttl < 1 {
                j.findings.push(finding("C04", "ip4-ttl", "TTL 0".into()));
            }
            if b.len() >= 20 && ones_sum(&[&b[..20]]) != 0xffff {
                j.findings.push(finding("C04", "ip4-csum", "bad IPv4 header checksum".into()));
            }
        } else {
            if b[0] >> 4 != 6 {
                j.findings.push(finding("C04", "ip6-version", format!("IPv6 version nibble {}", b[0] >> 4)));
            }
            let pl = u16::from_be_bytes([b[4], b[5]]) as usize;
            if pl + 40 != b.len() {
                j.findings.push(finding(
                    "C04",
                    "ip6-plen",
                    format!("IPv6 payload length {} != actual {}", pl, b.len() - 40),
                ));
            }
            if rp.ttl < 1 {
                j.findings.push(finding("C04", "ip6-hlim", "hop limit 0".into()));
            }
        }
    }

    fn wf_l4(&self, rq: &PIp, rp: &PIp, j: &mut Judgement) {
        let p = rp.payload;
        match rp.proto {
            P_ICMP => {
                if p.len() < 4 || ones_sum(&[p]) != 0xffff {
                    j.findings.push(finding("C04", "icmp-csum", "bad ICMP checksum".into()));
                    if p.first() == Some(&0) {
                        // a message a receiver discards is not the Echo Reply C05 promises
                        j.findings.push(finding("C05", "echo4-reply-checksum", "echo reply with an invalid ICMP checksum".into()));
                    }
                }
            }
            P_ICMP6 => {
                let ps = pseudo(&rp.src, &rp.dst, P_ICMP6, p.len());
                if p.len() < 4 || ones_sum(&[&ps, p]) != 0xffff {
                    j.findings.push(finding("C04", "icmp6-csum", "bad ICMPv6 checksum".into()));
                    if p.first() == Some(&129) || p.first() == Some(&136) {
                        j.findings.push(finding("C05", "icmp6-reply-checksum", format!("ICMPv6 type {} reply with an invalid checksum", p[0])));
                    }
                }
                if p.first() == Some(&136) && rp.ttl != 255 {
                    j.findings
                        .push(finding("C04", "na-hlim", format!("NA hop limit {} != 255", rp.ttl)));
                }
            }
            P_TCP => {
                let t = match parse_tcp(p) {
                    Some(t) => t,
                    None => {
                        j.findings.push(finding("C04", "tcp-short", "TCP reply truncated".into()));
                        return;
                    }
                };
                let ps = pseudo(&rp.src, &rp.dst, P_TCP, p.len());
                if ones_sum(&[&ps, p]) != 0xffff {
                    j.findings.push(finding("C04", "tcp-csum", "bad TCP checksum".into()));
                }
                if t.doff != 5 {
                    j.findings
                        .push(finding("C04", "tcp-doff", format!("data offset {} but header is 20 bytes", t.doff)));
                }
                if t.flags & (F_SYN | F_ACK) == (F_SYN | F_ACK) && t.window == 0 {
                    j.findings.push(finding("C04", "tcp-window", "zero window on SYN-ACK".into()));
                }
                if let Some(q) = parse_tcp(rq.payload) {
                    if t.dport != q.sport {
                        j.findings.push(finding(
                            "C03",
                            "tcp-dport",
                            format!("reply dport {} != request sport {}", t.dport, q.sport),
                        ));
                    }
                    if t.sport != q.dport && t.sport != q.dport.wrapping_add(1) {
                        j.findings.push(finding(
                            "C03",
                            "tcp-sport",
                            format!("reply sport {} != request dport {}", t.sport, q.dport),
                        ));
                    }
                }
            }
            P_UDP => {
                let u = match parse_udp(p) {
                    Some(u) => u,
                    None => {
                        j.findings.push(finding("C04", "udp-short", "UDP reply truncated".into()));
                        return;
                    }
                };
                if u.len as usize != p.len() {
                    j.findings
                        .push(finding("C04", "udp-len", format!("UDP length {} != actual {}", u.len, p.len())));
                }
                let ps = pseudo(&rp.src, &rp.dst, P_UDP, p.len());
                if u.csum == 0 {
                    if !rp.src.is_v4() {
                        j.findings.push(finding(
                            "C04",
                            "udp6-zero-csum",
                            "UDP over IPv6 transmitted with checksum 0".into(),
                        ));
                    }
                } else if ones_sum(&[&ps, p]) != 0xffff {
                    j.findings.push(finding("C04", "udp-csum", "bad UDP checksum".into()));
                }
                if let Some(q) = parse_udp(rq.payload) {
                    if u.dport != q.sport {
                        j.findings.push(finding(
                            "C03",
                            "udp-dport",
                            format!("reply dport {} != request sport {}", u.dport, q.sport),
                        ));
                    }
                    if u.sport != q.dport && u.sport != q.dport.wrapping_add(1) {
                        j.findings.push(finding(
                            "C03",
                            "udp-sport",
                            format!("reply sport {} != request dport {}", u.sport, q.dport),
                        ));
                    }
                }
            }
            _ => {}
        }
    }

    fn compare(
        &self,
        cfg: &Cfg,
        tbl: &mut ModelTable,
        e: &PEth,
        exp: &L4Expect,
        reply: Option<&[u8]>,
        j: &mut Judgement,
    ) {
        // parsed reply pieces
        let rip = reply.and_then(parse_eth).and_then(|re| {
            if re.et == ET_IP4 {
                parse_ipv4(re.payload)
            } else if re.et == ET_IP6 {
                parse_ipv6(re.payload)
            } else {
                None
            }
        });
        match exp {
            L4Expect::Silent(prop, why) => {
                j.class = format!("silent:{}", why);
                if let Some(r) = reply {
                    j.findings.push(finding(
                        prop,
                        &format!("answered:{}", why),
                        format!("must be silent ({}) but replied {}", why, hex(r)),
                    ));
                }
            }
            L4Expect::Abstain(why) => {
                j.class = format!("abstain:{}", if reply.is_some() { "answered" } else { "silent" });
                j.abstained = Some(why.clone());
            }
            L4Expect::ArpReply(a) => {
                j.class = "arp-reply".into();
                match reply.and_then(parse_eth) {
                    None => j.findings.push(finding("C05", "arp-unanswered", "ARP request for a handled address not answered".into())),
                    Some(re) => {
                        let want = a.bytes();
                        if re.et != ET_ARP || re.payload.len() < 28 || re.payload[..28] != want[..] {
                            j.findings.push(finding(
                                "C05",
                                "arp-reply-fields",
                                format!("ARP reply {} != expected {}", hex(re.payload), hex(&want)),
                            ));
                        }
                    }
                }
            }
            L4Expect::Echo4(rest) => {
                j.class = "echo4".into();
                match &rip {
                    None => j.findings.push(finding("C05", "echo4-unanswered", "ICMP echo request not answered".into())),
                    Some(rp) => {
                        let p = rp.payload;
                        if rp.proto != P_ICMP || p.len() < 4 || p[0] != 0 || p[1] != 0 || p[4..] != rest[..] {
                            j.findings.push(finding(
                                "C05",
                                "echo4-reply-fields",
                                format!("echo reply {} does not mirror id/seq/data {}", hex(p), hex(rest)),
                            ));
                        }
                    }
                }
            }
            L4Expect::Echo6(rest) => {
                j.class = "echo6".into();
                match &rip {
                    None => j.findings.push(finding("C05", "echo6-unanswered", "ICMPv6 echo request not answered".into())),
                    Some(rp) => {
                        let p = rp.payload;
                        if rp.proto != P_ICMP6 || p.len() < 4 || p[0] != 129 || p[1] != 0 || p[4..] != rest[..] {
                            j.findings.push(finding(
                                "C05",
                                "echo6-reply-fields",
                                format!("echo reply {} does not mirror id/seq/data {}", hex(p), hex(rest)),
                            ));
                        }
                    }
                }
            }
            L4Expect::Na(target) => {
                j.class = "nd-na".into();
                match &rip {
                    None => j.findings.push(finding("C05", "ns-unanswered", "neighbour solicitation for a handled target not answered".into())),
                    Some(rp) => {
                        let mut want = vec![136u8, 0, 0, 0, 0x60, 0, 0, 0];
                        want.extend_from_slice(target);
                        want.extend_from_slice(&[2, 1]);
                        want.extend_from_slice(&cfg.mac);
                        let p = rp.payload;
                        let mut got = p.to_vec();
                        if got.len() >= 4 {
                            got[2] = 0;
                            got[3] = 0;
                        }
                        if rp.proto != P_ICMP6 || got != want {
                            j.findings.push(finding(
                                "C05",
                                "na-fields",
                                format!("NA {} != expected {} (checksum masked)", hex(&got), hex(&want)),
                            ));
                        }
                    }
                }
            }
            L4Expect::SynAck { ack } => {
                j.class = "synack".into();
                let t = rip.as_ref().filter(|r| r.proto == P_TCP).and_then(|r| parse_tcp(r.payload));
                match t {
                    None => j.findings.push(finding("C06", "syn-unanswered", "acceptable SYN not answered".into())),
                    Some(t) => {
                        if t.flags != (F_SYN | F_ACK) {
                            j.findings.push(finding("C06", "synack-flags", format!("reply flags {:#x} != SYN|ACK", t.flags)));
                        }
                        if t.ack != *ack {
                            j.findings.push(finding("C06", "synack-ack", format!("SYN-ACK acks {} != seq+1 {}", t.ack, ack)));
                        }
                        if !t.payload.is_empty() {
                            j.findings.push(finding("C06", "synack-payload", "SYN-ACK carries payload".into()));
                        }
                        // cookie: learned on first sight, must be identical afterwards
                        if let (Some(rq), true) = (self.req_ip(e), true) {
                            if let Some(q) = parse_tcp(rq.payload) {
                                let key = FlowKey { cip: rq.src, sip: rq.dst, cport: q.sport, sport: q.dport };
                                match tbl.cookies.get(&key) {
                                    None => {
                                        tbl.cookies.insert(key, t.seq);
                                    }
                                    Some(c) if *c != t.seq => {
                                        j.findings.push(finding(
                                            "C06",
                                            "cookie-not-deterministic",
                                            format!("SYN-ACK cookie {:#x} differs from earlier {:#x} for the same tuple", t.seq, c),
                                        ));
                                    }
                                    _ => {}
                                }
                            }
                        }
                    }
                }
            }
            L4Expect::FinAck { seq, ack } => {
                j.class = "finack".into();
                let t = rip.as_ref().filter(|r| r.proto == P_TCP).and_then(|r| parse_tcp(r.payload));
                match t {
                    None => j.findings.push(finding("C07", "finack-unanswered", "bare FIN|ACK not answered".into())),
                    Some(t) => {
                        if t.flags != (F_FIN | F_ACK) || t.seq != *seq || t.ack != *ack || !t.payload.is_empty() {
                            j.findings.push(finding(
                                "C07",
                                "finack-fields",
                                format!("FIN|ACK reply flags={:#x} seq={} ack={} (want seq={} ack={})", t.flags, t.seq, t.ack, seq, ack),
                            ));
                        }
                    }
                }
            }
            L4Expect::Data { seq, ack, app, ctx, stream_before, stream } => {
                let t = rip.as_ref().filter(|r| r.proto == P_TCP).and_then(|r| parse_tcp(r.payload));
                match t {
                    None => {
                        j.class = "data:unanswered".into();
                        j.findings.push(finding(
                            "C07",
                            "data-unanswered",
                            "data segment behind a valid cookie got no reply".into(),
                        ));
                        // the application property owns it too when the segment completes a
                        // request that must be answered
                        if let AppVerdict::Answer(req) = app {
                            j.findings.push(finding(
                                req.prop(),
                                &format!("unanswered:{}", req.kind()),
                                format!("complete {} request in a data segment behind a valid cookie got no reply at all: stream {}", req.kind(), hex(stream)),
                            ));
                        }
                    }
                    Some(t) => {
                        self.check_data_header(&t, *seq, *ack, ctx, app, j);
                        self.check_app(app, ctx, t.payload, stream, *stream_before, j);
                    }
                }
            }
            L4Expect::DataMaybe { seq, ack, why } => {
                j.abstained = Some(why.clone());
                let t = rip.as_ref().filter(|r| r.proto == P_TCP).and_then(|r| parse_tcp(r.payload));
                match t {
                    None => j.class = "data-maybe:silent".into(),
                    Some(t) => {
                        j.class = "data-maybe:answered".into();
                        if t.flags & F_ACK == 0 || t.seq != *seq || t.ack != *ack {
                            j.findings.push(finding(
                                "C07",
                                "data-arith",
                                format!("data reply flags={:#x} seq={} ack={} (want seq={} ack={})", t.flags, t.seq, t.ack, seq, ack),
                            ));
                        }
                    }
                }
            }
            L4Expect::Udp { app, ctx, payload } => {
                let u = rip.as_ref().filter(|r| r.proto == P_UDP).and_then(|r| parse_udp(r.payload));
                match (app, u) {
                    (AppVerdict::Silent(prop, why), None) => j.class = format!("udp-silent:{}", why),
                    (AppVerdict::Silent(prop, why), Some(u)) => {
                        j.class = format!("udp-silent:{}", why);
                        j.findings.push(finding(
                            prop,
                            &format!("udp-answered:{}", why),
                            format!("datagram must not be answered ({}) but got {}", why, hex(u.payload)),
                        ));
                        // the property of the responder that DID answer owns it too ("malformed /
                        // unknown ... are not answered" is a clause of each application property)
                        if let Some(rp) = responder_property(u.payload) {
                            if rp != *prop {
                                j.findings.push(finding(rp, &format!("answered-what-is-no-request:{}", why), format!("a datagram that is no valid request ({}) was answered by this property's responder: {}", why, hex(&u.payload[..u.payload.len().min(48)]))));
                            }
                        }
                    }
                    (AppVerdict::Unspecified(why), u) => {
                        j.class = format!("udp-abstain:{}", if u.is_some() { "answered" } else { "silent" });
                        j.abstained = Some(why.clone());
                        // (the loose port mirror of the invariants still applies)
                        let _ = u;
                    }
                    (AppVerdict::IfAnswered(_, why), None) => {
                        j.class = "udp-abstain:silent".into();
                        j.abstained = Some(why.clone());
                    }
                    (AppVerdict::IfAnswered(req, why), Some(u)) => {
                        j.class = format!("udp-cond-answer:{}", req.kind());
                        j.abstained = Some(why.clone());
                        self.check_udp_ports(&u, ctx, req.change_port(), req.kind() == "stun", j);
                        if let Err((prop, key, what)) = req.validate(u.payload, ctx) {
                            j.findings.push(finding(prop, &key, what));
                        }
                    }
                    (AppVerdict::Answer(req), None) => {
                        j.class = format!("udp-unanswered:{}", req.kind());
                        // attribute to a matcher event only what goes through the matcher
                        let key = match (req.kind() != "dns").then(|| crate::shadow::explain(payload, true)).flatten() {
                            Some(ev) => ev,
                            None => format!("unanswered:{}", req.kind()),
                        };
                        j.findings.push(finding(
                            req.prop(),
                            &key,
                            format!("valid {} request over UDP not answered ({}): {}", req.kind(), key, hex(payload)),
                        ));
                    }
                    (AppVerdict::Answer(req), Some(u)) => {
                        j.class = format!("udp-answer:{}", req.kind());
                        self.check_udp_ports(&u, ctx, req.change_port(), req.kind() == "stun", j);
                        if let Err((prop, key, what)) = req.validate(u.payload, ctx) {
                            j.findings.push(finding(prop, &key, what));
                        }
                    }
                }
            }
        }
    }

    fn req_ip<'a>(&self, e: &PEth<'a>) -> Option<PIp<'a>> {
        if e.et == ET_IP4 {
            parse_ipv4(e.payload)
        } else if e.et == ET_IP6 {
            parse_ipv6(e.payload)
        } else {
            None
        }
    }

    fn check_udp_ports(&self, u: &PUdp, ctx: &AppCtx, change_port: bool, stun: bool, j: &mut Judgement) {
        let want = if change_port { ctx.sport.wrapping_add(1) } else { ctx.sport };
        if u.sport != want {
            // C03 states the mirror rule and its sole exception; C15 states the exception too
            j.findings.push(finding("C03", "udp-src-port", format!("reply source port {} (want {})", u.sport, want)));
            if stun {
                j.findings.push(finding("C15", "udp-src-port", format!("STUN response source port {} (want {}: change-port requested = {})", u.sport, want, change_port)));
            }
        }
    }

    fn check_data_header(&self, t: &PTcp, seq: u32, ack: u32, ctx: &AppCtx, app: &AppVerdict, j: &mut Judgement) {
        if t.flags & F_ACK == 0 || t.flags & !(F_ACK | F_PSH) != 0 {
            j.findings
                .push(finding("C07", "data-flags", format!("data reply flags {:#x} not ACK[|PSH]", t.flags)));
        }
        if t.seq != seq || t.ack != ack {
            j.findings.push(finding(
                "C07",
                "data-arith",
                format!("data reply seq={} ack={} (want seq={} ack={})", t.seq, t.ack, seq, ack),
            ));
        }
        let has_psh = t.flags & F_PSH != 0;
        if has_psh != !t.payload.is_empty() {
            j.findings.push(finding(
                "C07",
                "data-psh",
                format!("PSH={} but {} bytes of application data", has_psh, t.payload.len()),
            ));
        }
        let change = matches!(app, AppVerdict::Answer(r) | AppVerdict::IfAnswered(r, _) if r.change_port());
        let want = if change { ctx.sport.wrapping_add(1) } else { ctx.sport };
        if !matches!(app, AppVerdict::Unspecified(_)) && !(change && t.payload.is_empty()) && t.sport != want {
            j.findings
                .push(finding("C03", "tcp-src-port", format!("reply source port {} (want {})", t.sport, want)));
            if matches!(app, AppVerdict::Answer(r) | AppVerdict::IfAnswered(r, _) if r.kind() == "stun") {
                j.findings.push(finding("C15", "tcp-src-port", format!("STUN response source port {} (want {}: change-port requested = {})", t.sport, want, change)));
            }
        }
    }

    fn check_app(&self, app: &AppVerdict, ctx: &AppCtx, payload: &[u8], stream: &[u8], _before: usize, j: &mut Judgement) {
        match app {
            AppVerdict::Silent(prop, why) => {
                j.class = format!("tcp-silent:{}", why);
                if !payload.is_empty() {
                    j.findings.push(finding(
                        prop,
                        &format!("tcp-answered:{}", why),
                        format!("segment must get a bare ACK ({}) but carried {}", why, hex(payload)),
                    ));
                    if let Some(rp) = responder_property(payload) {
                        if rp != *prop {
                            j.findings.push(finding(rp, &format!("answered-what-is-no-request:{}", why), format!("a stream that is no valid request ({}) was answered by this property's responder: {}", why, hex(&payload[..payload.len().min(48)]))));
                        }
                    }
                }
            }
            AppVerdict::Unspecified(why) => {
                j.class = format!("tcp-abstain:{}", if payload.is_empty() { "bare" } else { "data" });
                j.abstained = Some(why.clone());
            }
            AppVerdict::IfAnswered(req, why) => {
                j.class = format!("tcp-cond-answer:{}", if payload.is_empty() { "bare" } else { "data" });
                j.abstained = Some(why.clone());
                if !payload.is_empty() {
                    if let Err((prop, key, what)) = req.validate(payload, ctx) {
                        j.findings.push(finding(prop, &key, what));
                    }
                }
            }
            AppVerdict::Answer(req) => {
                j.class = format!("tcp-answer:{}", req.kind());
                if payload.is_empty() {
                    let key = match crate::shadow::explain(stream, false) {
                        Some(ev) => ev,
                        None => format!("unanswered:{}", req.kind()),
                    };
                    j.findings.push(finding(
                        req.prop(),
                        &key,
                        format!("complete {} request over TCP got a bare ACK ({}): stream {}", req.kind(), key, hex(stream)),
                    ));
                } else if let Err((prop, key, what)) = req.validate(payload, ctx) {
                    j.findings.push(finding(prop, &key, what));
                }
            }
        }
    }
}

/// The application property whose responder produced this reply payload (by the shape of the
/// reply: status line, banner, Gh0st magic, STUN success header, SMB magic, ONC-RPC reply, DNS
/// response header).
pub fn responder_property(rep: &[u8]) -> Option<&'static str> {
    if rep.starts_with(b"HTTP/1.") {
        Some("C13")
    } else if rep.starts_with(b"SSH-") || rep.starts_with(b"Gh0st") {
        Some("C18")
    } else if rep.len() >= 20 && rep[0] == 0x01 && rep[1] == 0x01 && u16::from_be_bytes([rep[2], rep[3]]) as usize == rep.len() - 20 {
        Some("C15")
    } else if rep.len() >= 8 && (rep[4..8] == [0xff, b'S', b'M', b'B'] || rep[4..8] == [0xfe, b'S', b'M', b'B']) {
        Some("C17")
    } else if rep.len() >= 16 && rep[0] & 0x80 != 0 && (u32::from_be_bytes([rep[0] & 0x7f, rep[1], rep[2], rep[3]]) as usize) == rep.len() - 4 && rep[8..12] == [0, 0, 0, 1] {
        Some("C16")
    } else if rep.len() >= 12 && rep[4..8] == [0, 0, 0, 1] && rep[8..12] == [0, 0, 0, 0] {
        Some("C16")
    } else if rep.len() >= 12 && rep[2] & 0x80 != 0 && rep[2] & 0x04 != 0 {
        // QR and AA set: the DNS fallback's answer
        Some("C14")
    } else {
        None
    }
}
