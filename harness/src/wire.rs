//! Frame builders and independent parsers (no code shared with masscanned or pnet).

use std::fmt;

pub type Mac = [u8; 6];

#[derive(Clone, Copy, PartialEq, Eq, Hash, PartialOrd, Ord)]
pub enum Ip {
    V4([u8; 4]),
    V6([u8; 16]),
}

impl Ip {
    pub fn is_v4(&self) -> bool {
        matches!(self, Ip::V4(_))
    }
    pub fn bytes(&self) -> Vec<u8> {
        match self {
            Ip::V4(b) => b.to_vec(),
            Ip::V6(b) => b.to_vec(),
        }
    }
    pub fn parse(s: &str) -> Ip {
        if s.contains(':') {
            let a: std::net::Ipv6Addr = s.parse().expect("bad v6");
            Ip::V6(a.octets())
        } else {
            let a: std::net::Ipv4Addr = s.parse().expect("bad v4");
            Ip::V4(a.octets())
        }
    }
    pub fn flip_bit(&self, bit: usize) -> Ip {
        match self {
            Ip::V4(b) => {
                let mut c = *b;
                c[bit / 8] ^= 0x80 >> (bit % 8);
                Ip::V4(c)
            }
            Ip::V6(b) => {
                let mut c = *b;
                c[bit / 8] ^= 0x80 >> (bit % 8);
                Ip::V6(c)
            }
        }
    }
    pub fn nbits(&self) -> usize {
        match self {
            Ip::V4(_) => 32,
            Ip::V6(_) => 128,
        }
    }
}

impl fmt::Display for Ip {
    fn fmt(&self, f: &mut fmt::Formatter<'_>) -> fmt::Result {
        match self {
            Ip::V4(b) => write!(f, "{}", std::net::Ipv4Addr::from(*b)),
            Ip::V6(b) => write!(f, "{}", std::net::Ipv6Addr::from(*b)),
        }
    }
}
impl fmt::Debug for Ip {
    fn fmt(&self, f: &mut fmt::Formatter<'_>) -> fmt::Result {
        write!(f, "{}", self)
    }
}

pub fn mac_str(m: &Mac) -> String {
    format!(
        "{:02x}:{:02x}:{:02x}:{:02x}:{:02x}:{:02x}",
        m[0], m[1], m[2], m[3], m[4], m[5]
    )
}

pub fn hex(d: &[u8]) -> String {
    const H: &[u8; 16] = b"0123456789abcdef";
    let mut s = String::with_capacity(d.len() * 2);
    for b in d {
        s.push(H[(b >> 4) as usize] as char);
        s.push(H[(b & 15) as usize] as char);
    }
    s
}

pub fn unhex(s: &str) -> Option<Vec<u8>> {
    let b = s.as_bytes();
    if b.len() % 2 != 0 {
        return None;
    }
    let nib = |c: u8| -> Option<u8> {
        match c {
            b'0'..=b'9' => Some(c - b'0'),
            b'a'..=b'f' => Some(c - b'a' + 10),
            b'A'..=b'F' => Some(c - b'A' + 10),
            _ => None,
        }
    };
    let mut v = Vec::with_capacity(b.len() / 2);
    let mut i = 0;
    while i < b.len() {
        v.push(nib(b[i])? << 4 | nib(b[i + 1])?);
        i += 2;
    }
    Some(v)
}

pub const ET_ARP: u16 = 0x0806;
pub const ET_IP4: u16 = 0x0800;
pub const ET_IP6: u16 = 0x86dd;
pub const P_ICMP: u8 = 1;
pub const P_TCP: u8 = 6;
pub const P_UDP: u8 = 17;
pub const P_ICMP6: u8 = 58;

pub const F_FIN: u16 = 0x001;
pub const F_SYN: u16 = 0x002;
pub const F_RST: u16 = 0x004;
pub const F_PSH: u16 = 0x008;
pub const F_ACK: u16 = 0x010;
pub const F_URG: u16 = 0x020;
pub const F_ECE: u16 = 0x040;
pub const F_CWR: u16 = 0x080;
pub const F_NS: u16 = 0x100;

/* ---------------------------------------------------------------- checksum */

/// RFC 1071 ones-complement sum over a list of byte slices (each slice is
/// treated as if concatenated; odd-length slices are only allowed last).
pub fn ones_sum(parts: &[&[u8]]) -> u32 {
    let mut sum: u32 = 0;
    let mut carry_byte: Option<u8> = None;
    for p in parts {
        for &b in p.iter() {
            match carry_byte.take() {
                None => carry_byte = Some(b),
                Some(h) => {
                    sum += ((h as u32) << 8) | b as u32;
                    if sum > 0xffff_0000 {
                        sum = (sum & 0xffff) + (sum >> 16);
                    }
                }
            }
        }
    }
    if let Some(h) = carry_byte {
        sum += (h as u32) << 8;
    }
    while sum >> 16 != 0 {
        sum = (sum & 0xffff) + (sum >> 16);
    }
    sum
}

pub fn inet_csum(parts: &[&[u8]]) -> u16 {
    !(ones_sum(parts) as u16)
}

pub fn pseudo(src: &Ip, dst: &Ip, proto: u8, len: usize) -> Vec<u8> {
    let mut v = Vec::new();
    match (src, dst) {
        (Ip::V4(s), Ip::V4(d)) => {
            v.extend_from_slice(s);
            v.extend_from_slice(d);
            v.push(0);
            v.push(proto);
            v.extend_from_slice(&(len as u16).to_be_bytes());
        }
        (Ip::V6(s), Ip::V6(d)) => {
            v.extend_from_slice(s);
            v.extend_from_slice(d);
            v.extend_from_slice(&(len as u32).to_be_bytes());
            v.extend_from_slice(&[0, 0, 0, proto]);
        }
        _ => panic!("mixed IP versions"),
    }
    v
}

/* ---------------------------------------------------------------- builders */

pub fn eth(dst: &Mac, src: &Mac, et: u16, payload: &[u8]) -> Vec<u8> {
    let mut v = Vec::with_capacity(14 + payload.len());
    v.extend_from_slice(dst);
    v.extend_from_slice(src);
    v.extend_from_slice(&et.to_be_bytes());
    v.extend_from_slice(payload);
    v
}

#[derive(Clone, Debug)]
pub struct Arp {
    pub htype: u16,
    pub ptype: u16,
    pub hlen: u8,
    pub plen: u8,
    pub op: u16,
    pub sha: Mac,
    pub spa: [u8; 4],
    pub tha: Mac,
    pub tpa: [u8; 4],
}

impl Arp {
    pub fn request(sha: Mac, spa: [u8; 4], tpa: [u8; 4]) -> Arp {
        Arp {
            htype: 1,
            ptype: 0x0800,
            hlen: 6,
            plen: 4,
            op: 1,
            sha,
            spa,
            tha: [0; 6],
            tpa,
        }
    }
    pub fn bytes(&self) -> Vec<u8> {
        let mut v = Vec::with_capacity(28);
        v.extend_from_slice(&self.htype.to_be_bytes());
        v.extend_from_slice(&self.ptype.to_be_bytes());
        v.push(self.hlen);
        v.push(self.plen);
        v.extend_from_slice(&self.op.to_be_bytes());
        v.extend_from_slice(&self.sha);
        v.extend_from_slice(&self.spa);
        v.extend_from_slice(&self.tha);
        v.extend_from_slice(&self.tpa);
        v
    }
    pub fn parse(b: &[u8]) -> Option<Arp> {
        if b.len() < 28 {
            return None;
        }
        let mut a = Arp {
            htype: u16::from_be_bytes([b[0], b[1]]),
            ptype: u16::from_be_bytes([b[2], b[3]]),
            hlen: b[4],
            plen: b[5],
            op: u16::from_be_bytes([b[6], b[7]]),
            sha: [0; 6],
            spa: [0; 4],
            tha: [0; 6],
            tpa: [0; 4],
        };
        a.sha.copy_from_slice(&b[8..14]);
        a.spa.copy_from_slice(&b[14..18]);
        a.tha.copy_from_slice(&b[18..24]);
        a.tpa.copy_from_slice(&b[24..28]);
        Some(a)
    }
}

pub fn ipv4_raw(
    src: [u8; 4],
    dst: [u8; 4],
    proto: u8,
    payload: &[u8],
    ihl: u8,
    total_len: Option<u16>,
    options: &[u8],
    ttl: u8,
    flags_frag: u16,
    ident: u16,
) -> Vec<u8> {
    let mut h = vec![0u8; 20];
    h[0] = 0x40 | (ihl & 0xf);
    let tl = total_len.unwrap_or((20 + options.len() + payload.len()) as u16);
    h[2..4].copy_from_slice(&tl.to_be_bytes());
    h[4..6].copy_from_slice(&ident.to_be_bytes());
    h[6..8].copy_from_slice(&flags_frag.to_be_bytes());
    h[8] = ttl;
    h[9] = proto;
    h[12..16].copy_from_slice(&src);
    h[16..20].copy_from_slice(&dst);
    h.extend_from_slice(options);
    let c = inet_csum(&[&h]);
    h[10..12].copy_from_slice(&c.to_be_bytes());
    h.extend_from_slice(payload);
    h
}

/// The same Ethernet / IPv4 frame with `options` (a multiple of 4 bytes, at most 40) inserted behind
/// the fixed IPv4 header: IHL, total length and header checksum adjusted, everything else as is.
pub fn with_ipv4_options(frame: &[u8], options: &[u8]) -> Option<Vec<u8>> {
    if frame.len() < 34 || frame[12] != 0x08 || frame[13] != 0x00 || frame[14] != 0x45 || options.len() % 4 != 0 || options.len() > 40 {
        return None;
    }
    let mut v = frame[..34].to_vec();
    v[14] = 0x40 | (5 + options.len() / 4) as u8;
    let tl = u16::from_be_bytes([v[16], v[17]]).checked_add(options.len() as u16)?;
    v[16..18].copy_from_slice(&tl.to_be_bytes());
    v[24] = 0;
    v[25] = 0;
    v.extend_from_slice(options);
    let c = inet_csum(&[&v[14..]]);
    v[24..26].copy_from_slice(&c.to_be_bytes());
    v.extend_from_slice(&frame[34..]);
    Some(v)
}

/// well-formed IPv4 option areas: NOP padding of 4 / 8 / 40 bytes, router alert, timestamp, record
/// route, end-of-list padding
pub fn ipv4_option_sets() -> Vec<Vec<u8>> {
    vec![vec![1; 4], vec![1; 8], vec![1; 40], vec![0x94, 4, 0, 0], vec![0x44, 12, 5, 0, 0, 0, 0, 0, 0, 0, 0, 0], vec![7, 7, 4, 0, 0, 0, 0, 0], vec![0; 4], vec![1, 1, 1, 0]]
}

pub fn ipv4(src: [u8; 4], dst: [u8; 4], proto: u8, payload: &[u8]) -> Vec<u8> {
    ipv4_raw(src, dst, proto, payload, 5, None, &[], 64, 0x4000, 0x1234)
}

pub fn ipv6_raw(
    src: [u8; 16],
    dst: [u8; 16],
    nh: u8,
    payload: &[u8],
    plen: Option<u16>,
    hlim: u8,
) -> Vec<u8> {
    let mut h = vec![0u8; 40];
    h[0] = 0x60;
    let pl = plen.unwrap_or(payload.len() as u16);
    h[4..6].copy_from_slice(&pl.to_be_bytes());
    h[6] = nh;
    h[7] = hlim;
    h[8..24].copy_from_slice(&src);
    h[24..40].copy_from_slice(&dst);
    h.extend_from_slice(payload);
    h
}

pub fn ipv6(src: [u8; 16], dst: [u8; 16], nh: u8, payload: &[u8]) -> Vec<u8> {
    ipv6_raw(src, dst, nh, payload, None, 64)
}

/// IP packet of the right version for (src, dst).
pub fn ip(src: &Ip, dst: &Ip, proto: u8, payload: &[u8]) -> Vec<u8> {
    match (src, dst) {
        (Ip::V4(s), Ip::V4(d)) => ipv4(*s, *d, proto, payload),
        (Ip::V6(s), Ip::V6(d)) => ipv6(*s, *d, proto, payload),
        _ => panic!("mixed IP versions"),
    }
}

pub fn ethertype_of(ip: &Ip) -> u16 {
    if ip.is_v4() {
        ET_IP4
    } else {
        ET_IP6
    }
}

pub fn icmp4(ty: u8, code: u8, rest: &[u8]) -> Vec<u8> {
    let mut v = vec![ty, code, 0, 0];
    v.extend_from_slice(rest);
    let c = inet_csum(&[&v]);
    v[2..4].copy_from_slice(&c.to_be_bytes());
    v
}

pub fn icmp6(src: &Ip, dst: &Ip, ty: u8, code: u8, rest: &[u8]) -> Vec<u8> {
    let mut v = vec![ty, code, 0, 0];
    v.extend_from_slice(rest);
    let ps = pseudo(src, dst, P_ICMP6, v.len());
    let c = inet_csum(&[&ps, &v]);
    v[2..4].copy_from_slice(&c.to_be_bytes());
    v
}

#[derive(Clone, Debug)]
pub struct TcpSeg {
    pub sport: u16,
    pub dport: u16,
    pub seq: u32,
    pub ack: u32,
    pub flags: u16,   // 9 bits
    pub reserved: u8, // 3 bits
    pub doff: u8,
    pub window: u16,
    pub urg: u16,
    pub options: Vec<u8>,
    pub payload: Vec<u8>,
}

impl TcpSeg {
    pub fn new(sport: u16, dport: u16, seq: u32, ack: u32, flags: u16, payload: &[u8]) -> TcpSeg {
        TcpSeg {
            sport,
            dport,
            seq,
            ack,
            flags,
            reserved: 0,
            doff: 5,
            window: 8192,
            urg: 0,
            options: vec![],
            payload: payload.to_vec(),
        }
    }
    pub fn bytes(&self, src: &Ip, dst: &Ip) -> Vec<u8> {
        let mut v = vec![0u8; 20];
        v[0..2].copy_from_slice(&self.sport.to_be_bytes());
        v[2..4].copy_from_slice(&self.dport.to_be_bytes());
        v[4..8].copy_from_slice(&self.seq.to_be_bytes());
        v[8..12].copy_from_slice(&self.ack.to_be_bytes());
        v[12] = (self.doff << 4) | ((self.reserved & 7) << 1) | ((self.flags >> 8) as u8 & 1);
        v[13] = (self.flags & 0xff) as u8;
        v[14..16].copy_from_slice(&self.window.to_be_bytes());
        v[18..20].copy_from_slice(&self.urg.to_be_bytes());
        v.extend_from_slice(&self.options);
        v.extend_from_slice(&self.payload);
        let ps = pseudo(src, dst, P_TCP, v.len());
        let c = inet_csum(&[&ps, &v]);
        v[16..18].copy_from_slice(&c.to_be_bytes());
        v
    }
}

pub fn udp_raw(src: &Ip, dst: &Ip, sport: u16, dport: u16, payload: &[u8], len: Option<u16>) -> Vec<u8> {
    let mut v = vec![0u8; 8];
    v[0..2].copy_from_slice(&sport.to_be_bytes());
    v[2..4].copy_from_slice(&dport.to_be_bytes());
    let l = len.unwrap_or((8 + payload.len()) as u16);
    v[4..6].copy_from_slice(&l.to_be_bytes());
    v.extend_from_slice(payload);
    let ps = pseudo(src, dst, P_UDP, v.len());
    let mut c = inet_csum(&[&ps, &v]);
    if c == 0 {
        c = 0xffff;
    }
    v[6..8].copy_from_slice(&c.to_be_bytes());
    v
}

pub fn udp(src: &Ip, dst: &Ip, sport: u16, dport: u16, payload: &[u8]) -> Vec<u8> {
    udp_raw(src, dst, sport, dport, payload, None)
}

/// Recompute the IPv4 header checksum and the TCP / UDP checksum of a frame in place, as a real
/// sender would after changing a header field (no-op when the frame's lengths are inconsistent).
pub fn refresh_checksums(frame: &mut [u8]) {
    if frame.len() < 34 {
        return;
    }
    let et = u16::from_be_bytes([frame[12], frame[13]]);
    let (l4, proto, src, dst) = if et == ET_IP4 {
        let ihl = (frame[14] & 0x0f) as usize * 4;
        if frame[14] >> 4 != 4 || ihl < 20 || frame.len() < 14 + ihl {
            return;
        }
        frame[24] = 0;
        frame[25] = 0;
        let c = inet_csum(&[&frame[14..14 + ihl]]);
        frame[24..26].copy_from_slice(&c.to_be_bytes());
        let tl = u16::from_be_bytes([frame[16], frame[17]]) as usize;
        if tl < ihl || 14 + tl != frame.len() {
            return;
        }
        let mut s = [0u8; 4];
        s.copy_from_slice(&frame[26..30]);
        let mut d = [0u8; 4];
        d.copy_from_slice(&frame[30..34]);
        (14 + ihl, frame[23], Ip::V4(s), Ip::V4(d))
    } else if et == ET_IP6 && frame.len() >= 54 {
        let pl = u16::from_be_bytes([frame[18], frame[19]]) as usize;
        if 54 + pl != frame.len() {
            return;
        }
        let mut s = [0u8; 16];
        s.copy_from_slice(&frame[22..38]);
        let mut d = [0u8; 16];
        d.copy_from_slice(&frame[38..54]);
        (54, frame[20], Ip::V6(s), Ip::V6(d))
    } else {
        return;
    };
    let n = frame.len() - l4;
    let off = match proto {
        P_TCP if n >= 20 => 16,
        P_UDP if n >= 8 => 6,
        _ => return,
    };
    frame[l4 + off] = 0;
    frame[l4 + off + 1] = 0;
    let ps = pseudo(&src, &dst, proto, n);
    let mut c = inet_csum(&[&ps, &frame[l4..]]);
    if proto == P_UDP && c == 0 {
        c = 0xffff;
    }
    frame[l4 + off..l4 + off + 2].copy_from_slice(&c.to_be_bytes());
}

/// A client/server endpoint pair used to build complete frames.
#[derive(Clone, Debug, PartialEq, Eq, Hash)]
pub struct Flow {
    pub cmac: Mac,
    pub smac: Mac,
    pub cip: Ip,
    pub sip: Ip,
    pub cport: u16,
    pub sport: u16,
}

impl Flow {
    pub fn ip_frame(&self, proto: u8, l4: &[u8]) -> Vec<u8> {
        eth(
            &self.smac,
            &self.cmac,
            ethertype_of(&self.cip),
            &ip(&self.cip, &self.sip, proto, l4),
        )
    }
    pub fn tcp(&self, seq: u32, ack: u32, flags: u16, payload: &[u8]) -> Vec<u8> {
        let seg = TcpSeg::new(self.cport, self.sport, seq, ack, flags, payload);
        self.ip_frame(P_TCP, &seg.bytes(&self.cip, &self.sip))
    }
    pub fn tcp_seg(&self, seg: &TcpSeg) -> Vec<u8> {
        self.ip_frame(P_TCP, &seg.bytes(&self.cip, &self.sip))
    }
    pub fn udp(&self, payload: &[u8]) -> Vec<u8> {
        self.ip_frame(
            P_UDP,
            &udp(&self.cip, &self.sip, self.cport, self.sport, payload),
        )
    }
    pub fn icmp_echo(&self, id: u16, seq: u16, data: &[u8]) -> Vec<u8> {
        let mut rest = Vec::new();
        rest.extend_from_slice(&id.to_be_bytes());
        rest.extend_from_slice(&seq.to_be_bytes());
        rest.extend_from_slice(data);
        if self.cip.is_v4() {
            self.ip_frame(P_ICMP, &icmp4(8, 0, &rest))
        } else {
            self.ip_frame(P_ICMP6, &icmp6(&self.cip, &self.sip, 128, 0, &rest))
        }
    }
}

/* ---------------------------------------------------------------- parsers */

#[derive(Clone, Debug)]
pub struct PEth<'a> {
    pub dst: Mac,
    pub src: Mac,
    pub et: u16,
    pub payload: &'a [u8],
}

pub fn parse_eth(b: &[u8]) -> Option<PEth<'_>> {
    if b.len() < 14 {
        return None;
    }
    let mut dst = [0; 6];
    let mut src = [0; 6];
    dst.copy_from_slice(&b[0..6]);
    src.copy_from_slice(&b[6..12]);
    Some(PEth {
        dst,
        src,
        et: u16::from_be_bytes([b[12], b[13]]),
        payload: &b[14..],
    })
}

#[derive(Clone, Debug)]
pub struct PIp<'a> {
    pub src: Ip,
    pub dst: Ip,
    pub proto: u8,
    pub ttl: u8,
    /// header bytes (incl. options)
    pub header: &'a [u8],
    /// payload as delimited by the length fields, clamped to the buffer
    pub payload: &'a [u8],
    /// true when version, header length and length fields agree with the buffer
    pub consistent: bool,
    pub flags_frag: u16,
}

/// IPv4 as the wire says (lenient like a receiver that trusts length fields but never
/// reads outside the buffer).
pub fn parse_ipv4(b: &[u8]) -> Option<PIp<'_>> {
    if b.len() < 20 {
        return None;
    }
    let ver = b[0] >> 4;
    let ihl = (b[0] & 0xf) as usize;
    let tl = u16::from_be_bytes([b[2], b[3]]) as usize;
    let optlen = (ihl * 4).saturating_sub(20);
    let start = 20 + optlen;
    let plen = tl.saturating_sub(ihl * 4);
    let payload: &[u8] = if b.len() <= start {
        &[]
    } else {
        &b[start..std::cmp::min(start + plen, b.len())]
    };
    let mut s = [0; 4];
    let mut d = [0; 4];
    s.copy_from_slice(&b[12..16]);
    d.copy_from_slice(&b[16..20]);
    Some(PIp {
        src: Ip::V4(s),
        dst: Ip::V4(d),
        proto: b[9],
        ttl: b[8],
        header: &b[..std::cmp::min(start, b.len())],
        payload,
        // bytes after the datagram (tl < b.len(): link-layer padding / trailer) are legitimate
        consistent: ver == 4 && ihl >= 5 && tl <= b.len() && start <= tl,
        flags_frag: u16::from_be_bytes([b[6], b[7]]),
    })
}

pub fn parse_ipv6(b: &[u8]) -> Option<PIp<'_>> {
    if b.len() < 40 {
        return None;
    }
    let ver = b[0] >> 4;
    let pl = u16::from_be_bytes([b[4], b[5]]) as usize;
    let payload = &b[40..std::cmp::min(40 + pl, b.len())];
    let mut s = [0; 16];
    let mut d = [0; 16];
    s.copy_from_slice(&b[8..24]);
    d.copy_from_slice(&b[24..40]);
    Some(PIp {
        src: Ip::V6(s),
        dst: Ip::V6(d),
        proto: b[6],
        ttl: b[7],
        header: &b[..40],
        payload,
        consistent: ver == 6 && 40 + pl <= b.len(),
        flags_frag: 0,
    })
}

#[derive(Clone, Debug)]
pub struct PTcp<'a> {
    pub sport: u16,
    pub dport: u16,
    pub seq: u32,
    pub ack: u32,
    pub doff: u8,
    pub reserved: u8,
    pub flags: u16,
    pub window: u16,
    pub csum: u16,
    pub payload: &'a [u8],
    pub consistent: bool,
}

pub fn parse_tcp(b: &[u8]) -> Option<PTcp<'_>> {
    if b.len() < 20 {
        return None;
    }
    let doff = b[12] >> 4;
    let optlen = (doff as usize * 4).saturating_sub(20);
    let start = 20 + optlen;
    let payload: &[u8] = if b.len() <= start { &[] } else { &b[start..] };
    Some(PTcp {
        sport: u16::from_be_bytes([b[0], b[1]]),
        dport: u16::from_be_bytes([b[2], b[3]]),
        seq: u32::from_be_bytes([b[4], b[5], b[6], b[7]]),
        ack: u32::from_be_bytes([b[8], b[9], b[10], b[11]]),
        doff,
        reserved: (b[12] >> 1) & 7,
        flags: (((b[12] & 1) as u16) << 8) | b[13] as u16,
        window: u16::from_be_bytes([b[14], b[15]]),
        csum: u16::from_be_bytes([b[16], b[17]]),
        payload,
        consistent: doff >= 5 && start <= b.len(),
    })
}

#[derive(Clone, Debug)]
pub struct PUdp<'a> {
    pub sport: u16,
    pub dport: u16,
    pub len: u16,
    pub csum: u16,
    pub payload: &'a [u8],
    pub consistent: bool,
}

pub fn parse_udp(b: &[u8]) -> Option<PUdp<'_>> {
    if b.len() < 8 {
        return None;
    }
    let len = u16::from_be_bytes([b[4], b[5]]);
    Some(PUdp {
        sport: u16::from_be_bytes([b[0], b[1]]),
        dport: u16::from_be_bytes([b[2], b[3]]),
        len,
        csum: u16::from_be_bytes([b[6], b[7]]),
        payload: &b[8..],
        consistent: len as usize == b.len(),
    })
}

#[cfg(test)]
mod tests {
    use super::*;

    #[test]
    fn rfc1071_example() {
        // RFC 1071 section 3: 0001 f203 f4f5 f6f7 -> sum ddf2 -> checksum 220d
        let d = [0x00, 0x01, 0xf2, 0x03, 0xf4, 0xf5, 0xf6, 0xf7];
        assert_eq!(ones_sum(&[&d]), 0xddf2);
        assert_eq!(inet_csum(&[&d]), 0x220d);
    }
    #[test]
    fn ipv4_header_example() {
        // classic example header: 4500 0073 0000 4000 4011 b861 c0a8 0001 c0a8 00c7
        let mut h = unhex("450000730000400040110000c0a80001c0a800c7").unwrap();
        let c = inet_csum(&[&h]);
        assert_eq!(c, 0xb861);
        h[10..12].copy_from_slice(&c.to_be_bytes());
        assert_eq!(ones_sum(&[&h]), 0xffff);
    }
    #[test]
    fn odd_length_and_split() {
        let d = [1u8, 2, 3, 4, 5];
        assert_eq!(ones_sum(&[&d]), ones_sum(&[&d[..2], &d[2..]]));
        assert_eq!(ones_sum(&[&d]), 0x0102 + 0x0304 + 0x0500);
    }
    #[test]
    fn tcp_flags_roundtrip() {
        let a = Ip::V4([1, 2, 3, 4]);
        let b = Ip::V4([5, 6, 7, 8]);
        let mut s = TcpSeg::new(1, 2, 3, 4, 0x1ff, b"xy");
        s.reserved = 5;
        let bytes = s.bytes(&a, &b);
        let p = parse_tcp(&bytes).unwrap();
        assert_eq!(p.flags, 0x1ff);
        assert_eq!(p.reserved, 5);
        assert_eq!(p.payload, b"xy");
        let ps = pseudo(&a, &b, P_TCP, bytes.len());
        assert_eq!(ones_sum(&[&ps, &bytes]), 0xffff);
    }
}
