//! Reference signature set of C10, hard-coded from the property statement and the published
//! constants (NOT read from the code under check), and a plain reference dispatcher.

#[derive(Clone, Copy, Debug, PartialEq, Eq, Hash, PartialOrd, Ord)]
pub enum Proto {
    Http,
    Stun,
    Ssh,
    Ghost,
    RpcTcp,
    RpcUdp,
    Smb1,
    Smb2,
}

impl Proto {
    /// numeric id used by the implementation for this protocol (for the matcher product only)
    pub fn impl_id(&self) -> i64 {
        match self {
            Proto::Http => 1,
            Proto::Stun => 2,
            Proto::Ssh => 3,
            Proto::Ghost => 4,
            Proto::RpcTcp => 5,
            Proto::RpcUdp => 6,
            Proto::Smb1 => 7,
            Proto::Smb2 => 8,
        }
    }
    pub fn name(&self) -> &'static str {
        match self {
            Proto::Http => "http",
            Proto::Stun => "stun",
            Proto::Ssh => "ssh",
            Proto::Ghost => "ghost",
            Proto::RpcTcp => "rpc-tcp",
            Proto::RpcUdp => "rpc-udp",
            Proto::Smb1 => "smb1",
            Proto::Smb2 => "smb2",
        }
    }
}

#[derive(Clone, Debug)]
pub struct Sig {
    pub name: &'static str,
    pub proto: Proto,
    /// None = wildcard (any byte)
    pub pat: Vec<Option<u8>>,
    pub anchor_end: bool,
}

fn lit(name: &'static str, proto: Proto, s: &[u8]) -> Sig {
    Sig {
        name,
        proto,
        pat: s.iter().map(|b| Some(*b)).collect(),
        anchor_end: false,
    }
}

/// pattern with '*' as wildcard
fn wild(name: &'static str, proto: Proto, s: &[u8], anchor_end: bool) -> Sig {
    Sig {
        name,
        proto,
        pat: s.iter().map(|b| if *b == b'*' { None } else { Some(*b) }).collect(),
        anchor_end,
    }
}

pub const HTTP_VERBS: [&str; 9] = [
    "GET", "PUT", "POST", "HEAD", "DELETE", "CONNECT", "OPTIONS", "TRACE", "PATCH",
];

/// The 19 published signatures, all anchored at the first byte of the payload/stream.
pub fn signatures() -> Vec<Sig> {
    let mut v = Vec::new();
    v.push(lit("http-GET", Proto::Http, b"GET /"));
    v.push(lit("http-PUT", Proto::Http, b"PUT /"));
    v.push(lit("http-POST", Proto::Http, b"POST /"));
    v.push(lit("http-HEAD", Proto::Http, b"HEAD /"));
    v.push(lit("http-DELETE", Proto::Http, b"DELETE /"));
    v.push(lit("http-CONNECT", Proto::Http, b"CONNECT /"));
    v.push(lit("http-OPTIONS", Proto::Http, b"OPTIONS /"));
    v.push(lit("http-TRACE", Proto::Http, b"TRACE /"));
    v.push(lit("http-PATCH", Proto::Http, b"PATCH /"));
    v.push(wild("stun-magic", Proto::Stun, b"\x00\x01**\x21\x12\xa4\x42", false));
    v.push(wild("stun-empty", Proto::Stun, b"\x00\x01\x00\x00****************", true));
    v.push(wild(
        "stun-change",
        Proto::Stun,
        b"\x00\x01\x00\x08****************\x00\x03\x00\x04\x00\x00\x00*",
        true,
    ));
    v.push(lit("ssh-2.0", Proto::Ssh, b"SSH-2.0"));
    v.push(lit("ssh-1.99", Proto::Ssh, b"SSH-1.99"));
    v.push(lit("ghost", Proto::Ghost, b"Gh0st"));
    v.push(wild(
        "rpc-tcp",
        Proto::RpcTcp,
        b"********\x00\x00\x00\x00\x00\x00\x00*\x00\x01\x86*****\x00\x00\x00*",
        false,
    ));
    v.push(wild(
        "rpc-udp",
        Proto::RpcUdp,
        b"****\x00\x00\x00\x00\x00\x00\x00*\x00\x01\x86*****\x00\x00\x00*",
        false,
    ));
    v.push(wild("smb1", Proto::Smb1, b"\x00\x00**\xffSMB", false));
    v.push(wild("smb2", Proto::Smb2, b"\x00\x00**\xfeSMB", false));
    v
}

#[derive(Clone, Debug, PartialEq, Eq)]
pub enum Dispatch {
    /// first completed signature: (protocol, signature index, bytes consumed)
    Matched(Proto, usize, usize),
    /// no signature can complete any more
    Dead,
    /// some signature is still alive but none completed on the bytes seen so far
    Pending,
}

/// "Taking the first signature completed": scan the stream; at each length the signatures are
/// tried in list order.  `at_end` tells whether the end of `data` is the end of the message
/// (datagrams), which is what end-anchored signatures need.
pub fn dispatch(sigs: &[Sig], data: &[u8], at_end: bool) -> Dispatch {
    let mut alive: Vec<bool> = vec![true; sigs.len()];
    for n in 0..=data.len() {
        // completions at length n
        for (i, s) in sigs.iter().enumerate() {
            if alive[i] && s.pat.len() == n {
                if !s.anchor_end {
                    return Dispatch::Matched(s.proto, i, n);
                } else if n == data.len() && at_end {
                    return Dispatch::Matched(s.proto, i, n);
                }
            }
        }
        if n == data.len() {
            break;
        }
        let b = data[n];
        for (i, s) in sigs.iter().enumerate() {
            if !alive[i] {
                continue;
            }
            if n >= s.pat.len() {
                // pattern exhausted: only an end-anchored one gets here; more input kills it
                alive[i] = false;
                continue;
            }
            if let Some(x) = s.pat[n] {
                if x != b {
                    alive[i] = false;
                }
            }
        }
        if !alive.iter().any(|a| *a) {
            return Dispatch::Dead;
        }
    }
    // end of data: anything still alive (and, for datagrams, not yet complete) ?
    let any_alive = sigs
        .iter()
        .enumerate()
        .any(|(i, s)| alive[i] && (s.pat.len() > data.len() || (s.anchor_end && !at_end)));
    if any_alive && !at_end {
        Dispatch::Pending
    } else {
        Dispatch::Dead
    }
}

#[cfg(test)]
mod tests {
    use super::*;
    #[test]
    fn basic() {
        let s = signatures();
        assert_eq!(s.len(), 19);
        assert!(matches!(dispatch(&s, b"GET / HTTP/1.1\r\n\r\n", true), Dispatch::Matched(Proto::Http, _, 5)));
        assert!(matches!(dispatch(&s, b"GE", false), Dispatch::Pending));
        assert!(matches!(dispatch(&s, b"GE", true), Dispatch::Dead));
        assert!(matches!(dispatch(&s, b"GEX", false), Dispatch::Pending));
        assert!(matches!(dispatch(&s, b"GEX / HTTP/1.1\r\n\r\n", false), Dispatch::Dead));
        let mut stun = vec![0u8, 1, 0, 0];
        stun.extend_from_slice(&[7u8; 16]);
        assert!(matches!(dispatch(&s, &stun, true), Dispatch::Matched(Proto::Stun, _, 20)));
        assert!(matches!(dispatch(&s, &stun, false), Dispatch::Pending));
        stun.push(0);
        assert!(matches!(dispatch(&s, &stun, true), Dispatch::Dead));
        let magic = b"\x00\x01\x00\x0c\x21\x12\xa4\x42abcdefghijkl";
        assert!(matches!(dispatch(&s, magic, true), Dispatch::Matched(Proto::Stun, _, 8)));
    }
}
