//! Driver processes: the real masscanned binary (built from /repo with the verification
//! cfg) serving `reply()` over stdin/stdout.

use std::io::{BufRead, BufReader, BufWriter, Write};
use std::process::{Child, ChildStdin, Command, Stdio};
use std::sync::mpsc::{channel, Receiver, RecvTimeoutError};
use std::time::Duration;

use crate::wire::{hex, mac_str, unhex, Ip, Mac};

#[derive(Clone, Copy, Debug, PartialEq, Eq, Hash, PartialOrd, Ord)]
pub enum LoggerKind {
    None,
    Console,
    Logfmt,
}

#[derive(Clone, Copy, Debug, PartialEq, Eq, Hash, PartialOrd, Ord)]
pub enum Level {
    Off,
    Error,
    Warn,
    Info,
    Debug,
    Trace,
}

pub const ALL_LEVELS: [Level; 6] = [
    Level::Off,
    Level::Error,
    Level::Warn,
    Level::Info,
    Level::Debug,
    Level::Trace,
];
pub const ALL_LOGGERS: [LoggerKind; 3] = [LoggerKind::None, LoggerKind::Console, LoggerKind::Logfmt];

#[derive(Clone, Copy, Debug, PartialEq, Eq, Hash, PartialOrd, Ord)]
pub enum Profile {
    Dev,
    Release,
}

#[derive(Clone, Debug, PartialEq, Eq, Hash)]
pub struct Cfg {
    pub mac: Mac,
    pub key: [u64; 2],
    pub self_ips: Vec<Ip>,
    pub deny_ips: Vec<Ip>,
    pub logger: LoggerKind,
    pub level: Level,
    pub profile: Profile,
}

pub const MAC_SRV: Mac = [0xc0, 0xff, 0xee, 0xc0, 0xff, 0xee];

impl Cfg {
    pub fn base() -> Cfg {
        Cfg {
            mac: MAC_SRV,
            key: [0, 0],
            self_ips: vec![],
            deny_ips: vec![],
            logger: LoggerKind::None,
            level: Level::Off,
            profile: Profile::Release,
        }
    }
    pub fn with_self(mut self, ips: &[Ip]) -> Cfg {
        self.self_ips = ips.to_vec();
        self
    }
    pub fn with_deny(mut self, ips: &[Ip]) -> Cfg {
        self.deny_ips = ips.to_vec();
        self
    }
    pub fn with_log(mut self, logger: LoggerKind, level: Level) -> Cfg {
        self.logger = logger;
        self.level = level;
        self
    }
    pub fn with_profile(mut self, p: Profile) -> Cfg {
        self.profile = p;
        self
    }
    pub fn with_key(mut self, k: [u64; 2]) -> Cfg {
        self.key = k;
        self
    }
    pub fn describe(&self) -> String {
        format!(
            "mac={} key={:x},{:x} self=[{}] deny=[{}] logger={:?} level={:?} profile={:?}",
            mac_str(&self.mac),
            self.key[0],
            self.key[1],
            self.self_ips.iter().map(|i| i.to_string()).collect::<Vec<_>>().join(","),
            self.deny_ips.iter().map(|i| i.to_string()).collect::<Vec<_>>().join(","),
            self.logger,
            self.level,
            self.profile
        )
    }
    pub fn to_json(&self) -> serde_json::Value {
        serde_json::json!({
            "mac": mac_str(&self.mac),
            "key": format!("{:x},{:x}", self.key[0], self.key[1]),
            "self_ips": self.self_ips.iter().map(|i| i.to_string()).collect::<Vec<_>>(),
            "deny_ips": self.deny_ips.iter().map(|i| i.to_string()).collect::<Vec<_>>(),
            "logger": format!("{:?}", self.logger).to_lowercase(),
            "level": format!("{:?}", self.level).to_lowercase(),
            "profile": format!("{:?}", self.profile).to_lowercase(),
        })
    }
    pub fn from_json(v: &serde_json::Value) -> Option<Cfg> {
        let macs = v["mac"].as_str()?;
        let mut mac = [0u8; 6];
        for (i, p) in macs.split(':').enumerate() {
            mac[i] = u8::from_str_radix(p, 16).ok()?;
        }
        let ks = v["key"].as_str()?;
        let mut it = ks.split(',');
        let key = [
            u64::from_str_radix(it.next()?, 16).ok()?,
            u64::from_str_radix(it.next()?, 16).ok()?,
        ];
        let ips = |k: &str| -> Vec<Ip> {
            v[k].as_array()
                .map(|a| a.iter().filter_map(|x| x.as_str()).map(Ip::parse).collect())
                .unwrap_or_default()
        };
        Some(Cfg {
            mac,
            key,
            self_ips: ips("self_ips"),
            deny_ips: ips("deny_ips"),
            logger: match v["logger"].as_str()? {
                "none" => LoggerKind::None,
                "console" => LoggerKind::Console,
                "logfmt" => LoggerKind::Logfmt,
                _ => return None,
            },
            level: match v["level"].as_str()? {
                "off" => Level::Off,
                "error" => Level::Error,
                "warn" => Level::Warn,
                "info" => Level::Info,
                "debug" => Level::Debug,
                "trace" => Level::Trace,
                _ => return None,
            },
            profile: match v["profile"].as_str()? {
                "dev" => Profile::Dev,
                "release" => Profile::Release,
                _ => return None,
            },
        })
    }
}

#[derive(Clone, Debug, PartialEq, Eq)]
pub enum Cmd {
    Reset,
    Frame(Vec<u8>),
    Dump,
    SmackNext(usize, Vec<u8>),
    SmackEnd(usize),
}

impl Cmd {
    pub fn line(&self) -> String {
        match self {
            Cmd::Reset => "R\n".to_string(),
            Cmd::Frame(f) => format!("F {}\n", hex(f)),
            Cmd::Dump => "T\n".to_string(),
            Cmd::SmackNext(s, b) => format!("S {} {}\n", s, hex(b)),
            Cmd::SmackEnd(s) => format!("E {}\n", s),
        }
    }
    pub fn to_json(&self) -> serde_json::Value {
        match self {
            Cmd::Reset => serde_json::json!({"op": "reset"}),
            Cmd::Frame(f) => serde_json::json!({"op": "frame", "hex": hex(f)}),
            Cmd::Dump => serde_json::json!({"op": "dump"}),
            Cmd::SmackNext(s, b) => serde_json::json!({"op": "smack_next", "state": s, "hex": hex(b)}),
            Cmd::SmackEnd(s) => serde_json::json!({"op": "smack_end", "state": s}),
        }
    }
    pub fn from_json(v: &serde_json::Value) -> Option<Cmd> {
        Some(match v["op"].as_str()? {
            "reset" => Cmd::Reset,
            "frame" => Cmd::Frame(unhex(v["hex"].as_str()?)?),
            "dump" => Cmd::Dump,
            "smack_next" => Cmd::SmackNext(v["state"].as_u64()? as usize, unhex(v["hex"].as_str()?)?),
            "smack_end" => Cmd::SmackEnd(v["state"].as_u64()? as usize),
            _ => return None,
        })
    }
}

/// Observation for one command.
#[derive(Clone, Debug, Default, PartialEq, Eq)]
pub struct Out {
    pub panicked: bool,
    /// reply frame (Frame commands)
    pub reply: Option<Vec<u8>>,
    /// connection-table size after the command
    pub n: usize,
    /// panic message, table dump, or error text
    pub text: String,
    /// complete event-logger lines printed while the command ran
    pub log: Vec<String>,
    /// bytes printed after the last newline and before the record (must be empty)
    pub partial: String,
    /// (new state, id, consumed) for matcher commands
    pub smack: Option<(usize, i64, usize)>,
}

#[derive(Debug)]
pub enum DriverErr {
    /// the process died while handling command #i of the batch
    Died(usize, Vec<Out>),
    /// no record within the watchdog while handling command #i
    Timeout(usize, Vec<Out>),
    Protocol(String),
}

enum Rec {
    Ready(Vec<String>),
    Rec(Out),
    Err(String),
    Eof,
}

pub struct Driver {
    child: Child,
    stdin: BufWriter<ChildStdin>,
    rx: Receiver<Rec>,
    pub cfg: Cfg,
    pub init_log: Vec<String>,
}

pub fn driver_path(p: Profile) -> String {
    let base = std::env::var("MCX_BUILD_DIR").unwrap_or_else(|_| "/verif/.build".to_string());
    match p {
        Profile::Dev => format!("{}/hooks-dev/debug/masscanned", base),
        Profile::Release => format!("{}/hooks-release/release/masscanned", base),
    }
}

pub const WATCHDOG: Duration = Duration::from_secs(20);

impl Driver {
    pub fn spawn(cfg: &Cfg) -> Result<Driver, String> {
        let path = driver_path(cfg.profile);
        let mut cmd = Command::new(&path);
        cmd.env_clear()
            .env("MASSCANNED_VERIF", "1")
            .env("VERIF_MAC", mac_str(&cfg.mac))
            .env("VERIF_KEY", format!("{:x},{:x}", cfg.key[0], cfg.key[1]))
            .env(
                "VERIF_SELF_IPS",
                cfg.self_ips.iter().map(|i| i.to_string()).collect::<Vec<_>>().join(","),
            )
            .env(
                "VERIF_DENY_IPS",
                cfg.deny_ips.iter().map(|i| i.to_string()).collect::<Vec<_>>().join(","),
            )
            .env("VERIF_LOGGER", format!("{:?}", cfg.logger).to_lowercase())
            .env("VERIF_LOGLEVEL", format!("{:?}", cfg.level).to_lowercase())
            .env("TZ", "UTC")
            .stdin(Stdio::piped())
            .stdout(Stdio::piped())
            .stderr(Stdio::null());
        let mut child = cmd.spawn().map_err(|e| format!("cannot spawn {}: {}", path, e))?;
        let stdin = BufWriter::with_capacity(1 << 16, child.stdin.take().unwrap());
        let stdout = child.stdout.take().unwrap();
        let (tx, rx) = channel();
        std::thread::spawn(move || {
            let mut rd = BufReader::with_capacity(1 << 16, stdout);
            let mut pending: Vec<String> = Vec::new();
            let mut buf = Vec::new();
            loop {
                buf.clear();
                match rd.read_until(b'\n', &mut buf) {
                    Ok(0) | Err(_) => {
                        let _ = tx.send(Rec::Eof);
                        return;
                    }
                    Ok(_) => {}
                }
                if buf.last() == Some(&b'\n') {
                    buf.pop();
                }
                let line = String::from_utf8_lossy(&buf).to_string();
                if let Some(rest) = line.strip_prefix("@@") {
                    let mut lines = std::mem::take(&mut pending);
                    let partial = lines.pop().unwrap_or_default();
                    let rec = parse_record(rest, lines, partial);
                    if tx.send(rec).is_err() {
                        return;
                    }
                } else {
                    pending.push(line);
                }
            }
        });
        let init_log = match rx.recv_timeout(WATCHDOG) {
            Ok(Rec::Ready(l)) => l,
            Ok(_) => return Err("driver: unexpected first record".to_string()),
            Err(_) => return Err(format!("driver {} did not start", path)),
        };
        Ok(Driver {
            child,
            stdin,
            rx,
            cfg: cfg.clone(),
            init_log,
        })
    }

    /// Execute a batch; one Out per command, in order.
    pub fn exec(&mut self, cmds: &[Cmd]) -> Result<Vec<Out>, DriverErr> {
        // write everything (the reader thread keeps draining, so this cannot deadlock)
        let mut write_failed = false;
        for c in cmds {
            if self.stdin.write_all(c.line().as_bytes()).is_err() {
                write_failed = true;
                break;
            }
        }
        if !write_failed && self.stdin.flush().is_err() {
            write_failed = true;
        }
        let _ = write_failed; // a dead process shows up as Eof below
        let mut outs = Vec::with_capacity(cmds.len());
        for i in 0..cmds.len() {
            match self.rx.recv_timeout(WATCHDOG) {
                Ok(Rec::Rec(o)) => outs.push(o),
                Ok(Rec::Err(e)) => return Err(DriverErr::Protocol(format!("{} for {:?}", e, cmds[i]))),
                Ok(Rec::Ready(_)) => return Err(DriverErr::Protocol("unexpected READY".into())),
                Ok(Rec::Eof) => return Err(DriverErr::Died(i, outs)),
                Err(RecvTimeoutError::Timeout) => return Err(DriverErr::Timeout(i, outs)),
                Err(RecvTimeoutError::Disconnected) => return Err(DriverErr::Died(i, outs)),
            }
        }
        Ok(outs)
    }

    pub fn one(&mut self, c: Cmd) -> Result<Out, DriverErr> {
        let mut v = self.exec(&[c])?;
        Ok(v.pop().unwrap())
    }
}

impl Drop for Driver {
    fn drop(&mut self) {
        let _ = self.stdin.write_all(b"Q\n");
        let _ = self.stdin.flush();
        let _ = self.child.kill();
        let _ = self.child.wait();
    }
}

fn parse_record(rest: &str, log: Vec<String>, partial: String) -> Rec {
    if rest == "READY" {
        return Rec::Ready(log);
    }
    let mut o = Out {
        log,
        partial,
        ..Default::default()
    };
    if let Some(r) = rest.strip_prefix("R ") {
        // ok|panic <hex|-> n=<k> [msg]
        let mut it = r.splitn(4, ' ');
        let st = it.next().unwrap_or("");
        let rep = it.next().unwrap_or("-");
        let n = it.next().unwrap_or("n=0");
        let msg = it.next().unwrap_or("");
        o.panicked = st == "panic";
        if st != "ok" && st != "panic" {
            return Rec::Err(format!("bad record: {}", rest));
        }
        if rep != "-" {
            match unhex(rep) {
                Some(b) => o.reply = Some(b),
                None => return Rec::Err(format!("bad reply hex: {}", rest)),
            }
        }
        o.n = n.trim_start_matches("n=").parse().unwrap_or(usize::MAX);
        o.text = msg.to_string();
        Rec::Rec(o)
    } else if let Some(r) = rest.strip_prefix("T ") {
        o.text = r.to_string();
        Rec::Rec(o)
    } else if let Some(r) = rest.strip_prefix("S ") {
        if r == "panic" {
            o.panicked = true;
            return Rec::Rec(o);
        }
        let p: Vec<&str> = r.split(' ').collect();
        if p.len() != 3 {
            return Rec::Err(format!("bad S record: {}", rest));
        }
        match (p[0].parse::<usize>(), p[1].parse::<i64>(), p[2].parse::<usize>()) {
            (Ok(a), Ok(b), Ok(c)) => {
                o.smack = Some((a, b, c));
                Rec::Rec(o)
            }
            _ => Rec::Err(format!("bad S record: {}", rest)),
        }
    } else {
        Rec::Err(format!("driver said: {}", rest))
    }
}
