//! C01 — no frame, history or configuration can crash the responder.
//! Deviation neighbourhoods of the base corpus + all short strings after each signature +
//! parser-state histories, over the configuration lattice, on both build profiles.

use std::collections::HashMap;
use std::sync::Mutex;

use crate::corpus::*;
use crate::deviate::{self, Field};
use crate::driver::{Cfg, Cmd, Level, LoggerKind, Profile, ALL_LEVELS, ALL_LOGGERS};
use crate::engine::{self, Item, Report, RunOpts, Sink, Violation};
use crate::model::FlowKey;
use crate::wire::*;

#[derive(Clone, Debug)]
enum Dev {
    Trunc,
    FieldVal(Field),
    Byte(usize), // byte position (x 256 values)
    Tail,
}

struct Family {
    base: usize,
    dev: Dev,
    count: u64,
}

pub struct Space {
    base: Vec<BaseFrame>,
    fams: Vec<Family>,
    offs: Vec<u64>,
}

impl Space {
    fn total(&self) -> u64 {
        *self.offs.last().unwrap()
    }
    fn item(&self, i: u64) -> (usize, Vec<u8>) {
        let k = self.offs.partition_point(|o| *o <= i) - 1;
        let f = &self.fams[k];
        let j = i - self.offs[k];
        let b = &self.base[f.base].frame;
        let fr = match &f.dev {
            Dev::Trunc => b[..j as usize].to_vec(),
            Dev::FieldVal(fd) => {
                let vals = deviate::field_values(fd);
                let mut x = b.clone();
                deviate::set_field(&mut x, fd, vals[j as usize]);
                x
            }
            Dev::Byte(pos) => {
                let mut x = b.clone();
                x[*pos] = j as u8;
                x
            }
            Dev::Tail => {
                let tl = deviate::tail_lengths(b.len());
                let n = tl[(j / deviate::TAIL_FILL.len() as u64) as usize];
                let fill = deviate::TAIL_FILL[(j % deviate::TAIL_FILL.len() as u64) as usize];
                let mut x = b.clone();
                x.extend(std::iter::repeat(fill).take(n));
                x
            }
        };
        (f.base, fr)
    }
}

/// classes: "TL" (truncations + length fields), "B1h" (header bytes, one frame per L3/L4 kind),
/// "B1p" (payload bytes, first `pay` bytes), "A" (tails)
fn build_space(base: Vec<BaseFrame>, classes: &[&str], pay: usize, subset: Option<&dyn Fn(&BaseFrame) -> bool>) -> Space {
    let mut fams = Vec::new();
    let mut seen_hdr: std::collections::HashSet<(u16, u8, bool)> = Default::default();
    for (bi, b) in base.iter().enumerate() {
        if let Some(f) = subset {
            if !f(b) {
                continue;
            }
        }
        if classes.contains(&"T") {
            fams.push(Family { base: bi, dev: Dev::Trunc, count: b.frame.len() as u64 });
        }
        if classes.contains(&"TL") {
            fams.push(Family { base: bi, dev: Dev::Trunc, count: b.frame.len() as u64 });
            for fd in deviate::header_fields(&b.frame).into_iter().chain(deviate::app_fields(&b.name, &b.frame)) {
                let c = deviate::field_values(&fd).len() as u64;
                fams.push(Family { base: bi, dev: Dev::FieldVal(fd), count: c });
            }
        }
        let app = deviate::app_offset(&b.frame);
        let hdr_end = app.unwrap_or(b.frame.len());
        if classes.contains(&"B1h") {
            let e = parse_eth(&b.frame);
            let kind = e.map(|e| (e.et, if e.et == ET_IP4 { b.frame.get(23).copied().unwrap_or(0) } else if e.et == ET_IP6 { b.frame.get(20).copied().unwrap_or(0) } else { 0 }, !b.prelude.is_empty()));
            if let Some(k) = kind {
                // ICMP/ARP frames have no app offset: all their bytes are "header"
                let first = seen_hdr.insert(k) || app.is_none();
                if first {
                    for pos in 0..hdr_end {
                        fams.push(Family { base: bi, dev: Dev::Byte(pos), count: 256 });
                    }
                }
            }
        }
        if classes.contains(&"B1p") {
            if let Some(a) = app {
                for pos in a..b.frame.len().min(a + pay) {
                    fams.push(Family { base: bi, dev: Dev::Byte(pos), count: 256 });
                }
            }
        }
        if classes.contains(&"A") {
            let c = deviate::tail_lengths(b.frame.len()).len() as u64 * deviate::TAIL_FILL.len() as u64;
            fams.push(Family { base: bi, dev: Dev::Tail, count: c });
        }
    }
    let mut offs = vec![0u64];
    for f in &fams {
        offs.push(offs.last().unwrap() + f.count);
    }
    Space { base, fams, offs }
}

fn run_space(rep: &mut Report, cfg: &Cfg, sp: &Space, stage: &str, space_desc: &str, workers: Option<usize>) {
    let t0 = std::time::Instant::now();
    let mut opts = RunOpts::new(stage).stateful().chunk(256).no_monitor();
    opts.workers = workers;
    let cfgc = cfg.clone();
    engine::run(
        cfg,
        sp.total(),
        &opts,
        |i| {
            let (bi, fr) = sp.item(i);
            let mut c: Vec<Cmd> = sp.base[bi].prelude.iter().map(|f| Cmd::Frame(f.clone())).collect();
            c.push(Cmd::Frame(fr));
            c
        },
        |it: &Item, sk: &mut Sink| {
            sk.count("frames", it.cmds.len() as u64 - 1);
            for (k, o) in it.outs.iter().enumerate() {
                if o.panicked {
                    sk.violation(Violation {
                        prop: "C01".into(),
                        key: format!("panic:{}", engine::panic_site(&o.text)),
                        what: format!("reply() panicked: {}", o.text),
                        cfg: cfgc.clone(),
                        cmds: it.cmds[..=k].to_vec(),
                        idx: it.idx,
                        stage: stage.to_string(),
                    });
                }
            }
            let last = it.outs.last().unwrap();
            sk.class(if last.panicked { "panic" } else if last.reply.is_some() { "reply" } else { "silence" });
        },
        &mut rep.sink,
    );
    rep.stage(stage, space_desc, sp.total(), t0);
}

pub fn lattice() -> Vec<Cfg> {
    let mut v = Vec::new();
    for selfl in [false, true] {
        for deny in [false, true] {
            for lg in ALL_LOGGERS {
                for lv in ALL_LEVELS {
                    let mut c = Cfg::base().with_log(lg, lv);
                    if selfl {
                        c = c.with_self(&self_ips());
                    }
                    if deny {
                        c = c.with_deny(&deny_ips());
                    }
                    v.push(c);
                }
            }
        }
    }
    v
}

pub fn extreme_cfgs() -> Vec<Cfg> {
    let l = Cfg::base().with_self(&self_ips()).with_deny(&deny_ips());
    vec![l.clone().with_log(LoggerKind::Console, Level::Trace), l.clone().with_log(LoggerKind::Logfmt, Level::Trace), l.with_log(LoggerKind::None, Level::Off)]
}

pub fn run(rep: &mut Report, thorough: bool) {
    rep.rule = "0 deviations: the base corpus (one well-formed frame per leaf of the dispatch tree, both IP versions, UDP and TCP behind a valid cookie); 1 deviation: EVERY truncation, EVERY value of the edge set (all 256 values for 8-bit fields) of every length / offset / count / selector field of every layer, every byte position x all 256 values (quick: L2-L4 headers + first 48 payload bytes; thorough: all positions), tails up to the 4096-byte bound; 2 deviations (thorough): pairs of header fields and field x truncation; all strings of length <= 4 (thorough 5) over a 9-symbol alphabet after each signature prefix; histories: every frame of the corpus fed in every reachable parser control state; configurations: {self-IP} x {deny} x {none, console, logfmt} x {off..trace} = 72, all of them for the corpus + truncations + field values, the three extreme ones for the rest; both build profiles (dev: overflow checks and debug assertions on; release). Oracle: the driver reports ok (never panic), the process stays alive, an answer arrives within the watchdog; ADDED LATER: text fields of every length with multi-byte fills, every corpus payload grown to 15 sizes up to 70000 bytes, a BFS over the real connection table with SYN / HTTP / RPC / SSH / invalid data events (dev profile), and 70000 connections validated in one table".into();
    rep.assumptions = vec![
        "log-macro arguments evaluated at level L are a subset of those evaluated at trace; there is no log_enabled!-conditional code (grep re-checked below)".into(),
        "a closed stdout (EPIPE in println!) is an environment fault outside the quantifier".into(),
    ];
    // structural re-check: no log_enabled!-conditional code, inventory of mutable statics
    let repo = std::env::var("MCX_REPO").unwrap_or_else(|_| "/repo".into());
    if let Ok(out) = std::process::Command::new("grep").args(["-rnE", "log_enabled!|static mut |thread_local!|RefCell<|AtomicU|AtomicB|AtomicI", "--include=*.rs", &format!("{}/src", repo)]).output() {
        let txt = String::from_utf8_lossy(&out.stdout);
        let lines: Vec<&str> = txt.lines().filter(|l| !l.contains("verif_hook.rs")).collect();
        rep.extra.insert("inventory_extra_mutable_state_or_log_enabled".into(), serde_json::json!(lines));
        if !lines.is_empty() {
            rep.caps_hit.push("source inventory: log_enabled! or extra mutable state found; the configuration reduction argument must be revisited".into());
        }
    }
    let cookies = learn_cookies(&Cfg::base(), &[flow4(40000, 80), flow6(40000, 80)]).unwrap_or_default();
    let base = base_frames(&cookies);
    rep.sink.count("base_corpus_frames", base.len() as u64);
    // 1. corpus + T + L under all 72 configurations
    let lat = lattice();
    let profiles = [Profile::Dev, Profile::Release];
    let quick_subset = |b: &BaseFrame| -> bool {
        // quick: one frame per leaf kind (IPv4 + the IPv6-only leaves)
        // (the multi-question DNS queries are the same leaf as dns-a, a kilobyte long: thorough tier)
        (!b.name.ends_with("-v6") || b.name.starts_with("echo") || b.name.contains("stun-magic-attrs") || b.name.contains("tcp-http-get")) && !b.name.contains("dns-a-x")
    };
    let sp_tl = if thorough { build_space(base.clone(), &["TL"], 0, None) } else { build_space(base.clone(), &["TL"], 0, Some(&quick_subset)) };
    // quick tier: the field-value class runs under the levels off and trace of every (lists, logger)
    // combination (the arguments evaluated at a level are a subset of those evaluated at trace); the
    // four levels in between get every frame and every truncation
    let sp_t = build_space(base.clone(), &["T"], 0, Some(&quick_subset));
    {
        let t0 = std::time::Instant::now();
        let jobs: Vec<(Cfg, Profile)> = lat.iter().flat_map(|c| profiles.iter().map(move |p| (c.clone(), *p))).filter(|(_, p)| thorough || *p == Profile::Dev).collect();
        let sinks: Mutex<Vec<Sink>> = Mutex::new(Vec::new());
        let next = std::sync::atomic::AtomicUsize::new(0);
        std::thread::scope(|s| {
            for _ in 0..engine::nworkers() {
                s.spawn(|| loop {
                    let k = next.fetch_add(1, std::sync::atomic::Ordering::SeqCst);
                    if k >= jobs.len() {
                        break;
                    }
                    let (c, p) = &jobs[k];
                    let cfg = c.clone().with_profile(*p);
                    let mut r = Report::new("C01", "x");
                    r.quiet = true;
                    let full = thorough || matches!(cfg.level, Level::Off | Level::Trace);
                    run_space(&mut r, &cfg, if full { &sp_tl } else { &sp_t }, "lattice-T-L", "", Some(1));
                    sinks.lock().unwrap().push(r.sink);
                });
            }
        });
        for s in sinks.into_inner().unwrap() {
            rep.sink.merge(s);
        }
        let nfull = jobs.iter().filter(|(c, _)| thorough || matches!(c.level, Level::Off | Level::Trace)).count() as u64;
        let total = sp_tl.total() * nfull + sp_t.total() * (jobs.len() as u64 - nfull);
        rep.stage("lattice-T-L", &format!("base corpus + every truncation under {} (configuration, profile) pairs; every length/selector field value under {} of them (quick tier: log levels off and trace of every list / logger combination)", jobs.len(), nfull), total, t0);
    }
    // 2. B1 + A under the extreme configurations
    let ext = extreme_cfgs();
    let pay = if thorough { 4096 } else { 48 };
    let sp_b = build_space(base.clone(), &["B1h", "B1p", "A"], pay, None);
    let pairs: Vec<(Cfg, Profile)> = if thorough {
        ext.iter().flat_map(|c| profiles.iter().map(move |p| (c.clone(), *p))).collect()
    } else {
        vec![(ext[0].clone(), Profile::Dev), (ext[2].clone(), Profile::Release)]
    };
    for (c, p) in &pairs {
        let cfg = c.clone().with_profile(*p);
        run_space(rep, &cfg, &sp_b, &format!("bytes-tails-{:?}-{:?}-{:?}", c.logger, c.level, p).to_lowercase(), "every byte position (headers of one frame per L3/L4 kind; payload bytes of every frame) x 256 values; tails", None);
    }
    // 3. two deviations (thorough): field x field and field x truncation within the same frame
    if thorough {
        let cfg = ext[0].clone().with_profile(Profile::Dev);
        let t0 = std::time::Instant::now();
        let mut items: Vec<(usize, Vec<u8>)> = Vec::new();
        for (bi, b) in base.iter().enumerate() {
            let fields: Vec<Field> = deviate::header_fields(&b.frame).into_iter().chain(deviate::app_fields(&b.name, &b.frame)).collect();
            for (x, fa) in fields.iter().enumerate() {
                let va = deviate::field_values(fa);
                let va: Vec<u32> = if va.len() > 24 { va.iter().cloned().step_by(va.len() / 24).collect() } else { va };
                for a in &va {
                    let mut f1 = b.frame.clone();
                    deviate::set_field(&mut f1, fa, *a);
                    // x truncation at every 4th byte after the field
                    let mut k = fa.off + fa.width;
                    while k < f1.len() {
                        items.push((bi, f1[..k].to_vec()));
                        k += 3;
                    }
                    for fb in fields.iter().skip(x + 1) {
                        let vb = deviate::field_values(fb);
                        let vb: Vec<u32> = if vb.len() > 12 { vb.iter().cloned().step_by(vb.len() / 12).collect() } else { vb };
                        for bv in vb {
                            let mut f2 = f1.clone();
                            deviate::set_field(&mut f2, fb, bv);
                            items.push((bi, f2));
                        }
                    }
                }
            }
        }
        let opts = RunOpts::new("two-deviations").stateful().chunk(256).no_monitor();
        let cfgc = cfg.clone();
        engine::run(
            &cfg,
            items.len() as u64,
            &opts,
            |i| {
                let (bi, fr) = &items[i as usize];
                let mut c: Vec<Cmd> = base[*bi].prelude.iter().map(|f| Cmd::Frame(f.clone())).collect();
                c.push(Cmd::Frame(fr.clone()));
                c
            },
            |it: &Item, sk: &mut Sink| {
                sk.count("frames", 1);
                for (k, o) in it.outs.iter().enumerate() {
                    if o.panicked {
                        sk.violation(Violation { prop: "C01".into(), key: format!("panic:{}", engine::panic_site(&o.text)), what: format!("reply() panicked: {}", o.text), cfg: cfgc.clone(), cmds: it.cmds[..=k].to_vec(), idx: it.idx, stage: "two-deviations".into() });
                    }
                }
            },
            &mut rep.sink,
        );
        rep.stage("two-deviations", "pairs (field value, field value) and (field value, truncation) within a frame", items.len() as u64, t0);
    }
    // 4. all short strings after each signature prefix, for the call-local parsers (UDP)
    {
        let alpha: [u8; 9] = [0x00, 0x01, 0x03, 0x04, 0x08, 0x80, 0xff, b'\r', b'a'];
        let maxlen: u32 = if thorough { 5 } else { 4 };
        let mut offs = vec![0u64];
        for l in 0..=maxlen {
            offs.push(offs.last().unwrap() + 9u64.pow(l));
        }
        let nstr = *offs.last().unwrap();
        let prefixes: Vec<Vec<u8>> = vec![
            b"SSH-2.0".to_vec(),
            b"SSH-1.99".to_vec(),
            b"\x00\x01\x01\x10\x21\x12\xa4\x42".to_vec(),
            [b"\x00\x01\x01\x10\x21\x12\xa4\x42".to_vec(), ID12.to_vec()].concat(),
            b"\x00\x00\x00\x40\xffSMB".to_vec(),
            [b"\x00\x00\x00\x40\xffSMB\x72".to_vec(), vec![0; 27]].concat(),
            [b"\x00\x00\x00\x40\xffSMB\x73".to_vec(), vec![0; 27]].concat(),
            b"\x00\x00\x00\x80\xfeSMB".to_vec(),
            [b"\x00\x00\x00\x80\xfeSMB\x40\x00".to_vec(), vec![0; 58]].concat(),
            [b"\x00\x00\x00\x80\xfeSMB\x40\x00\x00\x00\x00\x00\x00\x00\x01\x00".to_vec(), vec![0; 50]].concat(),
            crate::apprpc::build_call(0x61626364, 2, 100000, 2, 3, &[], &[])[..24].to_vec(),
            crate::apprpc::with_record_mark(&crate::apprpc::build_call(0x61626364, 2, 100000, 4, 4, &[], &[]))[..28].to_vec(),
            b"\x12\x34\x01\x00\x00\x01\x00\x00\x00\x00\x00\x00".to_vec(),
            b"\x12\x34\x01\x00\x00\x00\x00\x01\x00\x00\x00\x00".to_vec(),
            b"Gh0st".to_vec(),
            b"GET /".to_vec(),
        ];
        let string_of = |mut k: u64| -> Vec<u8> {
            let l = offs.partition_point(|o| *o <= k) - 1;
            k -= offs[l];
            let mut v = Vec::with_capacity(l);
            for _ in 0..l {
                v.push(alpha[(k % 9) as usize]);
                k /= 9;
            }
            v
        };
        for (c, p) in &pairs {
            let cfg = c.clone().with_profile(*p);
            let t0 = std::time::Instant::now();
            let total = nstr * prefixes.len() as u64 * 2;
            let stage = format!("strings-{:?}-{:?}-{:?}", c.logger, c.level, p).to_lowercase();
            let opts = RunOpts::new(&stage).no_monitor();
            let cfgc = cfg.clone();
            engine::run(
                &cfg,
                total,
                &opts,
                |i| {
                    let v6 = i % 2 == 1;
                    let j = i / 2;
                    let mut m = prefixes[(j / nstr) as usize].clone();
                    m.extend(string_of(j % nstr));
                    vec![Cmd::Frame(flow(v6, 40000, 3478).udp(&m))]
                },
                |it: &Item, sk: &mut Sink| {
                    if it.outs[0].panicked {
                        sk.violation(Violation { prop: "C01".into(), key: format!("panic:{}", engine::panic_site(&it.outs[0].text)), what: format!("reply() panicked: {}", it.outs[0].text), cfg: cfgc.clone(), cmds: it.cmds.to_vec(), idx: it.idx, stage: "strings".into() });
                    }
                },
                &mut rep.sink,
            );
            rep.stage(&stage, "16 signature / header prefixes x all strings of length <= L over 9 symbols x {v4,v6}, UDP", total, t0);
        }
    }
    // 4b. text fields of every length 1..300 filled with multi-byte / invalid UTF-8 sequences at
    // every alignment (log lines format these fields)
    {
        let fills: Vec<Vec<u8>> = vec![vec![0xc3, 0xa9], vec![0xe2, 0x82, 0xac], vec![0xf0, 0x9f, 0x98, 0x80], vec![0xff], vec![0xc3], vec![b'a']];
        let nlen: u64 = if thorough { 300 } else { 160 };
        let dims = [5u64, fills.len() as u64, 4, nlen, 2];
        let total = engine::product(&dims);
        let lv = |l: Level| ext[0].clone().with_log(LoggerKind::Logfmt, l);
        let cfgs: Vec<Cfg> = if thorough {
            vec![lv(Level::Trace).with_profile(Profile::Dev), lv(Level::Warn).with_profile(Profile::Release), lv(Level::Info).with_profile(Profile::Dev)]
        } else {
            vec![lv(Level::Trace).with_profile(Profile::Dev)]
        };
        let f4 = flow4(40000, 80);
        let ck = cookies.get(&key_of(&f4)).copied().unwrap_or(0).wrapping_add(1);
        for cfg in cfgs {
            let t0 = std::time::Instant::now();
            let stage = format!("text-fields-{:?}-{:?}", cfg.level, cfg.profile).to_lowercase();
            let opts = RunOpts::new(&stage).stateful().chunk(128).no_monitor();
            let cfgc = cfg.clone();
            engine::run(
                &cfg,
                total,
                &opts,
                |i| {
                    let d = engine::unrank(i, &dims);
                    let fill = &fills[d[1] as usize];
                    let n = d[3] as usize + 1;
                    // field = <align ASCII bytes> + fill repeated, cut to n bytes
                    let mut field: Vec<u8> = vec![b'a'; d[2] as usize];
                    while field.len() < n {
                        field.extend_from_slice(fill);
                    }
                    field.truncate(n);
                    let m: Vec<u8> = match d[0] {
                        0 => [b"GET /".to_vec(), field, b" HTTP/1.1\r\n\r\n".to_vec()].concat(),
                        1 => [b"PUT /x HTTP/1.0\nV: ".to_vec(), field, b"\n\n".to_vec()].concat(),
                        2 => [b"SSH-2.0-".to_vec(), field, b"\r\n".to_vec()].concat(),
                        3 => [b"SSH-1.99-s ".to_vec(), field, b"\r\n".to_vec()].concat(),
                        _ => {
                            let name = String::from_utf8_lossy(&field).to_string();
                            crate::appsmb::smb1_negotiate(&crate::appsmb::Smb1Hdr::new(0x72), &[name.as_str(), "NT LM 0.12"])
                        }
                    };
                    if d[4] == 0 {
                        vec![Cmd::Frame(f4.udp(&m))]
                    } else {
                        vec![Cmd::Frame(f4.tcp(1000, ck, F_PSH | F_ACK, &m))]
                    }
                },
                |it: &Item, sk: &mut Sink| {
                    sk.count("frames", 1);
                    if it.outs[1].panicked {
                        sk.violation(Violation { prop: "C01".into(), key: format!("panic:{}", engine::panic_site(&it.outs[1].text)), what: format!("reply() panicked: {}", it.outs[1].text), cfg: cfgc.clone(), cmds: it.cmds.to_vec(), idx: it.idx, stage: "text-fields".into() });
                    }
                },
                &mut rep.sink,
            );
            rep.stage(&stage, "5 text fields (HTTP target, header value, SSH software, SSH comment, SMB1 dialect) x 6 fill sequences (2/3/4-byte UTF-8, invalid bytes, ASCII) x 4 alignments x every length 1..300 x {UDP, TCP}", total, t0);
        }
    }
    // round 21: 32-bit words.  Every 4-byte window (every byte offset, not only aligned ones) of
    // requests that carry nested 32-bit length / count fields (ONC-RPC with AUTH_SYS credentials,
    // SMB2 negotiate / session setup, SMB1 session setup, STUN with attributes) x 32-bit edge
    // values (around 0, 2^16, 2^24, 2^31 and within 16 of 2^32) x both byte orders x {UDP, TCP},
    // overflow-checked and release builds (length arithmetic done in u32 wraps near 2^32)
    {
        use crate::apprpc::{build_call_flavors, with_record_mark};
        use crate::appsmb::{smb1_session_setup, smb2_negotiate, smb2_session_setup, Smb1Hdr, Smb2Hdr};
        let mut cred = Vec::new();
        cred.extend_from_slice(&0x1234u32.to_be_bytes());
        cred.extend_from_slice(&4u32.to_be_bytes());
        cred.extend_from_slice(b"host");
        for w in [0u32, 0, 0] {
            cred.extend_from_slice(&w.to_be_bytes());
        }
        let mut getport = build_call_flavors(0x5a112233, 100000, 2, 3, 1, &cred, 0, b"");
        for w in [100003u32, 3, 6, 0] {
            getport.extend_from_slice(&w.to_be_bytes());
        }
        let null_sys = build_call_flavors(0x5a112234, 100000, 4, 0, 1, &cred, 0, b"");
        let dump_verf = build_call_flavors(0x5a112235, 100000, 3, 4, 1, &cred, 1, &cred);
        let stun = crate::corpus::stun_magic(&[crate::corpus::stun_attr(0x0003, &[0, 0, 0, 2]), crate::corpus::stun_attr(0x8022, b"abcd")].concat(), &[7u8; 12]);
        // (payload over UDP, payload over TCP)
        let bases: Vec<(Vec<u8>, Vec<u8>)> = vec![
            (getport.clone(), with_record_mark(&getport)),
            (null_sys.clone(), with_record_mark(&null_sys)),
            (dump_verf.clone(), with_record_mark(&dump_verf)),
            (stun.clone(), stun.clone()),
            { let m = smb2_negotiate(&Smb2Hdr::new(0), &[0x0202, 0x0311], &[3u8; 16]); (m.clone(), m) },
            { let m = smb2_session_setup(&Smb2Hdr::new(1), b"NTLMSSP\0\x01\0\0\0"); (m.clone(), m) },
            { let m = smb1_session_setup(&Smb1Hdr::new(0x73), b"NTLMSSP\0\x01\0\0\0"); (m.clone(), m) },
        ];
        let mut vals: Vec<u32> = Vec::new();
        for c in [0u32, 0x1_0000, 0x100_0000, 0x8000_0000] {
            for d in 0..=16u32 {
                vals.push(c.wrapping_add(d));
                vals.push(c.wrapping_sub(d));
            }
        }
        vals.sort();
        vals.dedup();
        let mut plan: Vec<(usize, usize)> = Vec::new();
        for (b, (u, _)) in bases.iter().enumerate() {
            for off in 0..u.len().saturating_sub(3) {
                plan.push((b, off));
            }
        }
        let dims = [plan.len() as u64, vals.len() as u64, 2, 2];
        let total = engine::product(&dims);
        let lv = |l: Level| ext[0].clone().with_log(LoggerKind::Logfmt, l);
        let f4 = flow4(40000, 80);
        let ck = cookies.get(&key_of(&f4)).copied().unwrap_or(0).wrapping_add(1);
        for cfg in [lv(Level::Trace).with_profile(Profile::Dev), lv(Level::Warn).with_profile(Profile::Release)] {
            let t0 = std::time::Instant::now();
            let stage = format!("word32-edges-{:?}-{:?}", cfg.level, cfg.profile).to_lowercase();
            let opts = RunOpts::new(&stage).stateful().chunk(128).no_monitor();
            let cfgc = cfg.clone();
            let stagec = stage.clone();
            engine::run(
                &cfg,
                total,
                &opts,
                |i| {
                    let d = engine::unrank(i, &dims);
                    let (b, off) = plan[d[0] as usize];
                    let v = vals[d[1] as usize];
                    let w = if d[2] == 0 { v.to_be_bytes() } else { v.to_le_bytes() };
                    if d[3] == 0 {
                        let mut m = bases[b].0.clone();
                        m[off..off + 4].copy_from_slice(&w);
                        vec![Cmd::Frame(f4.udp(&m))]
                    } else {
                        // the same window of the message (behind the record mark, if any)
                        let mut m = bases[b].1.clone();
                        let sh = m.len() - bases[b].0.len();
                        m[sh + off..sh + off + 4].copy_from_slice(&w);
                        vec![Cmd::Frame(f4.tcp(1000, ck, F_PSH | F_ACK, &m))]
                    }
                },
                |it: &Item, sk: &mut Sink| {
                    sk.count("frames", 1);
                    if it.outs[1].panicked {
                        sk.violation(Violation { prop: "C01".into(), key: format!("panic:{}", engine::panic_site(&it.outs[1].text)), what: format!("reply() panicked: {}", it.outs[1].text), cfg: cfgc.clone(), cmds: it.cmds.to_vec(), idx: it.idx, stage: stagec.clone() });
                    }
                },
                &mut rep.sink,
            );
            rep.stage(&stage, "7 requests with nested 32-bit length / count fields (ONC-RPC with AUTH_SYS credentials and verifier, STUN with attributes, SMB2 negotiate / session setup, SMB1 session setup) x every 4-byte window at every byte offset x 32-bit edge values (within 16 of 0, 2^16, 2^24, 2^31, 2^32) x both byte orders x {UDP, TCP behind a valid cookie}", total, t0);
        }
    }
    // 4b'. sizes: every corpus payload grown (filler appended) to sizes around and far beyond a
    // 1500-byte MTU, as a datagram, as an echo body, and as a TCP segment behind a valid cookie
    {
        let sizes: Vec<usize> = vec![1400, 1472, 1473, 1480, 1500, 1514, 2048, 4096, 9000, 16384, 32768, 65000, 65507, 65535, 70000];
        let pls = payloads();
        let fills: [u8; 3] = [b'a', 0x00, 0xff];
        let cfgj = crate::props::cfg_lists();
        let f4 = flow4(40000, 80);
        let f6 = flow6(40000, 80);
        let ck = learn_cookies(&cfgj, &[f4.clone(), f6.clone()]).unwrap_or_default();
        let dims = [pls.len() as u64 + 1, sizes.len() as u64, 3, 2, 2];
        let t0 = std::time::Instant::now();
        let opts = RunOpts::new("sizes").stateful().chunk(16).no_monitor();
        let cfgc = cfgj.clone();
        engine::run(
            &cfgj,
            engine::product(&dims),
            &opts,
            |i| {
                let d = engine::unrank(i, &dims);
                let f = if d[3] == 0 { &f4 } else { &f6 };
                let n = sizes[d[1] as usize];
                let fill = fills[d[2] as usize];
                if d[0] as usize == pls.len() {
                    let body: Vec<u8> = vec![fill; n];
                    return vec![Cmd::Frame(f.icmp_echo(1, 2, &body))];
                }
                let mut m = pls[d[0] as usize].bytes.clone();
                if m.len() < n {
                    m.resize(n, fill);
                }
                if d[4] == 0 {
                    vec![Cmd::Frame(f.udp(&m))]
                } else {
                    let c = ck.get(&key_of(f)).copied().unwrap_or(0).wrapping_add(1);
                    vec![Cmd::Frame(f.tcp(1000, c, F_PSH | F_ACK, &m))]
                }
            },
            |it: &Item, sk: &mut Sink| {
                sk.count("frames", 1);
                if it.outs[1].panicked {
                    sk.violation(Violation { prop: "C01".into(), key: format!("panic:{}", engine::panic_site(&it.outs[1].text)), what: format!("reply() panicked: {}", it.outs[1].text), cfg: cfgc.clone(), cmds: it.cmds.to_vec(), idx: it.idx, stage: "sizes".into() });
                }
            },
            &mut rep.sink,
        );
        rep.stage("sizes", "(every corpus payload + ICMP echo) grown to 15 sizes 1400..70000 x 3 fill bytes x {v4,v6} x {UDP, TCP behind a valid cookie}, overflow-checked build at log level trace", engine::product(&dims), t0);
    }
    // 4b'a. address alphabets: source MAC x client IP x server IP x eliciting kind x IP version
    // (unspecified, broadcast, multicast, loopback, IPv4-mapped ...) under the extreme configurations
    // on the overflow-checked build, with and without address lists
    {
        // two header fields of one accepted segment at once: every flag set that contains URG x
        // every urgent pointer 0..80 and the edge values x payload lengths 0 / 1 / 5 / 18, behind a
        // valid cookie (a pointer just beyond the segment, inside the header length, ...)
        {
            let t0 = std::time::Instant::now();
            let flagsets: [u16; 6] = [F_PSH | F_ACK | F_URG, F_PSH | F_ACK | F_URG | F_FIN, F_SYN | F_URG, F_FIN | F_ACK | F_URG, F_ACK | F_URG, F_PSH | F_ACK];
            let urgs: Vec<u16> = (0..=80u16).chain([255, 256, 1000, 4000, 0x8000, 0xffff]).collect();
            let lens: [usize; 4] = [0, 1, 5, 18];
            let dims = [flagsets.len() as u64, urgs.len() as u64, lens.len() as u64, 2];
            let total = engine::product(&dims);
            for c in [Cfg::base(), ext[0].clone().with_profile(Profile::Dev)] {
                let stage = format!("segment-urgent-{}", if c.self_ips.is_empty() { "plain" } else { "lists-dev" });
                let opts = RunOpts::new(&stage).stateful().chunk(256).no_monitor();
                engine::run(
                    &c,
                    total,
                    &opts,
                    |i| {
                        let d = engine::unrank(i, &dims);
                        let f = flow(d[3] == 1, 40000, 80);
                        let ck = cookies.get(&key_of(&f)).copied().unwrap_or(0).wrapping_add(1);
                        let mut seg = TcpSeg::new(f.cport, f.sport, 1000, ck, flagsets[d[0] as usize], &b"GET / HTTP/1.1\r\n\r\n"[..lens[d[2] as usize]]);
                        seg.urg = urgs[d[1] as usize];
                        vec![Cmd::Frame(f.tcp_seg(&seg))]
                    },
                    |_it: &Item, _s: &mut Sink| {},
                    &mut rep.sink,
                );
                rep.stage(&stage, "6 flag sets (5 with URG) x urgent pointer 0..80, 255, 256, 1000, 4000, 0x8000, 0xffff x payload length {0, 1, 5, 18} x {v4,v6} behind a valid cookie", total, t0);
            }
        }
        use crate::props::c02::{elicit, Kind};
        let macs: Vec<Mac> = vec![MAC_CLI, [0; 6], [0xff; 6], [0x01, 0, 0x5e, 1, 2, 3], [0x33, 0x33, 0, 0, 0, 1], crate::driver::MAC_SRV];
        let dmacs: Vec<Mac> = vec![crate::driver::MAC_SRV, [0xff; 6], [0x33, 0x33, 0, 0, 0, 1], [0x01, 0, 0x5e, 0, 0, 1]];
        let ip4: Vec<Ip> = vec![cli4(), Ip::V4([0, 0, 0, 0]), Ip::V4([255, 255, 255, 255]), Ip::V4([224, 0, 0, 1]), Ip::V4([127, 0, 0, 1]), srv4(), srv4b(), Ip::V4([169, 254, 1, 1])];
        let ip6: Vec<Ip> = vec![cli6(), Ip::parse("::"), Ip::parse("ff02::1"), Ip::parse("::1"), srv6(), srv6b(), Ip::parse("fe80::1"), Ip::parse("::ffff:10.0.0.9")];
        let kinds4 = [Kind::Arp, Kind::Echo, Kind::Syn, Kind::Stun, Kind::StunChange];
        let kinds6 = [Kind::Ns, Kind::Echo, Kind::Syn, Kind::Stun, Kind::StunChange];
        let dims = [macs.len() as u64, dmacs.len() as u64, 8, 8, 5, 2];
        for c in [Cfg::base().with_log(LoggerKind::Console, Level::Trace), ext[0].clone()] {
            let cfg = c.with_profile(Profile::Dev);
            let stage = format!("address-alphabets-{}", if cfg.self_ips.is_empty() { "plain" } else { "lists" });
            crate::props::sweep_frames(rep, &cfg, &stage, "source MAC (6) x destination MAC (4) x client IP (8) x server IP (8) x eliciting kind (5) x IP version, console logger at trace, overflow-checked build", engine::product(&dims), |i| {
                let d = engine::unrank(i, &dims);
                let v6 = d[5] == 1;
                let (cip, sip, k) = if v6 { (ip6[d[2] as usize], ip6[d[3] as usize], kinds6[d[4] as usize]) } else { (ip4[d[2] as usize], ip4[d[3] as usize], kinds4[d[4] as usize]) };
                let mut f = elicit(k, &dmacs[d[1] as usize], &cip, &sip);
                f[6..12].copy_from_slice(&macs[d[0] as usize]);
                f
            });
        }
    }
    // 4b''. many connections in one table: 70 000 flows, each validated by a first data segment
    // (a mix of identified protocols, undecided and dead matchers), then a second segment on each
    {
        let t0 = std::time::Instant::now();
        let cfgm = Cfg::base();
        let firsts: [&[u8]; 5] = [b"GET / HTTP/1.1\r\n\r\n", b"SSH-2.0-x\r\n", b"GE", b"zzzz", b"\x80\x00\x00\x28\x72\xfe\x1d\x13\x00\x00\x00\x00\x00\x00\x00\x02\x00\x01\x86\xa0"];
        let mut cmds: Vec<Cmd> = Vec::new();
        let mut second: Vec<Cmd> = Vec::new();
        // cookies learned from the responder's own SYN-ACKs
        // phase A: 5000 flows that are all identified; phase B: the mix
        for (k, (f, g)) in crate::props::c07::many_flow_set(&cfgm, 70000, 9000, rep).into_iter().enumerate() {
            let p = if k < 5000 { firsts[0] } else { firsts[k % firsts.len()] };
            cmds.push(Cmd::Frame(f.tcp(1, g.wrapping_add(1), F_PSH | F_ACK, p)));
            if k % 7 == 0 {
                second.push(Cmd::Frame(f.tcp(1 + p.len() as u32, g.wrapping_add(1), F_PSH | F_ACK, b"T / HTTP/1.1\r\n\r\n")));
            }
        }
        cmds.extend(second);
        let total = cmds.len() as u64;
        let opts = RunOpts::new("many-connections").stateful().chunk(1).no_monitor();
        engine::run(&cfgm, 1, &opts, |_| cmds.clone(), |it: &Item, sk: &mut Sink| sk.count("frames", it.cmds.len() as u64), &mut rep.sink);
        rep.stage("many-connections", "70000 distinct flows validated in ONE table (the first 5000 all identified as HTTP, then a mix of HTTP / SSH / undecided / dead / ONC-RPC heads), then a second segment on every 7th flow", total, t0);
    }
    // 4c. connection-level histories: BFS over the real connection table with SYNs, valid and
    // invalid data of several protocols (HTTP, RPC, SSH) on two flows — protocol state that
    // survives a re-identification of the flow must not crash a later handler
    {
        use crate::bfs::{self, BfsOpts};
        use crate::props::c07::{add_cross_acks, setup, tcp_events};
        match setup(ext[0].clone().with_profile(Profile::Dev), 2) {
            Ok(s) => {
                let mut events = Vec::new();
                for (tagf, f) in &s.flows {
                    events.extend(tcp_events(tagf, f, s.cookies[&key_of(f)], true));
                }
                add_cross_acks(&mut events, &s);
                let o = BfsOpts { stage: "bfs-connection-histories".into(), max_depth: if thorough { 5 } else { 4 }, max_states: if thorough { 60000 } else { 12000 }, abstract_acc: true, differential: false };
                bfs::bfs(&s.cfg, &events, &s.cookies, &o, rep);
            }
            Err(e) => rep.sink.machinery_errors.push(e),
        }
    }
    // 5. histories: every corpus frame in every reachable parser control state
    histories(rep, &ext[0].clone().with_profile(Profile::Dev), &base, &cookies, thorough);
    rep.states += rep.sink.classes.len() as u64;
}

fn histories(rep: &mut Report, cfg: &Cfg, base: &[BaseFrame], cookies: &HashMap<FlowKey, u32>, thorough: bool) {
    // parser control states reachable with one-byte segments on flow (v4, 40000 -> 80)
    let f = flow4(40000, 80);
    let ack = match cookies.get(&key_of(&f)) {
        Some(c) => c.wrapping_add(1),
        None => return,
    };
    let t0 = std::time::Instant::now();
    let mut alphabet: Vec<u8> = b"GETPOSHADLCNIR /1.:\r\nxh".to_vec();
    alphabet.extend_from_slice(&[0x00, 0x01, 0x02, 0x03, 0x04, 0x08, 0x80, 0x86, 0xa0, 0xee, 0xff]);
    if thorough {
        alphabet = (0..=255u8).collect();
    }
    alphabet.sort();
    alphabet.dedup();
    let na = alphabet.len() as u64;
    let mut seen: std::collections::HashSet<String> = Default::default();
    seen.insert("<empty>".into());
    let mut frontier: Vec<Vec<u8>> = vec![vec![]];
    let mut all: Vec<Vec<u8>> = vec![vec![]];
    let seg = |off: usize, d: &[u8]| Cmd::Frame(f.tcp(1000 + off as u32, ack, F_PSH | F_ACK, d));
    let mut depth = 0;
    let max_states = if thorough { 4000 } else { 1500 };
    while !frontier.is_empty() && depth < 64 && all.len() < max_states {
        let total = frontier.len() as u64 * na;
        let res: Mutex<std::collections::BTreeMap<u64, String>> = Mutex::new(Default::default());
        let fr = &frontier;
        let opts = RunOpts::new("history-bfs").stateful().chunk(32).no_monitor();
        let cfgc = cfg.clone();
        engine::run(
            cfg,
            total,
            &opts,
            |i| {
                let h = &fr[(i / na) as usize];
                let mut c: Vec<Cmd> = h.iter().enumerate().map(|(k, x)| seg(k, &[*x])).collect();
                c.push(seg(h.len(), &[alphabet[(i % na) as usize]]));
                c.push(Cmd::Dump);
                c
            },
            |it: &Item, sk: &mut Sink| {
                sk.count("frames", it.cmds.len() as u64 - 2);
                for (k, o) in it.outs.iter().enumerate() {
                    if o.panicked {
                        sk.violation(Violation { prop: "C01".into(), key: format!("panic:{}", engine::panic_site(&o.text)), what: format!("reply() panicked after a one-byte-segment history: {}", o.text), cfg: cfgc.clone(), cmds: it.cmds[..=k].to_vec(), idx: it.idx, stage: "history-bfs".into() });
                    }
                }
                res.lock().unwrap().insert(it.idx, crate::props::c11::control_key(&it.outs.last().unwrap().text));
            },
            &mut rep.sink,
        );
        let mut next = Vec::new();
        for (idx, key) in res.into_inner().unwrap() {
            if seen.insert(key) {
                let mut h = frontier[(idx / na) as usize].clone();
                h.push(alphabet[(idx % na) as usize]);
                all.push(h.clone());
                next.push(h);
            }
        }
        frontier = next;
        depth += 1;
    }
    if !frontier.is_empty() {
        rep.caps_hit.push(format!("history-bfs: stopped at depth {} with {} states ({} unexpanded)", depth, all.len(), frontier.len()));
    }
    rep.states += all.len() as u64;
    rep.stages.push(serde_json::json!({"stage": "history-bfs", "states": all.len(), "depth": depth, "fixpoint": frontier.is_empty(), "wall_s": t0.elapsed().as_secs_f64()}));
    eprintln!("[C01] history-bfs: {} control states, depth {} in {:.1}s", all.len(), depth, t0.elapsed().as_secs_f64());
    // in every state: every corpus frame + truncation stubs
    let t0 = std::time::Instant::now();
    let mut probes: Vec<Vec<u8>> = Vec::new();
    for b in base {
        if !thorough && b.name.ends_with("-v6") && !b.name.starts_with("nd-") && !b.name.starts_with("echo") {
            continue;
        }
        probes.push(b.frame.clone());
        for k in [0usize, 13, 14, 33, 34, 53, 54, 61, 73] {
            if !thorough {
                continue;
            }
            if k < b.frame.len() {
                probes.push(b.frame[..k].to_vec());
            }
        }
    }
    probes.sort();
    probes.dedup();
    let np = probes.len() as u64;
    let total = all.len() as u64 * np;
    let st = &all;
    let opts = RunOpts::new("history-probes").stateful().chunk(16).no_monitor();
    let cfgc = cfg.clone();
    engine::run(
        cfg,
        total,
        &opts,
        |i| {
            let h = &st[(i / np) as usize];
            let mut c: Vec<Cmd> = h.iter().enumerate().map(|(k, x)| seg(k, &[*x])).collect();
            c.push(Cmd::Frame(probes[(i % np) as usize].clone()));
            c
        },
        |it: &Item, sk: &mut Sink| {
            sk.count("frames", it.cmds.len() as u64 - 1);
            for (k, o) in it.outs.iter().enumerate() {
                if o.panicked {
                    sk.violation(Violation { prop: "C01".into(), key: format!("panic:{}", engine::panic_site(&o.text)), what: format!("reply() panicked on a corpus frame after a history: {}", o.text), cfg: cfgc.clone(), cmds: it.cmds[..=k].to_vec(), idx: it.idx, stage: "history-probes".into() });
                }
            }
        },
        &mut rep.sink,
    );
    rep.transitions += total;
    rep.stage("history-probes", "every reachable parser control state x every corpus frame and truncation stubs", total, t0);
}
