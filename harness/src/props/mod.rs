//! Per-property checks: alphabets, bounds per tier, oracle wiring.

use std::time::Instant;

use crate::driver::{Cfg, Cmd, Level, LoggerKind, Profile};
use crate::engine::{self, Item, Report, RunOpts, Sink};
use crate::corpus;

pub mod apps;
pub mod c01;
pub mod c02;
pub mod c03;
pub mod c04;
pub mod c06;
pub mod c07;
pub mod c10;
pub mod c11;
pub mod c12;
pub mod c19;
pub mod c20;
pub mod c05;
pub mod pairs;

pub fn run(prop: &str, thorough: bool) -> Option<Report> {
    let tier = if thorough { "thorough" } else { "quick" };
    let mut rep = Report::new(prop, tier);
    match prop {
        "C01" => c01::run(&mut rep, thorough),
        "C02" | "C03" | "C04" | "C05" | "C06" => l2l4_union(&mut rep, prop, thorough),
        "C07" => c07::run_c07(&mut rep, thorough),
        "C08" => c07::run_c08(&mut rep, thorough),
        "C09" => c07::run_c09(&mut rep, thorough),
        "C10" => c10::run(&mut rep, thorough),
        "C11" => c11::run(&mut rep, thorough),
        "C12" => c12::run(&mut rep, thorough),
        "C13" => apps::run_c13(&mut rep, thorough),
        "C14" => apps::run_c14(&mut rep, thorough),
        "C15" => apps::run_c15(&mut rep, thorough),
        "C16" => apps::run_c16(&mut rep, thorough),
        "C17" => apps::run_c17(&mut rep, thorough),
        "C18" => apps::run_c18(&mut rep, thorough),
        "C19" => c19::run(&mut rep, thorough),
        "C20" => c20::run(&mut rep, thorough),
        _ => return None,
    }
    Some(rep)
}

/// C02-C06 quantify over the same space (single frames, configurations) and are judged by the same
/// reference model, which attributes every finding to the property it breaks whatever check is
/// running.  Each of the five checks therefore explores the UNION of the five frame spaces: its own
/// stages first (they define its rule text), then the stages of the other four.  A frame family
/// that one property's author thought of is thereby decided for all five.
fn l2l4_union(rep: &mut Report, owner: &str, thorough: bool) {
    let order = ["C02", "C03", "C04", "C05", "C06"];
    let run_one = |rep: &mut Report, p: &str| match p {
        "C02" => c02::run(rep, thorough),
        "C03" => c03::run(rep, thorough),
        "C04" => c04::run(rep, thorough),
        "C05" => c05::run(rep, thorough),
        _ => c06::run(rep, thorough),
    };
    run_one(rep, owner);
    let rule = rep.rule.clone();
    let assumptions = rep.assumptions.clone();
    for p in order.iter().filter(|p| **p != owner) {
        let before = rep.stages_len();
        rep.secondary = !thorough;
        run_one(rep, p);
        rep.secondary = false;
        rep.prefix_stages(before, &format!("[{}] ", p));
    }
    rep.rule = format!("{}; THEN the frame spaces of the other four L2-L4 properties (C02-C06 share one input space and one reference model; stages prefixed with the property they were written for)", rule);
    rep.assumptions = assumptions;
    rep.states = rep.sink.classes.len() as u64;
}

/// The four list combinations (S absent/present x D absent/present), tagged.  "lists" is the
/// everything-evaluated configuration (dev profile, log level trace); "deny-only" runs at log
/// level debug on the dev profile, "self-only" on the release build with the console logger off.
pub fn cfg_variants() -> Vec<(&'static str, Cfg)> {
    vec![
        ("plain", cfg_plain()),
        ("lists", cfg_lists()),
        ("deny-only", Cfg::base().with_deny(&corpus::deny_ips()).with_log(LoggerKind::None, Level::Debug).with_profile(Profile::Dev)),
        ("self-only", Cfg::base().with_self(&corpus::self_ips())),
    ]
}

/// configuration lattice used by most sweeps: lists absent / present
pub fn cfg_plain() -> Cfg {
    Cfg::base()
}
/// address lists present AND every log-macro argument evaluated (log level trace, no event
/// logger) AND the overflow-checked build: neither verbosity nor the arithmetic mode may change
/// behaviour, so the second configuration of every sweep exercises both for free
pub fn cfg_lists() -> Cfg {
    Cfg::base().with_self(&corpus::self_ips()).with_deny(&corpus::deny_ips()).with_log(LoggerKind::None, Level::Trace).with_profile(Profile::Dev)
}

/// Run a stateless single-frame sweep judged only by the always-on model monitor.
pub fn sweep_frames<G>(rep: &mut Report, cfg: &Cfg, stage: &str, space: &str, total: u64, gen: G)
where
    G: Fn(u64) -> Vec<u8> + Sync,
{
    let t0 = Instant::now();
    let opts = RunOpts::new(stage);
    engine::run(
        cfg,
        total,
        &opts,
        |i| vec![Cmd::Frame(gen(i))],
        |_it: &Item, _s: &mut Sink| {},
        &mut rep.sink,
    );
    rep.stage(stage, space, total, t0);
}
