//! C04 — every emitted frame is well-formed at every layer (lengths, checksums).
//! The always-on monitor re-parses and re-checksums every reply; the sweeps here drive the
//! reply checksums through every 16-bit value (ones-complement sums: sweeping one echoed
//! 16-bit request field over all 65536 values makes the reply checksum take every value).

use crate::appdns;
use crate::corpus::*;
use crate::driver::{Cmd, MAC_SRV};
use crate::engine::{self, product, unrank, Item, Report, RunOpts, Sink};
use crate::props::{cfg_plain, sweep_frames};
use crate::wire::*;

pub fn run(rep: &mut Report, thorough: bool) {
    rep.rule = "per (L4 protocol x IP version x reply kind): one echoed 16-bit request field swept over all 65536 values (so the reply checksum takes every value incl. 0); echo data of every length 0..1472; DNS queries with growing question counts up to the largest that fits a 4096-byte frame; every application reply over both transports and IP versions; every reply re-parsed and re-checksummed by independent code; ADDED LATER: requests carrying IPv4 options (IHL 6..15), echo data of every length 0..2100 and jumbo sizes, every pair of L2-L4 header fields over reduced value sets, address alphabets, all four list combinations".into();
    rep.assumptions = vec![
        "over IPv4 a transmitted UDP checksum of 0 is accepted (RFC 768: no checksum)".into(),
        "replies larger than ~16 KiB cannot be elicited with <= 4096-byte input frames; 'up to 64 KiB' in the quantifier is unreachable".into(),
    ];
    let cookies = learn_cookies(&cfg_plain(), &[flow4(40000, 80), flow6(40000, 80)]).unwrap_or_default();
    for (tag, cfg) in crate::props::cfg_variants() {
        if rep.secondary && tag != "plain" && tag != "lists" {
            continue;
        }
        // UDP: source port sweep for STUN (v4, v6), DNS (v4), RPC (v4, v6), HTTP, SMB
        let pls = payloads();
        let udp_pl: Vec<&Payload> = pls.iter().filter(|p| p.via != Via::TcpOnly && p.answered).collect();
        let sel: Vec<&Payload> = if thorough { udp_pl.clone() } else { udp_pl.iter().filter(|p| ["stun-magic-empty", "dns-a", "rpc-udp-getaddr", "ssh-2"].contains(&p.name)).cloned().collect() };
        let dims = [sel.len() as u64, 2, 65536];
        sweep_frames(rep, &cfg, &format!("udp-sport-{}", tag), "answered UDP payloads x {v4,v6} x all 65536 source ports", product(&dims), |i| {
            let d = unrank(i, &dims);
            flow(d[1] == 1, d[2] as u16, 3478).udp(&sel[d[0] as usize].bytes)
        });
        // pairs of header fields: two departures within one frame (e.g. IPv4 options together
        // with TCP options, a flag set together with a data offset), every reply judged by the
        // reference model and the well-formedness invariants
        {
            let base = base_frames(&cookies);
            let mut items: Vec<(usize, Vec<u8>)> = Vec::new();
            let reduce = |v: Vec<u32>, n: usize| -> Vec<u32> { if v.len() > n { v.iter().cloned().step_by(v.len().div_ceil(n)).collect() } else { v } };
            for (bi, b) in base.iter().enumerate() {
                if !thorough && bi % 3 != 0 {
                    continue;
                }
                let fields = crate::deviate::header_fields(&b.frame);
                for (x, fa) in fields.iter().enumerate() {
                    for a in reduce(crate::deviate::field_values(fa), if thorough { 16 } else { 8 }) {
                        for fb in fields.iter().skip(x + 1) {
                            for bv in reduce(crate::deviate::field_values(fb), if thorough { 12 } else { 6 }) {
                                let mut f2 = b.frame.clone();
                                crate::deviate::set_field(&mut f2, fa, a);
                                crate::deviate::set_field(&mut f2, fb, bv);
                                items.push((bi, f2));
                            }
                        }
                    }
                }
            }
            let t0 = std::time::Instant::now();
            let stage = format!("header-field-pairs-{}", tag);
            let opts = RunOpts::new(&stage).stateful().chunk(128);
            engine::run(
                &cfg,
                items.len() as u64,
                &opts,
                |i| {
                    let (bi, fr) = &items[i as usize];
                    let mut c: Vec<Cmd> = base[*bi].prelude.iter().map(|f| Cmd::Frame(f.clone())).collect();
                    c.push(Cmd::Frame(fr.clone()));
                    c
                },
                |_it: &Item, _s: &mut Sink| {},
                &mut rep.sink,
            );
            rep.stage(&stage, "base frames x every pair of L2-L4 header fields x reduced value sets (two departures in one frame), monitored", items.len() as u64, t0);
        }
        // two consecutive replies of DIFFERENT kinds whose lengths are made equal (an echo with n
        // data bytes next to a SYN-ACK, a STUN response, a FIN|ACK, an HTTP answer; both orders,
        // both IP versions): nothing computed for one reply may be reused for the next
        {
            let t0 = std::time::Instant::now();
            let stage = format!("equal-length-neighbours-{}", tag);
            let dims = [101u64, 4, 2, 2];
            let opts = RunOpts::new(&stage).stateful().chunk(128);
            engine::run(
                &cfg,
                product(&dims),
                &opts,
                |i| {
                    let d = unrank(i, &dims);
                    let v6 = d[3] == 1;
                    let f = flow(v6, 40000, 80);
                    let data: Vec<u8> = (0..d[0] as usize).map(|k| k as u8).collect();
                    let echo = f.icmp_echo(7, 7, &data);
                    let c = cookies.get(&key_of(&f)).copied().unwrap_or(0).wrapping_add(1);
                    let other = match d[1] {
                        0 => f.tcp(9, 0, F_SYN, b""),
                        1 => f.udp(&stun_magic(&[], &ID12)),
                        2 => f.tcp(9, 5, F_FIN | F_ACK, b""),
                        _ => f.tcp(9, c, F_PSH | F_ACK, b"x"),
                    };
                    if d[2] == 0 { vec![Cmd::Frame(echo), Cmd::Frame(other)] } else { vec![Cmd::Frame(other), Cmd::Frame(echo)] }
                },
                |_it: &Item, _s: &mut Sink| {},
                &mut rep.sink,
            );
            rep.stage(&stage, "echo with 0..100 data bytes next to {SYN, STUN datagram, FIN|ACK, first data segment} x both orders x {v4,v6} in one process, monitored (checksums of every reply)", product(&dims), t0);
        }
        // every byte value at every header position of the eliciting base frames (Ethernet, ARP,
        // IP, ICMP, TCP, UDP headers byte by byte; application bytes are the application checks'
        // business), as is and with the checksums recomputed the way a sender would
        {
            let base = base_frames(&cookies);
            let keep = ["arp-request", "echo-v4", "echo-v6", "nd-ns-slla", "tcp-syn-v4", "tcp-syn-v6"];
            let mut plan: Vec<(usize, usize)> = Vec::new();
            for (bi, b) in base.iter().enumerate() {
                let want = keep.contains(&b.name.as_str()) || (b.prelude.is_empty() && b.name.starts_with("udp-") && (thorough || b.name.contains("stun")));
                if !want {
                    continue;
                }
                let hdr = crate::deviate::app_offset(&b.frame).unwrap_or(b.frame.len()).min(b.frame.len());
                for p in 0..hdr {
                    plan.push((bi, p));
                }
            }
            let n = plan.len() as u64;
            sweep_frames(rep, &cfg, &format!("frame-all-byte-values-{}", tag), "eliciting base frames (ARP request, echo v4/v6, ND-NS, SYN v4/v6, UDP STUN v4/v6; thorough: every answered datagram) x every header byte position x all 256 values x {as is, checksums recomputed}", n * 256 * 2, |i| {
                let d = unrank(i, &[n, 256, 2]);
                let (bi, p) = plan[d[0] as usize];
                let mut f = base[bi].frame.clone();
                f[p] = d[1] as u8;
                if d[2] == 1 {
                    refresh_checksums(&mut f);
                }
                f
            });
        }
        // address alphabets (pseudo-header inputs): every reply kind x client / server address
        // alphabets incl. unspecified, broadcast, multicast, loopback
        {
            use crate::props::c02::{elicit, Kind};
            let ip4: Vec<Ip> = vec![cli4(), Ip::V4([0, 0, 0, 0]), Ip::V4([255, 255, 255, 255]), Ip::V4([224, 0, 0, 1]), Ip::V4([127, 0, 0, 1]), srv4(), srv4b(), Ip::V4([169, 254, 1, 1])];
            let ip6: Vec<Ip> = vec![cli6(), Ip::parse("::"), Ip::parse("ff02::1"), Ip::parse("::1"), srv6(), srv6b(), Ip::parse("fe80::1"), Ip::parse("::ffff:10.0.0.9")];
            let kinds4 = [Kind::Arp, Kind::Echo, Kind::Syn, Kind::Stun];
            let kinds6 = [Kind::Ns, Kind::Echo, Kind::Syn, Kind::Stun];
            let dims = [8u64, 8, 4, 2];
            sweep_frames(rep, &cfg, &format!("addr-alphabet-{}", tag), "client IP (8) x server IP (8) x reply kind (4) x IP version", product(&dims), |i| {
                let d = unrank(i, &dims);
                if d[3] == 1 {
                    elicit(kinds6[d[2] as usize], &MAC_SRV, &ip6[d[0] as usize], &ip6[d[1] as usize])
                } else {
                    elicit(kinds4[d[2] as usize], &MAC_SRV, &ip4[d[0] as usize], &ip4[d[1] as usize])
                }
            });
        }
        // requests carrying IPv4 options (IHL 6..15): replies never carry them, every length field
        // must describe the reply actually emitted
        sweep_frames(rep, &cfg, &format!("ip4-options-{}", tag), "IHL 6..15 (NOP options) x {echo with 0..40 data bytes, TCP SYN, UDP STUN}", 10 * 43, |i| {
            let d = unrank(i, &[10, 43]);
            let ihl = 6 + d[0] as u8;
            let opts = vec![1u8; (ihl as usize - 5) * 4];
            let f = flow4(40000, 3478);
            let (c4, s4) = match (f.cip, f.sip) {
                (Ip::V4(a), Ip::V4(b)) => (a, b),
                _ => unreachable!(),
            };
            let (proto, l4) = if d[1] < 41 {
                let mut rest = vec![0x12, 0x34, 0, 1];
                rest.extend((0..d[1]).map(|k| k as u8));
                (P_ICMP, icmp4(8, 0, &rest))
            } else if d[1] == 41 {
                (P_TCP, TcpSeg::new(40000, 80, 7, 0, F_SYN, b"").bytes(&f.cip, &f.sip))
            } else {
                (P_UDP, udp(&f.cip, &f.sip, 40000, 3478, &stun_magic(&[], &ID12)))
            };
            eth(&MAC_SRV, &MAC_CLI, ET_IP4, &ipv4_raw(c4, s4, proto, &l4, ihl, None, &opts, 64, 0x4000, 7))
        });
        // echo data of every length 0..2100 and a few jumbo sizes: the reply carries all of it
        sweep_frames(rep, &cfg, &format!("echo-lengths-{}", tag), "echo data length 0..2100, 4000, 9000, 20000 x {v4,v6}", 2104 * 2, |i| {
            let k = i / 2;
            let n = match k {
                2101 => 4000,
                2102 => 9000,
                2103 => 20000,
                k => k as usize,
            };
            let data: Vec<u8> = (0..n).map(|x| (x * 7) as u8).collect();
            flow(i % 2 == 1, 1, 1).icmp_echo(0x1234, 1, &data)
        });
        // STUN CHANGE-REQUEST flag bytes (change-IP / change-port and the reserved bits): whatever
        // address and port the answer leaves from, its checksums cover the header it carries
        sweep_frames(rep, &cfg, &format!("stun-change-flags-{}", tag), "CHANGE-REQUEST flag byte 0..255 x {classic 28-byte, magic with attribute} x {v4,v6} x 2 destination addresses", 256 * 2 * 2 * 2, |i| {
            let d = unrank(i, &[256, 2, 2, 2]);
            let a = stun_attr(3, &[0, 0, 0, d[0] as u8]);
            let m = if d[1] == 0 { stun_classic(&a, &ID16) } else { stun_magic(&a, &ID12) };
            let mut f = flow(d[2] == 1, 40000, 3478);
            if d[3] == 1 {
                f.sip = if d[2] == 1 { srv6b() } else { srv4b() };
            }
            f.udp(&m)
        });
        // SYNs carrying TCP options (MSS incl. 0, window scale, SACK-permitted, timestamps, unknown
        // kinds, malformed lengths): the SYN-ACK stays well-formed (window != 0, data offset 5)
        {
            let mss: [u16; 6] = [0, 1, 536, 1460, 6554, 65535];
            let mut optsets: Vec<Vec<u8>> = Vec::new();
            for m in mss {
                optsets.push(vec![2, 4, (m >> 8) as u8, m as u8]);
                optsets.push(vec![2, 4, (m >> 8) as u8, m as u8, 1, 3, 3, 7]);
                optsets.push(vec![1, 1, 2, 4, (m >> 8) as u8, m as u8, 4, 2]);
            }
            optsets.push(vec![3, 3, 0, 1]);
            optsets.push(vec![3, 3, 14, 0]);
            optsets.push(vec![3, 3, 255, 0]);
            optsets.push(vec![4, 2, 8, 10, 0, 0, 0, 1, 0, 0, 0, 0]);
            optsets.push(vec![2, 0, 0, 0]);
            optsets.push(vec![2, 3, 5, 0]);
            optsets.push(vec![2, 40, 5, 0]);
            optsets.push(vec![254, 4, 0, 0]);
            optsets.push(vec![0, 0, 0, 0]);
            optsets.push(vec![34, 2, 1, 1]);
            let n = optsets.len() as u64;
            sweep_frames(rep, &cfg, &format!("syn-options-{}", tag), "SYN with TCP option sets (MSS 0 / 1 / 536 / 1460 / 6554 / 65535 alone and combined, window scale, SACK, timestamps, malformed lengths, unknown kinds) x flags {SYN, SYN|ECE} x {v4,v6}", n * 2 * 2, |i| {
                let d = unrank(i, &[n, 2, 2]);
                let f = flow(d[2] == 1, 40000, 80);
                let o = &optsets[d[0] as usize];
                let mut seg = TcpSeg::new(f.cport, f.sport, 7, 0, if d[1] == 0 { F_SYN } else { F_SYN | F_ECE }, b"");
                let mut padded = o.clone();
                while padded.len() % 4 != 0 {
                    padded.push(0);
                }
                seg.doff = 5 + (padded.len() / 4) as u8;
                seg.options = padded;
                f.tcp_seg(&seg)
            });
        }
        // IPv4 header checksum of the reply through every value: the peer address (the reply's
        // destination) swept over all 65536 values of its low and of its high half, per reply kind
        sweep_frames(rep, &cfg, &format!("ip4-header-checksum-{}", tag), "client IPv4 address: low half over all 65536 values x high half {0a00, c0a8, fffe, ffff} (the header word sum runs through every 16-bit value with 1, 2 and 3 carries) x {echo, SYN, UDP STUN}", 65536 * 4 * 3, |i| {
            let d = unrank(i, &[3, 4, 65536]);
            let w = d[2] as u16;
            let hi = [0x0a00u16, 0xc0a8, 0xfffe, 0xffff][d[1] as usize];
            let mut f = flow4(40000, 3478);
            f.cip = Ip::V4([(hi >> 8) as u8, hi as u8, (w >> 8) as u8, w as u8]);
            match d[0] {
                0 => f.icmp_echo(1, 1, b""),
                1 => f.tcp(1, 0, F_SYN, b""),
                _ => f.udp(&stun_magic(&[], &ID12)),
            }
        });
        // ICMP echo: identifier sweep both versions (checksum of the reply takes every value)
        sweep_frames(rep, &cfg, &format!("echo-id-{}", tag), "echo identifier 0..65535 x {v4,v6}", 65536 * 2, |i| flow(i >= 65536, 1, 1).icmp_echo(i as u16, 1, b"x"));
        // echo with odd/even lengths 0..1472
        sweep_frames(rep, &cfg, &format!("echo-len-{}", tag), "echo data length 0..1472 x {v4,v6}", 1473 * 2, |i| {
            let n = (i % 1473) as usize;
            let data: Vec<u8> = (0..n).map(|k| (k * 13 + 5) as u8).collect();
            flow(i >= 1473, 1, 1).icmp_echo(7, 9, &data)
        });
        // TCP SYN: source port sweep and low half of the sequence number sweep, both versions
        sweep_frames(rep, &cfg, &format!("syn-sport-{}", tag), "SYN source port 0..65535 x {v4,v6}", 65536 * 2, |i| flow(i >= 65536, i as u16, 443).tcp(0x01020304, 0, F_SYN, b""));
        sweep_frames(rep, &cfg, &format!("syn-seq-lo-{}", tag), "SYN sequence low half 0..65535 x {v4,v6}", 65536 * 2, |i| flow(i >= 65536, 40000, 443).tcp(0xabcd0000 | (i & 0xffff) as u32, 0, F_SYN, b""));
        // FIN|ACK: ack number low half sweep (reply seq = ack)
        sweep_frames(rep, &cfg, &format!("finack-ack-lo-{}", tag), "FIN|ACK acknowledgement low half 0..65535 x {v4,v6}", 65536 * 2, |i| flow(i >= 65536, 40000, 443).tcp(5, (i & 0xffff) as u32, F_FIN | F_ACK, b""));
        // ND-NS: source address low 16 bits sweep (NA checksum)
        sweep_frames(rep, &cfg, &format!("ns-src-lo-{}", tag), "ND-NS source address low 16 bits 0..65535", 65536, |i| {
            let mut s = match cli6() {
                Ip::V6(b) => b,
                _ => unreachable!(),
            };
            s[14] = (i >> 8) as u8;
            s[15] = i as u8;
            eth(&MAC_SRV, &MAC_CLI, ET_IP6, &nd_ns(&Ip::V6(s), &srv6(), &srv6(), &slla(&MAC_CLI), 0))
        });
        // ARP: nothing to checksum, but length / layout (sender low 16 bits sweep)
        // TCP data replies (both versions): every TCP-capable answered payload behind a valid cookie,
        // sequence low half swept
        let tcp_pl: Vec<&Payload> = pls.iter().filter(|p| p.via != Via::UdpOnly && p.answered).collect();
        let t0 = std::time::Instant::now();
        let nseq: u64 = if thorough { 65536 } else { 4096 };
        let dims = [tcp_pl.len() as u64, 2, nseq];
        let opts = RunOpts::new(&format!("tcp-data-{}", tag)).stateful().chunk(128);
        engine::run(
            &cfg,
            product(&dims),
            &opts,
            |i| {
                let d = unrank(i, &dims);
                let f = flow(d[1] == 1, 40000, 80);
                let c = cookies.get(&key_of(&f)).copied().unwrap_or(0);
                let seq = 0xfffe0000u32.wrapping_add((d[2] * (65536 / nseq)) as u32);
                vec![Cmd::Frame(f.tcp(99, 0, F_SYN, b"")), Cmd::Frame(f.tcp(seq, c.wrapping_add(1), F_PSH | F_ACK, &tcp_pl[d[0] as usize].bytes))]
            },
            |it: &Item, s: &mut Sink| {
                if it.outs.len() == 3 && it.outs[2].reply.as_ref().map(|r| r.len() > 80).unwrap_or(false) {
                    s.count("tcp_app_replies", 1);
                }
            },
            &mut rep.sink,
        );
        rep.stage(&format!("tcp-data-{}", tag), "[SYN, PSH|ACK(payload)] x TCP payloads x {v4,v6} x sequence sweep across the 2^32 wrap", product(&dims), t0);
        // DNS: growing question counts (largest reply the code can emit from a 4096-byte frame)
        let maxq: u64 = if thorough { 800 } else { 200 };
        sweep_frames(rep, &cfg, &format!("dns-questions-{}", tag), "DNS query with k questions, k = 1..max (1-label names), id = k", maxq, |i| {
            let k = i + 1;
            let qs: Vec<(Vec<Vec<u8>>, u16, u16)> = (0..k).map(|_| (vec![], 1u16, 1u16)).collect();
            flow4(5353, 53).udp(&appdns::build_query(k as u16, 0x0100, &qs))
        });
    }
    rep.states = rep.sink.classes.len() as u64;
}
