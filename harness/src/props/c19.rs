//! C19 — any port, either IP version: answers do not depend on where they were asked.

use std::collections::HashMap;

use crate::corpus::*;
use crate::driver::{Cfg, Cmd};
use crate::engine::{self, product, unrank, Item, Report, RunOpts, Sink, Violation};
use crate::mask::{app_payload, mask_app};
use crate::model::FlowKey;
use crate::props::cfg_plain;
use crate::wire::*;

/// Canonical form of an application reply: wall-clock fields and the fields that by
/// specification carry an endpoint address are masked.
/// For the protocols whose reply carries an endpoint address, the canonical form also records
/// whether the reply passes the reference decoder for THIS request and endpoint (so that a
/// structural defect that depends on the port or the IP version is visible although the
/// address-bearing bytes themselves are masked).
pub fn canon_checked(name: &str, request: &[u8], reply: Option<&[u8]>, ctx: &crate::app::AppCtx) -> String {
    let tcp = ctx.transport == crate::app::Transport::Tcp;
    let base = canon_for(name, reply, tcp);
    if base == "-" || base == "bare-ack" || base == "empty" {
        return format!("{}||v=n/a", base);
    }
    if name.starts_with("stun") || name.starts_with("rpc") || name.starts_with("dns") {
        let sigs = crate::sig::signatures();
        let v = if tcp {
            let mut st = crate::model::FlowState::default();
            crate::app::stream_verdict(&sigs, &mut st, request, ctx)
        } else {
            crate::app::datagram_verdict(&sigs, request, ctx)
        };
        if let crate::app::AppVerdict::Answer(req) = v {
            let app = reply.and_then(app_payload).map(|(_, p)| p).unwrap_or_default();
            return match req.validate(&app, ctx) {
                Ok(()) => format!("{}||v=decodes", base),
                Err((_, k, _)) => format!("{}||v={}", base, k),
            };
        }
    }
    format!("{}||v=n/a", base)
}

/// canonical forms agree (the decoder verdict is compared only where the reference decides)
pub fn same(a: &str, b: &str) -> bool {
    let split = |x: &str| -> (String, String) {
        match x.rfind("||v=") {
            Some(p) => (x[..p].to_string(), x[p + 4..].to_string()),
            None => (x.to_string(), "n/a".to_string()),
        }
    };
    let (ba, sa) = split(a);
    let (bb, sb) = split(b);
    ba == bb && (sa == "n/a" || sb == "n/a" || sa == sb)
}

pub fn canon_for(name: &str, reply: Option<&[u8]>, tcp: bool) -> String {
    let app = match reply.and_then(app_payload) {
        Some((_, p)) => p,
        None => return "-".into(),
    };
    if app.is_empty() {
        return if tcp { "bare-ack".into() } else { "empty".into() };
    }
    let m = mask_app(&app);
    if name.starts_with("stun") {
        // type + transaction id; MAPPED-ADDRESS and the length word that sizes it masked
        if m.len() >= 20 {
            return format!("stun:{}:{}", hex(&m[0..2]), hex(&m[4..20]));
        }
    } else if name.starts_with("rpc") {
        // record mark (length depends on the address string) masked; header through accept_stat
        let b = if (tcp || name.contains("marked")) && m.len() >= 4 { &m[4..] } else { &m[..] };
        let keep = b.len().min(24);
        if name.contains("dump2") && b.len() >= 24 {
            // portmap version 2 DUMP: (more, prog, vers, prot, port)*: only the port is an endpoint field
            let mut out = format!("rpc:{}", hex(&b[..24]));
            let mut i = 24;
            while i + 4 <= b.len() {
                let more = u32::from_be_bytes([b[i], b[i + 1], b[i + 2], b[i + 3]]);
                out.push_str(&format!("|{}", more));
                i += 4;
                if more != 1 || i + 16 > b.len() {
                    break;
                }
                out.push_str(&format!(":{}", hex(&b[i..i + 12])));
                i += 16;
            }
            out.push_str(&format!("|rest={}", hex(&b[i.min(b.len())..])));
            return out;
        }
        return format!("rpc:{}", hex(&b[..keep]));
    } else if name.starts_with("dns") {
        // everything verbatim except the exempted field, which is masked by its context: every
        // "TTL 43200, RDLENGTH, RDATA" group (RDLENGTH 4 + address over IPv4, 0 and nothing over
        // IPv6).  (Walking the names as label sequences is not robust: the responder echoes
        // names of requests whose labels are not well-formed.)
        if m.len() >= 12 {
            let ttl = [0x00u8, 0x00, 0xa8, 0xc0];
            let mut out = String::with_capacity(2 * m.len() + 16);
            out.push_str("dns:");
            let mut k = 0;
            let mut start = 0;
            while k < m.len() {
                if m[k] == 0 && k + 6 <= m.len() && m[k..k + 4] == ttl {
                    let rdl = u16::from_be_bytes([m[k + 4], m[k + 5]]) as usize;
                    if (rdl == 4 || rdl == 0) && k + 6 + rdl <= m.len() {
                        out.push_str(&hex(&m[start..k]));
                        out.push_str("[ttl-rd]");
                        k += 6 + rdl;
                        start = k;
                        continue;
                    }
                }
                k += 1;
            }
            out.push_str(&hex(&m[start..]));
            return out;
        }
    }
    hex(&m)
}

pub fn ctx_of(f: &Flow, tcp: bool) -> crate::app::AppCtx {
    crate::app::AppCtx { cip: f.cip, sip: f.sip, cport: f.cport, sport: f.sport, transport: if tcp { crate::app::Transport::Tcp } else { crate::app::Transport::Udp } }
}

pub fn port_points(sweep: u64, i: u64) -> (u16, u16) {
    match sweep {
        0 => (40000, i as u16),                              // all destination ports
        1 => (i as u16, 80),                                 // all source ports
        2 => (((i >> 8) as u16) << 8 | 0x40, ((i & 0xff) as u16) << 8 | 0x50), // high-byte grid
        _ => (0x9c00 | (i >> 8) as u16, 0x0000 | (i & 0xff) as u16), // low-byte grid
    }
}

pub fn run(rep: &mut Report, thorough: bool) {
    rep.rule = "for every base request of every application protocol (and three payloads that must not be answered), over UDP (quick) and over UDP and a fresh validated TCP flow (thorough): all 65536 destination ports at a fixed source port, all 65536 source ports at a fixed destination port, the 256x256 grid of (source high byte, destination high byte) and of the low bytes, on IPv4 and IPv6; differential oracle: answered-or-not and the canonical reply (STUN MAPPED-ADDRESS and its length word, portmapper addresses / ports / netids, DNS A RDLENGTH+RDATA, HTTP Date, SMB times masked) equal to the reference run (port 40000 -> 80, IPv4); ADDED LATER: reply-size classes (DNS queries with 1..150 questions in 6 contexts) and port pairs whose SYN cookie is an edge value (4 keys confirmed against the real SYN-ACK)".into();
    rep.assumptions = vec!["2^32 port pairs per payload are not enumerated: two full one-dimensional sweeps plus two byte grids per payload, transport and IP version".into()];
    let cfg = cfg_plain();
    let pls = payloads();
    let quick_set = ["http-get", "ssh-2", "ghost", "stun-classic-change-port", "smb2-negotiate", "rpc-udp-getaddr", "dns-a", "garbage", "http-incomplete", "dns-txt-ch", "stun-magic-attrs", "stun-classic-dns-polyglot", "stun-change-dns-polyglot", "rpc-tcp-dump", "rpc-udp-dump", "rpc-tcp-getaddr", "rpc-marked-dump-in-datagram", "rpc-udp-dump2", "rpc-tcp-dump2", "rpc-udp-getport", "smb2-setup-reconnect"];
    let sel: Vec<&Payload> = pls.iter().filter(|p| thorough || quick_set.contains(&p.name)).collect();
    // reference runs
    let ref_flow = flow4(40000, 80);
    let ref_cookie = learn_cookies(&cfg, &[ref_flow.clone()]).unwrap_or_default();
    let rc = ref_cookie.get(&key_of(&ref_flow)).copied().unwrap_or(0).wrapping_add(1);
    let mut refs: HashMap<(String, bool), String> = HashMap::new();
    {
        let mut d = match crate::driver::Driver::spawn(&cfg) {
            Ok(d) => d,
            Err(e) => {
                rep.sink.machinery_errors.push(e);
                return;
            }
        };
        for p in &sel {
            if p.via != Via::TcpOnly {
                let o = d.exec(&[Cmd::Reset, Cmd::Frame(ref_flow.udp(&p.bytes))]).map(|v| v[1].clone()).unwrap_or_default();
                refs.insert((p.name.to_string(), false), canon_checked(p.name, &p.bytes, o.reply.as_deref(), &ctx_of(&ref_flow, false)));
            }
            if p.via != Via::UdpOnly {
                let o = d.exec(&[Cmd::Reset, Cmd::Frame(ref_flow.tcp(1000, rc, F_PSH | F_ACK, &p.bytes))]).map(|v| v[1].clone()).unwrap_or_default();
                refs.insert((p.name.to_string(), true), canon_checked(p.name, &p.bytes, o.reply.as_deref(), &ctx_of(&ref_flow, true)));
            }
        }
    }
    for ((n, t), c) in &refs {
        rep.sink.class(&format!("ref:{}:{}:{}", n, if *t { "tcp" } else { "udp" }, if c.starts_with("-||") || c.starts_with("bare-ack||") { "unanswered" } else { "answered" }));
    }
    // UDP sweeps
    let udp_sel: Vec<&Payload> = sel.iter().filter(|p| p.via != Via::TcpOnly).cloned().collect();
    let nsweeps: u64 = 4;
    let dims = [udp_sel.len() as u64, 2, nsweeps, 65536];
    let t0 = std::time::Instant::now();
    let opts = RunOpts::new("udp-ports");
    let cfgc = cfg.clone();
    engine::run(
        &cfg,
        product(&dims),
        &opts,
        |i| {
            let d = unrank(i, &dims);
            let (sp, dp) = port_points(d[2], d[3]);
            vec![Cmd::Frame(flow(d[1] == 1, sp, dp).udp(&udp_sel[d[0] as usize].bytes))]
        },
        |it: &Item, sk: &mut Sink| {
            let d = unrank(it.idx, &dims);
            let p = udp_sel[d[0] as usize];
            let (sp0, dp0) = port_points(d[2], d[3]);
            let got = canon_checked(p.name, &p.bytes, it.outs[0].reply.as_deref(), &ctx_of(&flow(d[1] == 1, sp0, dp0), false));
            let want = &refs[&(p.name.to_string(), false)];
            if !same(&got, want) {
                let (sp, dp) = port_points(d[2], d[3]);
                sk.violation(Violation {
                    prop: "C19".into(),
                    key: format!("port-or-version-dependence:udp:{}", p.name),
                    what: format!("payload '{}' from port {} to port {} over IPv{}: canonical reply {} differs from the reference run (40000 -> 80, IPv4) {}", p.name, sp, dp, if d[1] == 1 { 6 } else { 4 }, got, want),
                    cfg: cfgc.clone(),
                    cmds: it.cmds.to_vec(),
                    idx: it.idx,
                    stage: "udp-ports".into(),
                });
            }
        },
        &mut rep.sink,
    );
    rep.stage("udp-ports", "UDP payloads x {v4,v6} x 4 port sweeps x 65536 points", product(&dims), t0);
    // IP-version differential over the request space: each base payload x every 16-bit word
    // position (both alignments) x a value set, sent over IPv4 and over IPv6: answered-or-not and
    // the canonical answer agree (a record type, a flag, a size that one IP version's path treats
    // differently)
    {
        let t0 = std::time::Instant::now();
        let names = ["http-get", "ssh-2", "ghost", "stun-classic-change-port", "stun-magic-attrs", "smb2-negotiate", "rpc-udp-getaddr", "rpc-udp-dump", "dns-a", "dns-txt-ch"];
        let bases: Vec<&Payload> = udp_sel.iter().filter(|p| thorough || names.contains(&p.name)).cloned().collect();
        let mut vals: Vec<u16> = if thorough { (0..=0xffffu32).map(|v| v as u16).collect() } else { (0..512u16).collect() };
        if !thorough {
            for k in 0..256u16 {
                vals.push(k << 8);
                vals.push((k << 8) | 0xff);
            }
            vals.extend(crate::deviate::EDGE16.iter().map(|v| *v as u16));
            let sw: Vec<u16> = vals.iter().map(|v| v.swap_bytes()).collect();
            vals.extend(sw);
            vals.sort();
            vals.dedup();
        }
        let mut plan: Vec<(usize, usize)> = Vec::new();
        for (bi, b) in bases.iter().enumerate() {
            for p in 0..b.bytes.len().saturating_sub(1).min(if thorough { 64 } else { 4096 }) {
                plan.push((bi, p));
            }
        }
        let nv = vals.len() as u64;
        let total = plan.len() as u64 * nv;
        let f4 = flow4(40000, 80);
        let f6 = flow6(40000, 80);
        let opts = RunOpts::new("version-differential-words").no_monitor();
        let cfgv = cfg.clone();
        engine::run(
            &cfg,
            total,
            &opts,
            |i| {
                let (bi, p) = plan[(i / nv) as usize];
                let v = vals[(i % nv) as usize];
                let mut m = bases[bi].bytes.clone();
                m[p] = (v >> 8) as u8;
                m[p + 1] = v as u8;
                vec![Cmd::Frame(f4.udp(&m)), Cmd::Frame(f6.udp(&m))]
            },
            |it: &Item, sk: &mut Sink| {
                sk.count("frames", 2);
                let (bi, p) = plan[(it.idx / nv) as usize];
                let v = vals[(it.idx % nv) as usize];
                let mut m = bases[bi].bytes.clone();
                m[p] = (v >> 8) as u8;
                m[p + 1] = v as u8;
                // (a mutated version-2 DUMP may be a version-3 one: its entries are then shaped
                // differently, so the body is left to the reference decoder, which reads the
                // mutated request, and only the header is compared literally)
                let name = if bases[bi].name.contains("dump2") { "rpc-udp-mutated" } else { bases[bi].name };
                let a = canon_checked(name, &m, it.outs[0].reply.as_deref(), &ctx_of(&f4, false));
                let b = canon_checked(name, &m, it.outs[1].reply.as_deref(), &ctx_of(&f6, false));
                if !same(&a, &b) {
                    sk.violation(Violation {
                        prop: "C19".into(),
                        key: format!("version-dependence:udp:{}", name),
                        what: format!("payload '{}' with bytes {}..{} set to {:04x}: over IPv4 {} / over IPv6 {}", name, p, p + 1, v, a, b),
                        cfg: cfgv.clone(),
                        cmds: it.cmds.to_vec(),
                        idx: it.idx,
                        stage: "version-differential-words".into(),
                    });
                }
            },
            &mut rep.sink,
        );
        rep.stage("version-differential-words", "selected payloads x every 16-bit word position (both alignments) x 1300 values (thorough: all 65536 over the first 64 positions), each sent over IPv4 and over IPv6: same canonical answer", total, t0);
    }
    // IP-version differential over the ENVELOPE: the same payload marked the same way on both IP
    // versions (DSCP / ECN = IPv4 TOS = IPv6 traffic class, all 256 values; TTL = hop limit, all
    // 256 values; IPv4 id / IPv6 flow label, edge values): same canonical answer
    {
        let t0 = std::time::Instant::now();
        let names = ["http-get", "stun-classic-change-port", "rpc-udp-getaddr", "dns-a", "ssh-2"];
        let bases: Vec<&Payload> = udp_sel.iter().filter(|p| names.contains(&p.name)).cloned().collect();
        let labels: Vec<u32> = crate::deviate::EDGE16.iter().cloned().chain([0x10000u32, 0xfffff]).collect();
        let v4flags: [u16; 4] = [0x0000, 0x4000, 0x8000, 0xc000];
        let tags: [(u16, u16); 4] = [(0x8100, 0x0000), (0x8100, 0x0064), (0x8100, 0xe001), (0x88a8, 0x0064)];
        // classes of SOURCE address that exist in both versions
        let srcs: [(Ip, Ip); 5] = [
            (Ip::V4([224, 0, 0, 251]), Ip::parse("ff02::fb")),
            (Ip::V4([127, 0, 0, 1]), Ip::parse("::1")),
            (Ip::V4([0, 0, 0, 0]), Ip::parse("::")),
            (Ip::V4([169, 254, 1, 1]), Ip::parse("fe80::1")),
            (Ip::V4([10, 0, 0, 1]), Ip::parse("2001:db8::1")),
        ];
        let nf_old = 256 + 256 + labels.len() as u64 + v4flags.len() as u64 + tags.len() as u64 + srcs.len() as u64;
        // round 21/22: the same value in the UDP checksum field on both versions (0 = "no checksum"
        // over IPv4; the responder verifies no checksum, so the field may not decide the answer on
        // one IP version only), each also with the UDP length field left exact
        let sums: Vec<u32> = crate::deviate::EDGE16.iter().cloned().collect();
        let nf = nf_old + sums.len() as u64;
        let total = bases.len() as u64 * nf;
        let f4 = flow4(40000, 80);
        let f6 = flow6(40000, 80);
        let mk = |bi: usize, k: u64| -> (Vec<u8>, Vec<u8>, String) {
            let mut a = f4.udp(&bases[bi].bytes);
            let mut b = f6.udp(&bases[bi].bytes);
            let what;
            if k >= nf_old {
                let c = sums[(k - nf_old) as usize] as u16;
                a[40..42].copy_from_slice(&c.to_be_bytes());
                b[60..62].copy_from_slice(&c.to_be_bytes());
                return (a, b, format!("UDP checksum field {:#06x}", c));
            }
            if k < 256 {
                let tc = k as u8;
                a[15] = tc;
                b[14] = 0x60 | (tc >> 4);
                b[15] = (b[15] & 0x0f) | (tc << 4);
                what = format!("TOS / traffic class {:#04x}", tc);
            } else if k < 512 {
                a[22] = (k - 256) as u8;
                b[21] = (k - 256) as u8;
                what = format!("TTL / hop limit {}", k - 256);
            } else if k >= 512 + labels.len() as u64 + v4flags.len() as u64 + tags.len() as u64 {
                let (s4, s6) = srcs[(k - 512 - labels.len() as u64 - v4flags.len() as u64 - tags.len() as u64) as usize];
                let mut g4 = f4.clone();
                g4.cip = s4;
                let mut g6 = f6.clone();
                g6.cip = s6;
                return (g4.udp(&bases[bi].bytes), g6.udp(&bases[bi].bytes), format!("source address {} / {}", s4, s6));
            } else if k >= 512 + labels.len() as u64 + v4flags.len() as u64 {
                // the same link-layer tagging on both versions (802.1Q priority tag, VLAN 100, 802.1ad)
                let (tpid, tci) = tags[(k - 512 - labels.len() as u64 - v4flags.len() as u64) as usize];
                for fr in [&mut a, &mut b] {
                    let rest = fr.split_off(12);
                    fr.extend_from_slice(&tpid.to_be_bytes());
                    fr.extend_from_slice(&tci.to_be_bytes());
                    fr.extend(rest);
                }
                return (a, b, format!("link-layer tag {:#06x} / {:#06x}", tpid, tci));
            } else if k >= 512 + labels.len() as u64 {
                // the IPv4 flag bits that do not say "fragment" (DF, the reserved bit, both): IPv6
                // has no such field, the datagram is whole either way
                let fl = v4flags[(k - 512 - labels.len() as u64) as usize];
                a[20] = (fl >> 8) as u8;
                a[21] = fl as u8;
                what = format!("IPv4 flags word {:#06x}", fl);
            } else {
                let l = labels[(k - 512) as usize];
                a[18] = (l >> 8) as u8;
                a[19] = l as u8;
                b[15] = (b[15] & 0xf0) | ((l >> 16) as u8 & 0x0f);
                b[16] = (l >> 8) as u8;
                b[17] = l as u8;
                what = format!("IPv4 id / IPv6 flow label {:#x}", l);
            }
            refresh_checksums(&mut a);
            (a, b, what)
        };
        let opts = RunOpts::new("version-differential-envelope").no_monitor();
        let cfgv = cfg.clone();
        engine::run(
            &cfg,
            total,
            &opts,
            |i| {
                let (a, b, _) = mk((i / nf) as usize, i % nf);
                vec![Cmd::Frame(a), Cmd::Frame(b)]
            },
            |it: &Item, sk: &mut Sink| {
                sk.count("frames", 2);
                let bi = (it.idx / nf) as usize;
                let p = bases[bi];
                let a = canon_checked(p.name, &p.bytes, it.outs[0].reply.as_deref(), &ctx_of(&f4, false));
                let b = canon_checked(p.name, &p.bytes, it.outs[1].reply.as_deref(), &ctx_of(&f6, false));
                if !same(&a, &b) {
                    let (_, _, what) = mk(bi, it.idx % nf);
                    sk.violation(Violation {
                        prop: "C19".into(),
                        key: format!("version-dependence:envelope:{}", p.name),
                        what: format!("payload '{}' with {}: over IPv4 {} / over IPv6 {}", p.name, what, a, b),
                        cfg: cfgv.clone(),
                        cmds: it.cmds.to_vec(),
                        idx: it.idx,
                        stage: "version-differential-envelope".into(),
                    });
                }
            },
            &mut rep.sink,
        );
        rep.stage("version-differential-envelope", "5 payloads x {TOS = traffic class: 256 values, TTL = hop limit: 256 values, IPv4 id / IPv6 flow label: 24 values, IPv4 DF / reserved flag bits: 4 values, 802.1Q / 802.1ad tags: 4, source address classes (multicast, loopback, unspecified, link-local, the responder's own): 5, UDP checksum field: 22 edge values incl. 0}, the same marking on both IP versions: same canonical answer", total, t0);
    }
    // the IPv4 header's own length: the same payload behind IPv4 options (IHL 6..15: NOP padding, a
    // timestamp option, a router-alert option) as datagram and as first data segment: the answer
    // is the reference answer, byte for byte (nothing sized or offset by the request's IHL)
    {
        let t0 = std::time::Instant::now();
        let names = ["http-get", "ssh-2", "ghost", "stun-classic-change-port", "smb2-negotiate", "rpc-udp-getaddr", "rpc-tcp-getaddr", "dns-a"];
        let bases: Vec<&Payload> = sel.iter().filter(|p| names.contains(&p.name)).cloned().collect();
        let c4 = match ref_flow.cip { Ip::V4(a) => a, _ => unreachable!() };
        let s4 = match ref_flow.sip { Ip::V4(a) => a, _ => unreachable!() };
        let optsets: Vec<Vec<u8>> = {
            let mut v: Vec<Vec<u8>> = (1..=10usize).map(|w| vec![1u8; w * 4]).collect();
            v.push(vec![0x44, 0x0c, 0x05, 0x00, 0, 0, 0, 1, 0, 0, 0, 2]);
            v.push(vec![0x94, 0x04, 0x00, 0x00]);
            v.push(vec![0x07, 0x07, 0x04, 0, 0, 0, 0, 0]);
            v
        };
        let no = optsets.len() as u64;
        let dims = [bases.len() as u64, no, 2];
        let total: u64 = dims.iter().product();
        let opts = RunOpts::new("ipv4-options").stateful().chunk(64).no_monitor();
        let cfgo = cfg.clone();
        engine::run(
            &cfg,
            total,
            &opts,
            |i| {
                let d = unrank(i, &dims);
                let p = bases[d[0] as usize];
                let o = &optsets[d[1] as usize];
                let ihl = 5 + (o.len() / 4) as u8;
                let tcp = d[2] == 1;
                let l4 = if tcp { TcpSeg::new(ref_flow.cport, ref_flow.sport, 1000, rc, F_PSH | F_ACK, &p.bytes).bytes(&ref_flow.cip, &ref_flow.sip) } else { udp(&ref_flow.cip, &ref_flow.sip, ref_flow.cport, ref_flow.sport, &p.bytes) };
                vec![Cmd::Frame(eth(&ref_flow.smac, &ref_flow.cmac, ET_IP4, &ipv4_raw(c4, s4, if tcp { P_TCP } else { P_UDP }, &l4, ihl, None, o, 64, 0x4000, 7)))]
            },
            |it: &Item, sk: &mut Sink| {
                sk.count("frames", 1);
                let d = unrank(it.idx, &dims);
                let p = bases[d[0] as usize];
                let tcp = d[2] == 1;
                if (tcp && p.via == Via::UdpOnly) || (!tcp && p.via == Via::TcpOnly) {
                    return;
                }
                let got = canon_checked(p.name, &p.bytes, it.outs[1].reply.as_deref(), &ctx_of(&ref_flow, tcp));
                let want = &refs[&(p.name.to_string(), tcp)];
                if !same(&got, want) {
                    sk.violation(Violation {
                        prop: "C19".into(),
                        key: format!("ipv4-header-length-dependence:{}:{}", if tcp { "tcp" } else { "udp" }, p.name),
                        what: format!("payload '{}' behind {} bytes of IPv4 options: canonical reply {} differs from the reference run {}", p.name, optsets[d[1] as usize].len(), got, want),
                        cfg: cfgo.clone(),
                        cmds: it.cmds.to_vec(),
                        idx: it.idx,
                        stage: "ipv4-options".into(),
                    });
                }
            },
            &mut rep.sink,
        );
        rep.stage("ipv4-options", "8 payloads x 13 IPv4 option areas (4..40 bytes of NOPs, timestamp, router alert, record route) x {datagram, first data segment}: canonical answer equals the reference", total, t0);
    }
    // soak: 70 000 datagrams into ONE responder process (round robin over the payloads, running
    // source ports, alternating IP version): every canonical answer still equals the reference
    {
        let t0 = std::time::Instant::now();
        let n = 70_000u64;
        let np = udp_sel.len() as u64;
        let mk = |k: u64| flow(k & 1 == 1, (k.wrapping_mul(7) + 1024) as u16, (k % 5000) as u16 + 1);
        let cmds: Vec<Cmd> = (0..n).map(|k| Cmd::Frame(mk(k).udp(&udp_sel[(k % np) as usize].bytes))).collect();
        let opts = RunOpts::new("udp-soak").stateful().chunk(1).no_monitor();
        let cfgc = cfg.clone();
        engine::run(
            &cfg,
            1,
            &opts,
            |_| cmds.clone(),
            |it: &Item, sk: &mut Sink| {
                sk.count("frames", n);
                for k in 0..n {
                    let p = udp_sel[(k % np) as usize];
                    let o = &it.outs[k as usize + (it.outs.len() - n as usize)];
                    let got = canon_checked(p.name, &p.bytes, o.reply.as_deref(), &ctx_of(&mk(k), false));
                    let want = &refs[&(p.name.to_string(), false)];
                    if !same(&got, want) {
                        sk.violation(Violation {
                            prop: "C19".into(),
                            key: format!("history-dependence:udp:{}", p.name),
                            what: format!("payload '{}' as datagram number {} of one responder process: canonical reply {} differs from the reference run {}", p.name, k + 1, got, want),
                            cfg: cfgc.clone(),
                            cmds: it.cmds[..=(k as usize + (it.cmds.len() - n as usize))].to_vec(),
                            idx: k,
                            stage: "udp-soak".into(),
                        });
                        break;
                    }
                }
            },
            &mut rep.sink,
        );
        rep.stage("udp-soak", "70 000 datagrams (round robin over the selected payloads, running ports, alternating IP version) into one responder process: every canonical answer equals the reference", n, t0);
    }
    // reply-size classes: DNS queries whose answers grow from a few bytes to several kilobytes
    // (n questions for the root name, n = 1..150; k questions for 249-byte names, k = 1..6): the
    // same query over IPv4 / IPv6 and from / to other ports gets the same canonical answer
    {
        let t0 = std::time::Instant::now();
        let long: Vec<Vec<u8>> = vec![vec![b'a'; 63], vec![b'b'; 63], vec![b'c'; 63], vec![b'd'; 55]];
        let nq = 150u64 + 6;
        let query = |k: u64| -> Vec<u8> {
            if k < 150 {
                let qs: Vec<(Vec<Vec<u8>>, u16, u16)> = (0..=k).map(|_| (vec![], 1u16, 1u16)).collect();
                crate::appdns::build_query(0x4444, 0x0100, &qs)
            } else {
                let qs: Vec<(Vec<Vec<u8>>, u16, u16)> = (0..=(k - 150)).map(|_| (long.clone(), 1u16, 1u16)).collect();
                crate::appdns::build_query(0x4445, 0x0100, &qs)
            }
        };
        let ctxs = [flow4(40000, 80), flow4(1, 65535), flow6(40000, 80), flow6(53, 53), flow4(53, 53), flow6(65535, 1)];
        let opts = RunOpts::new("reply-size-classes");
        engine::run(
            &cfg,
            nq,
            &opts,
            |i| ctxs.iter().map(|f| Cmd::Frame(f.udp(&query(i)))).collect(),
            |it: &Item, sk: &mut Sink| {
                let q = query(it.idx);
                let forms: Vec<String> = ctxs.iter().enumerate().map(|(k, f)| canon_checked("dns-sized", &q, it.outs[k].reply.as_deref(), &ctx_of(f, false))).collect();
                for k in 1..forms.len() {
                    if !same(&forms[k], &forms[0]) {
                        sk.violation(Violation {
                            prop: "C19".into(),
                            key: "port-or-version-dependence:udp:dns-sized".into(),
                            what: format!("DNS query #{} ({} bytes) {}:{} -> :{} : canonical reply {} differs from the one for 40000 -> 80 over IPv4 {}", it.idx, q.len(), ctxs[k].cip, ctxs[k].cport, ctxs[k].sport, &forms[k][..forms[k].len().min(80)], &forms[0][..forms[0].len().min(80)]),
                            cfg: cfgc.clone(),
                            cmds: vec![it.cmds[0].clone(), it.cmds[k].clone()],
                            idx: it.idx,
                            stage: "reply-size-classes".into(),
                        });
                        break;
                    }
                }
            },
            &mut rep.sink,
        );
        rep.stage("reply-size-classes", "DNS queries with 1..150 root-name questions and 1..6 questions for 249-byte names x 6 contexts (IPv4 / IPv6, 3 port pairs): all canonical answers equal", nq * 6, t0);
    }
    // address forms: destination (and source) addresses whose printed form has every length; the
    // replies that carry an endpoint address change size with it, everything else must not change
    {
        let t0 = std::time::Instant::now();
        let mut dsts: Vec<Ip> = vec![Ip::V4([1, 1, 1, 1]), Ip::V4([100, 100, 100, 100]), Ip::V4([255, 255, 255, 255])];
        for a in ["2001:db8::1", "2001:db8:1234:5678:9abc:def0:1357:2468", "2001:db8:1:2:3:4:5:6", "2001:db8:1234::5678:9abc", "ffff:ffff:ffff:ffff:ffff:ffff:ffff:fffe", "fe80::1234:5678:9abc:def0", "::1"] {
            dsts.push(Ip::parse(a));
        }
        let ports = [1u16, 111, 65535];
        let asel: Vec<&Payload> = sel.iter().filter(|p| p.name.starts_with("rpc") || p.name.starts_with("stun") || p.name.starts_with("dns")).cloned().collect();
        let mut fl: Vec<Flow> = Vec::new();
        for d in &dsts {
            for p in ports {
                let mut f = flow(!d.is_v4(), 40000, p);
                f.sip = *d;
                fl.push(f);
            }
        }
        let ck = learn_cookies(&cfg, &fl).unwrap_or_default();
        let dims = [asel.len() as u64, fl.len() as u64, 2];
        let opts = RunOpts::new("address-forms").stateful().chunk(64).no_monitor();
        engine::run(
            &cfg,
            product(&dims),
            &opts,
            |i| {
                let d = unrank(i, &dims);
                let f = &fl[d[1] as usize];
                let p = asel[d[0] as usize];
                if d[2] == 0 {
                    vec![Cmd::Frame(f.udp(&p.bytes))]
                } else {
                    let c = ck.get(&key_of(f)).copied().unwrap_or(0).wrapping_add(1);
                    vec![Cmd::Frame(f.tcp(1000, c, F_PSH | F_ACK, &p.bytes))]
                }
            },
            |it: &Item, sk: &mut Sink| {
                sk.count("frames", 1);
                let d = unrank(it.idx, &dims);
                let p = asel[d[0] as usize];
                let tcp = d[2] == 1;
                if (tcp && p.via == Via::UdpOnly) || (!tcp && p.via == Via::TcpOnly) {
                    return;
                }
                let f = &fl[d[1] as usize];
                let got = canon_checked(p.name, &p.bytes, it.outs[1].reply.as_deref(), &ctx_of(f, tcp));
                let want = &refs[&(p.name.to_string(), tcp)];
                if !same(&got, want) {
                    sk.violation(Violation {
                        prop: "C19".into(),
                        key: format!("port-or-version-dependence:address-form:{}", p.name),
                        what: format!("payload '{}' to {} port {} over {}: canonical reply {} differs from the reference run {}", p.name, f.sip, f.sport, if tcp { "TCP" } else { "UDP" }, &got[..got.len().min(90)], &want[..want.len().min(90)]),
                        cfg: cfgc.clone(),
                        cmds: it.cmds.to_vec(),
                        idx: it.idx,
                        stage: "address-forms".into(),
                    });
                }
            },
            &mut rep.sink,
        );
        rep.stage("address-forms", "payloads whose reply carries an endpoint address x 10 destination addresses (printed forms of every length) x 3 destination ports x {UDP, TCP}", product(&dims), t0);
    }
    // link-layer padding: short IPv4 frames are padded to 60 bytes on the wire, IPv6 frames never
    // need it; the application stream is the same, so the answers are.  Each TCP payload is sent as
    // a 4-byte first segment (padded / with a trailer) plus the rest; each datagram payload padded.
    {
        let t0 = std::time::Instant::now();
        let f4 = flow4(40000, 80);
        let f6 = flow6(40000, 80);
        let ck = learn_cookies(&cfg, &[f4.clone(), f6.clone()]).unwrap_or_default();
        let pad = |mut fr: Vec<u8>, always: usize| -> Vec<u8> {
            let target = 60usize.max(fr.len() + always);
            fr.resize(target, 0);
            fr
        };
        let mut n = 0u64;
        if let Ok(mut d) = crate::driver::Driver::spawn(&cfg) {
            for p in &sel {
                let mut forms: Vec<(String, String)> = Vec::new();
                let mut form_cmds: Vec<Vec<Cmd>> = Vec::new();
                for (vn, f) in [("IPv4", &f4), ("IPv6", &f6)] {
                    for padded in [false, true] {
                        let c = ck.get(&key_of(f)).copied().unwrap_or(0).wrapping_add(1);
                        let cmds: Vec<Cmd> = if p.via == Via::UdpOnly {
                            let fr = f.udp(&p.bytes);
                            vec![Cmd::Reset, Cmd::Frame(if padded { pad(fr, 6) } else { fr })]
                        } else if p.bytes.len() > 4 {
                            let a = f.tcp(1000, c, F_PSH | F_ACK, &p.bytes[..4]);
                            let b = f.tcp(1004, c, F_PSH | F_ACK, &p.bytes[4..]);
                            vec![Cmd::Reset, Cmd::Frame(if padded { pad(a, 6) } else { a }), Cmd::Frame(if padded { pad(b, 6) } else { b })]
                        } else {
                            continue;
                        };
                        n += cmds.len() as u64 - 1;
                        if let Ok(o) = d.exec(&cmds) {
                            let last = o.last().unwrap();
                            let tcp = p.via != Via::UdpOnly;
                            forms.push((format!("{} {}", vn, if padded { "padded" } else { "exact" }), canon_checked(p.name, &p.bytes, last.reply.as_deref(), &ctx_of(f, tcp))));
                            form_cmds.push(cmds.clone());
                        }
                    }
                }
                for k in 1..forms.len() {
                    if !same(&forms[k].1, &forms[0].1) {
                        rep.sink.violation(Violation {
                            prop: "C19".into(),
                            key: format!("port-or-version-dependence:link-padding:{}", p.name),
                            what: format!("payload '{}' ({}): canonical reply {} differs from ({}) {}", p.name, forms[k].0, &forms[k].1[..forms[k].1.len().min(80)], forms[0].0, &forms[0].1[..forms[0].1.len().min(80)]),
                            cfg: cfg.clone(),
                            // both conversations, each behind a table reset
                            cmds: [form_cmds[0].clone(), form_cmds[k].clone()].concat(),
                            idx: n,
                            stage: "link-padding".into(),
                        });
                        break;
                    }
                }
            }
        }
        rep.sink.count("frames", n);
        rep.stage("link-padding", "every selected payload (TCP: 4-byte first segment + rest; UDP: one datagram) x {IPv4, IPv6} x {exact frame, frame padded to 60 bytes / with a 6-byte trailer}: same canonical answer", n, t0);
    }
    // TCP sweeps: learn cookies for all flows first (SYN sweep), then data on fresh tables
    let tcp_sel: Vec<&Payload> = sel.iter().filter(|p| p.via != Via::UdpOnly).cloned().collect();
    let tsweeps: u64 = if thorough { 4 } else { 2 };
    let tpts: u64 = if thorough { 65536 } else { 8192 };
    let t0 = std::time::Instant::now();
    let fdims = [2u64, tsweeps, tpts];
    let nflows = product(&fdims);
    let flow_of = |k: u64| -> Flow {
        let d = unrank(k, &fdims);
        let (sp, dp) = port_points(d[1], d[2] * (65536 / tpts));
        flow(d[0] == 1, sp, dp)
    };
    let syns: Vec<Cmd> = (0..nflows).map(|k| Cmd::Frame(flow_of(k).tcp(5, 0, F_SYN, b""))).collect();
    let outs = engine::map_cmds(&cfg, &syns, "tcp-syn-learn", true, &mut rep.sink);
    let mut cookies: HashMap<FlowKey, u32> = HashMap::new();
    for (k, o) in outs.iter().enumerate() {
        if let Some(c) = o.reply.as_deref().and_then(synack_seq) {
            cookies.insert(key_of(&flow_of(k as u64)), c);
        }
    }
    let dims = [tcp_sel.len() as u64, nflows];
    let opts = RunOpts::new("tcp-ports").stateful().chunk(256).no_monitor();
    engine::run(
        &cfg,
        product(&dims),
        &opts,
        |i| {
            let d = unrank(i, &dims);
            let f = flow_of(d[1]);
            let c = cookies.get(&key_of(&f)).copied().unwrap_or(0).wrapping_add(1);
            vec![Cmd::Frame(f.tcp(1000, c, F_PSH | F_ACK, &tcp_sel[d[0] as usize].bytes))]
        },
        |it: &Item, sk: &mut Sink| {
            sk.count("frames", 1);
            let d = unrank(it.idx, &dims);
            let p = tcp_sel[d[0] as usize];
            if it.outs[1].panicked {
                sk.violation(Violation { prop: "C01".into(), key: format!("panic:{}", engine::panic_site(&it.outs[1].text)), what: it.outs[1].text.clone(), cfg: cfgc.clone(), cmds: it.cmds.to_vec(), idx: it.idx, stage: "tcp-ports".into() });
                return;
            }
            let got = canon_checked(p.name, &p.bytes, it.outs[1].reply.as_deref(), &ctx_of(&flow_of(d[1]), true));
            let want = &refs[&(p.name.to_string(), true)];
            if !same(&got, want) {
                let f = flow_of(d[1]);
                sk.violation(Violation {
                    prop: "C19".into(),
                    key: format!("port-or-version-dependence:tcp:{}", p.name),
                    what: format!("payload '{}' from port {} to port {} over {}: canonical reply {} differs from the reference run (40000 -> 80, IPv4) {}", p.name, f.cport, f.sport, f.cip, got, want),
                    cfg: cfgc.clone(),
                    cmds: it.cmds.to_vec(),
                    idx: it.idx,
                    stage: "tcp-ports".into(),
                });
            }
        },
        &mut rep.sink,
    );
    rep.stage("tcp-ports", "TCP payloads x {v4,v6} x port sweeps (fresh validated flow each)", product(&dims), t0);
    // connections on NEIGHBOURING port pairs in ONE responder process (every single-bit flip of the
    // source port, of the destination port, of both; byte-swapped and shifted pairs), each carrying
    // the next payload round robin: the answer on a port pair is the payload's, whatever the
    // neighbouring pairs carried before
    {
        let t0 = std::time::Instant::now();
        let mut pairs: Vec<(u16, u16)> = Vec::new();
        for (sp, dp) in [(40000u16, 443u16), (0x1234, 80), (1025, 0xffff)] {
            pairs.push((sp, dp));
            for b in 0..16 {
                pairs.push((sp ^ (1 << b), dp));
                pairs.push((sp, dp ^ (1 << b)));
                pairs.push((sp ^ (1 << b), dp ^ (1 << b)));
            }
            pairs.push((dp, sp));
            pairs.push((sp.swap_bytes(), dp.swap_bytes()));
            pairs.push((sp.wrapping_add(1), dp.wrapping_sub(1)));
            pairs.push((sp >> 8, (sp << 8) | (dp & 0xff)));
            pairs.push((sp & 0xfff0, 0x0400 | dp));
        }
        pairs.sort();
        pairs.dedup();
        let mut fl: Vec<Flow> = Vec::new();
        for v6 in [false, true] {
            for (sp, dp) in &pairs {
                fl.push(flow(v6, *sp, *dp));
            }
        }
        let ck = learn_cookies(&cfg, &fl).unwrap_or_default();
        let fl: Vec<Flow> = fl.into_iter().filter(|f| ck.contains_key(&key_of(f))).collect();
        let answered: Vec<&Payload> = tcp_sel.iter().filter(|p| ["http-get", "ssh-2", "ghost", "smb2-negotiate", "rpc-tcp-getaddr"].contains(&p.name)).cloned().collect();
        let np = answered.len().max(1);
        let cmds: Vec<Cmd> = fl.iter().enumerate().map(|(k, f)| Cmd::Frame(f.tcp(1000, ck[&key_of(f)].wrapping_add(1), F_PSH | F_ACK, &answered[k % np].bytes))).collect();
        let n = cmds.len();
        let opts = RunOpts::new("tcp-port-neighbours").stateful().chunk(1).no_monitor();
        let cfgn = cfg.clone();
        if !answered.is_empty() {
            engine::run(
                &cfg,
                1,
                &opts,
                |_| cmds.clone(),
                |it: &Item, sk: &mut Sink| {
                    sk.count("frames", n as u64);
                    for k in 0..n {
                        let p = answered[k % np];
                        let o = &it.outs[1 + k];
                        let got = canon_checked(p.name, &p.bytes, o.reply.as_deref(), &ctx_of(&fl[k], true));
                        let want = &refs[&(p.name.to_string(), true)];
                        if !same(&got, want) {
                            sk.violation(Violation {
                                prop: "C19".into(),
                                key: format!("port-neighbour-dependence:tcp:{}", p.name),
                                what: format!("payload '{}' from port {} to port {} over {} (connection {} of one process, neighbours carried other payloads): canonical reply {} differs from the reference run {}", p.name, fl[k].cport, fl[k].sport, fl[k].cip, k + 1, got, want),
                                cfg: cfgn.clone(),
                                cmds: it.cmds[..=1 + k].to_vec(),
                                idx: k as u64,
                                stage: "tcp-port-neighbours".into(),
                            });
                            break;
                        }
                    }
                },
                &mut rep.sink,
            );
        }
        rep.stage("tcp-port-neighbours", "connections on every single-bit neighbour (source port, destination port, both), byte-swapped and shifted variants of 3 port pairs x {v4,v6} in one responder process, payloads round robin over 5 protocols: each answer equals the reference", n as u64, t0);
    }
    // port pairs whose SYN cookie is an edge value (0xffffffff: the valid acknowledgement is 0; 0;
    // 0xfffffffe; 1): keys under which the flow 40000 -> 80 has such a cookie were found offline
    // with the harness's own SipHash and are CONFIRMED against the real SYN-ACK here; the answers
    // on that port pair must equal those on a neighbouring pair
    {
        let t0 = std::time::Instant::now();
        let edge: [([u64; 2], u32); 4] = [([0xdcdce3a2, 0x5eed], 0xffff_ffff), ([0x45a0fb78, 0x5eed], 0), ([0x45a99a18, 0x5eed], 0xffff_fffe), ([0x32b774b09, 0x5eed], 1)];
        let mut confirmed = 0u64;
        let mut n = 0u64;
        for (key, want) in edge {
            let ecfg = Cfg::base().with_key(key);
            let fe = flow4(40000, 80);
            let fo = flow4(40001, 80);
            let ck = learn_cookies(&ecfg, &[fe.clone(), fo.clone()]).unwrap_or_default();
            if ck.get(&key_of(&fe)) != Some(&want) || ck.get(&key_of(&fo)).is_none() {
                continue;
            }
            confirmed += 1;
            let co = ck[&key_of(&fo)];
            let mut d = match crate::driver::Driver::spawn(&ecfg) {
                Ok(d) => d,
                Err(e) => {
                    rep.sink.machinery_errors.push(e);
                    break;
                }
            };
            for p in &tcp_sel {
                let cmds = vec![Cmd::Reset, Cmd::Frame(fe.tcp(1000, want.wrapping_add(1), F_PSH | F_ACK, &p.bytes)), Cmd::Reset, Cmd::Frame(fo.tcp(1000, co.wrapping_add(1), F_PSH | F_ACK, &p.bytes))];
                n += 2;
                if let Ok(o) = d.exec(&cmds) {
                    let a = canon_checked(p.name, &p.bytes, o[1].reply.as_deref(), &ctx_of(&fe, true));
                    let b = canon_checked(p.name, &p.bytes, o[3].reply.as_deref(), &ctx_of(&fo, true));
                    if !same(&a, &b) {
                        rep.sink.violation(Violation {
                            prop: "C19".into(),
                            key: format!("port-or-version-dependence:tcp-edge-cookie:{}", p.name),
                            what: format!("payload '{}' on the port pair 40000 -> 80 (SYN cookie {:#x}) gets {} but {} on 40001 -> 80", p.name, want, &a[..a.len().min(80)], &b[..b.len().min(80)]),
                            cfg: ecfg.clone(),
                            cmds: cmds.clone(),
                            idx: n,
                            stage: "edge-cookie-ports".into(),
                        });
                    }
                }
            }
        }
        rep.sink.count("edge_cookie_flows_confirmed", confirmed);
        rep.sink.count("frames", n);
        rep.stage("edge-cookie-ports", "TCP payloads on a port pair whose SYN cookie is 0xffffffff / 0 / 0xfffffffe / 1 (4 keys, confirmed against the real SYN-ACK) vs a neighbouring pair", n, t0);
    }
    rep.states = rep.sink.classes.len() as u64;
}
