//! Depth-2 histories with a process-level differential oracle: for every ordered pair (a, b) of a
//! frame set, b is sent right after a in one responder process (fresh connection table) and its
//! reply is compared with the reply b gets from a FRESH process.  Nothing but the connection
//! table may carry information from one frame to the next (C08), so any difference is hidden
//! state: a cache, a static parser, a learned neighbour.  Both frames are also judged by the
//! reference model (monitor), so a wrong reply is reported under the property it breaks.

use crate::driver::{Cfg, Cmd, Driver};
use crate::engine::{self, Item, Report, RunOpts, Sink, Violation};
use crate::mask::canon_reply;
use crate::wire::*;

pub struct PFrame {
    pub name: String,
    pub frame: Vec<u8>,
}

pub fn pf(name: &str, frame: Vec<u8>) -> PFrame {
    PFrame { name: name.to_string(), frame }
}

/// (src ip, dst ip, sport, dport) of a TCP segment carrying PSH|ACK, if the frame is one
fn tcp_data_flow(frame: &[u8]) -> Option<(Ip, Ip, u16, u16)> {
    let e = parse_eth(frame)?;
    let ip = match e.et {
        ET_IP4 => parse_ipv4(e.payload)?,
        ET_IP6 => parse_ipv6(e.payload)?,
        _ => return None,
    };
    if ip.proto != P_TCP {
        return None;
    }
    let t = parse_tcp(ip.payload)?;
    if t.flags & (F_PSH | F_ACK) == (F_PSH | F_ACK) {
        Some((ip.src, ip.dst, t.sport, t.dport))
    } else {
        None
    }
}

pub fn pair_histories(rep: &mut Report, cfg: &Cfg, stage: &str, frames: &[PFrame]) {
    pair_histories_owned(rep, cfg, stage, frames, None)
}

/// `owner`: (property, predicate on the second frame, key): the differential violation is ALSO
/// reported under that property when the predicate holds (e.g. C06 for SYN segments: the SYN-ACK
/// depends only on the 4-tuple and the key, whatever happened before).
pub fn pair_histories_owned(rep: &mut Report, cfg: &Cfg, stage: &str, frames: &[PFrame], owner: Option<(&'static str, fn(&[u8]) -> bool, &'static str)>) {
    // the same frame set under the same configuration is explored once per run (the union of the
    // L2-L4 checks would otherwise repeat it)
    let fp = format!("pairs_done:{}:{}:{}", cfg.describe(), frames.len(), frames.first().map(|f| f.name.clone()).unwrap_or_default());
    if rep.extra.contains_key(&fp) {
        return;
    }
    rep.extra.insert(fp, serde_json::json!(stage));
    let t0 = std::time::Instant::now();
    // reference: every frame alone in a fresh process
    let mut alone: Vec<String> = Vec::with_capacity(frames.len());
    for f in frames {
        let r = Driver::spawn(cfg).and_then(|mut d| d.exec(&[Cmd::Frame(f.frame.clone())]).map_err(|e| format!("{:?}", e)));
        match r {
            Ok(o) => alone.push(canon_reply(o[0].reply.as_deref())),
            Err(e) => {
                rep.sink.machinery_errors.push(format!("{}: reference run of '{}': {}", stage, f.name, e));
                return;
            }
        }
    }
    let flows: Vec<Option<(Ip, Ip, u16, u16)>> = frames.iter().map(|f| tcp_data_flow(&f.frame)).collect();
    let n = frames.len() as u64;
    let opts = RunOpts::new(stage).stateful().chunk(64);
    let cfgc = cfg.clone();
    let st = stage.to_string();
    engine::run(
        cfg,
        n * n,
        &opts,
        |i| vec![Cmd::Frame(frames[(i / n) as usize].frame.clone()), Cmd::Frame(frames[(i % n) as usize].frame.clone())],
        |it: &Item, sk: &mut Sink| {
            let (a, b) = ((it.idx / n) as usize, (it.idx % n) as usize);
            // data segments of one flow legitimately depend on each other
            if flows[a].is_some() && flows[a] == flows[b] {
                return;
            }
            let o = &it.outs[2];
            if o.panicked {
                return;
            }
            let got = canon_reply(o.reply.as_deref());
            if got != alone[b] {
                // confirm in a fresh process with exactly these two frames
                let confirmed = Driver::spawn(&cfgc)
                    .and_then(|mut d| d.exec(&it.cmds[1..]).map_err(|e| format!("{:?}", e)))
                    .map(|o2| canon_reply(o2[1].reply.as_deref()) != alone[b])
                    .unwrap_or(false);
                if let Some((prop, pred, key)) = owner {
                    if pred(&frames[b].frame) {
                        sk.violation(Violation {
                            prop: prop.into(),
                            key: key.into(),
                            what: format!("frame '{}' is answered differently right after frame '{}' than in a fresh process: {} vs {}", frames[b].name, frames[a].name, &got[..got.len().min(100)], &alone[b][..alone[b].len().min(100)]),
                            cfg: cfgc.clone(),
                            cmds: it.cmds.to_vec(),
                            idx: it.idx,
                            stage: st.clone(),
                        });
                    }
                }
                sk.violation(Violation {
                    prop: "C08".into(),
                    key: format!("hidden-state:{}=>{}{}", frames[a].name, frames[b].name, if confirmed { "" } else { ":only-after-longer-history" }),
                    what: format!("frame '{}' is answered differently right after frame '{}' than in a fresh process: {} vs {}", frames[b].name, frames[a].name, &got[..got.len().min(100)], &alone[b][..alone[b].len().min(100)]),
                    cfg: cfgc.clone(),
                    cmds: it.cmds.to_vec(),
                    idx: it.idx,
                    stage: st.clone(),
                });
            }
        },
        &mut rep.sink,
    );
    rep.stage(stage, &format!("all ordered pairs of {} frames: the second frame's reply right after the first (one process, fresh table) == its reply in a fresh process; both judged by the reference model", frames.len()), n * n, t0);
}

use crate::corpus::*;

/// L2-L4 frames: the same IP addresses behind two different MACs, ARP / ND carrying link-layer
/// addresses that differ from the frame's source MAC, SYNs to several destination addresses
/// from one source endpoint.
/// The responder's OWN replies fed back to it: for every frame g of the set (as is, and sent from
/// the broadcast, the responder's own and two group MAC addresses, so that the reply is addressed
/// to a MAC the responder accepts), r = reply(g) is sent right after g - once and twice - and its
/// answer compared with the answer r gets in a fresh process.  What the responder SENT is no state
/// a later frame may depend on.
pub fn reflected_replies(rep: &mut Report, cfg: &Cfg, stage: &str, frames: &[PFrame]) {
    let t0 = std::time::Instant::now();
    let macs: [Option<Mac>; 5] = [None, Some([0xff; 6]), Some(crate::driver::MAC_SRV), Some([0x33, 0x33, 0, 0, 0, 1]), Some([0x01, 0, 0x5e, 0, 0, 1])];
    let mut work: Vec<(String, Vec<u8>)> = Vec::new();
    for f in frames {
        for (k, m) in macs.iter().enumerate() {
            let mut g = f.frame.clone();
            if let Some(m) = m {
                if g.len() < 12 {
                    continue;
                }
                g[6..12].copy_from_slice(m);
            }
            work.push((format!("{}@srcmac{}", f.name, k), g));
        }
    }
    let run1 = |cmds: &[Cmd]| -> Result<Vec<crate::driver::Out>, String> { Driver::spawn(cfg).and_then(|mut d| d.exec(cmds).map_err(|e| format!("{:?}", e))) };
    let found: std::sync::Mutex<Vec<Violation>> = std::sync::Mutex::new(Vec::new());
    let errors: std::sync::Mutex<Vec<String>> = std::sync::Mutex::new(Vec::new());
    let reflected = std::sync::atomic::AtomicU64::new(0);
    let answered_again = std::sync::atomic::AtomicU64::new(0);
    let nthreads = 16usize;
    std::thread::scope(|sc| {
        for t in 0..nthreads {
            let work = &work;
            let found = &found;
            let errors = &errors;
            let reflected = &reflected;
            let answered_again = &answered_again;
            let run1 = &run1;
            sc.spawn(move || {
                for (idx, (name, g)) in work.iter().enumerate().filter(|(i, _)| i % nthreads == t) {
                    let r = match run1(&[Cmd::Frame(g.clone())]) {
                        Ok(o) if o[0].panicked => continue,
                        Ok(o) => match &o[0].reply {
                            Some(r) => r.clone(),
                            None => continue,
                        },
                        Err(e) => {
                            errors.lock().unwrap().push(format!("reference run of '{}': {}", name, e));
                            continue;
                        }
                    };
                    reflected.fetch_add(1, std::sync::atomic::Ordering::Relaxed);
                    let alone = match run1(&[Cmd::Frame(r.clone())]) {
                        Ok(o) => canon_reply(o[0].reply.as_deref()),
                        Err(e) => {
                            errors.lock().unwrap().push(format!("reference run of the reply to '{}': {}", name, e));
                            continue;
                        }
                    };
                    if alone != canon_reply(None) {
                        answered_again.fetch_add(1, std::sync::atomic::Ordering::Relaxed);
                    }
                    let cmds = vec![Cmd::Frame(g.clone()), Cmd::Frame(r.clone()), Cmd::Frame(r.clone())];
                    match run1(&cmds) {
                        Ok(o) => {
                            for k in 1..=2 {
                                if o[k].panicked {
                                    break;
                                }
                                let got = canon_reply(o[k].reply.as_deref());
                                // a data segment of a validated flow may be answered differently the second time
                                if got != alone && !(k == 2 && tcp_data_flow(&r).is_some()) {
                                    found.lock().unwrap().push(Violation {
                                        prop: "C08".into(),
                                        key: format!("hidden-state:own-reply-fed-back:{}", name.split('@').next().unwrap_or("")),
                                        what: format!("the responder's reply to '{}' is answered differently when it comes back right after that frame ({} time) than in a fresh process: {} vs {}", name, k, &got[..got.len().min(100)], &alone[..alone.len().min(100)]),
                                        cfg: cfg.clone(),
                                        cmds: cmds[..=k].to_vec(),
                                        idx: idx as u64,
                                        stage: stage.to_string(),
                                    });
                                    break;
                                }
                            }
                        }
                        Err(e) => errors.lock().unwrap().push(format!("history run of '{}': {}", name, e)),
                    }
                }
            });
        }
    });
    for v in found.into_inner().unwrap() {
        rep.sink.violation(v);
    }
    for e in errors.into_inner().unwrap() {
        rep.sink.machinery_errors.push(format!("{}: {}", stage, e));
    }
    rep.sink.count("reflected_replies", reflected.load(std::sync::atomic::Ordering::Relaxed));
    rep.sink.count("reflected_replies_answered_alone", answered_again.load(std::sync::atomic::Ordering::Relaxed));
    rep.stage(stage, &format!("{} frames x 5 Ethernet source addresses (as is, broadcast, the responder's own, IPv6 / IPv4 group): the reply to each, sent back right after it once and twice, is answered as in a fresh process", frames.len()), work.len() as u64 * 3, t0);
}

/// ICMP / ICMPv6 error messages of every kind quoting a datagram: the quoted datagram is TCP, UDP
/// or ICMP, sent by the responder itself (quoted source = the frame's destination), by the client or
/// by a third host; the quote is complete, cut to header + 8 bytes, cut inside the IP header, or a
/// few L4 bytes short.  Traffic of another kind whatever it quotes: no answer, no state, and nothing
/// of the quote shows in the events.
pub fn icmp_error_frames() -> Vec<PFrame> {
    use crate::corpus::*;
    let mut v = Vec::new();
    for v6 in [false, true] {
        let f = flow(v6, 40000, 53);
        let third = if v6 { Ip::parse("2001:db8::77") } else { Ip::V4([10, 0, 0, 77]) };
        for (qn, qsrc, qdst) in [("own", f.sip, f.cip), ("client", f.cip, f.sip), ("third", third, f.cip)] {
            for (pn, proto) in [("tcp", P_TCP), ("udp", P_UDP), ("icmp", if v6 { P_ICMP6 } else { P_ICMP })] {
                let l4 = match proto {
                    P_TCP => TcpSeg::new(53, 40000, 0x11223344, 1001, F_PSH | F_ACK, b"quoted").bytes(&qsrc, &qdst),
                    P_UDP => udp(&qsrc, &qdst, 53, 40000, b"quoted"),
                    _ => if v6 { icmp6(&qsrc, &qdst, 129, 0, &[0, 1, 0, 2, 9, 9]) } else { icmp4(0, 0, &[0, 1, 0, 2, 9, 9]) },
                };
                let quoted = ip(&qsrc, &qdst, proto, &l4);
                let hl = if v6 { 40 } else { 20 };
                for (cn, cut) in [("full", quoted.len()), ("h8", hl + 8), ("h4", hl + 4), ("h3", hl + 3), ("h0", hl), ("inhdr", hl - 4)] {
                    let types: &[(u8, u8)] = if v6 { &[(1, 0), (1, 4), (2, 0), (3, 0), (4, 1)] } else { &[(3, 0), (3, 3), (3, 4), (11, 0), (11, 1), (12, 0), (4, 0), (5, 1)] };
                    for (t, c) in types {
                        let mut body = vec![0u8; 4];
                        body.extend_from_slice(&quoted[..cut.min(quoted.len())]);
                        let fr = if v6 { f.ip_frame(P_ICMP6, &icmp6(&f.cip, &f.sip, *t, *c, &body)) } else { f.ip_frame(P_ICMP, &icmp4(*t, *c, &body)) };
                        v.push(pf(&format!("icmp-err-{}-{}-{}-quote-{}-{}-{}", if v6 { 6 } else { 4 }, t, c, qn, pn, cn), fr));
                    }
                }
            }
        }
    }
    v
}

pub fn l2l4_frames() -> Vec<PFrame> {
    let mut v = Vec::new();
    let c4 = match cli4() { Ip::V4(b) => b, _ => unreachable!() };
    let s4 = match srv4() { Ip::V4(b) => b, _ => unreachable!() };
    for (mn, mac) in [("macA", MAC_CLI), ("macB", MAC_CLI2)] {
        v.push(pf(&format!("arp-{}", mn), eth(&[0xff; 6], &mac, ET_ARP, &Arp::request(mac, c4, s4).bytes())));
        let other = if mac == MAC_CLI { MAC_CLI2 } else { MAC_CLI };
        v.push(pf(&format!("arp-{}-sha-other", mn), eth(&[0xff; 6], &mac, ET_ARP, &Arp::request(other, c4, s4).bytes())));
        for v6 in [false, true] {
            let mut f = flow(v6, 40000, 80);
            f.cmac = mac;
            v.push(pf(&format!("echo-{}-{}", mn, v6), f.icmp_echo(1, 2, b"pp")));
            v.push(pf(&format!("syn-{}-{}", mn, v6), f.tcp(7, 0, F_SYN, b"")));
            v.push(pf(&format!("stun-{}-{}", mn, v6), f.udp(&stun_magic(&[], &ID12))));
        }
        v.push(pf(&format!("ns-{}", mn), eth(&crate::driver::MAC_SRV, &mac, ET_IP6, &nd_ns(&cli6(), &srv6(), &srv6(), &slla(&mac), 0))));
        v.push(pf(&format!("ns-{}-slla-other", mn), eth(&crate::driver::MAC_SRV, &mac, ET_IP6, &nd_ns(&cli6(), &srv6(), &srv6(), &slla(&other), 0))));
    }
    // replies beyond 1500 bytes (another code path for lengths / fragmentation fields) and an echo
    // whose reply is exactly as long as a SYN-ACK
    for v6 in [false, true] {
        let big: Vec<u8> = (0..1480usize).map(|k| k as u8).collect();
        v.push(pf(&format!("echo-1480-{}", v6), flow(v6, 40000, 80).icmp_echo(3, 4, &big)));
        v.push(pf(&format!("echo-12-{}", v6), flow(v6, 40000, 80).icmp_echo(3, 4, &big[..12])));
    }
    // group / broadcast destinations (answered when there is no self-IP list): what they are answered
    // FROM must not depend on earlier traffic
    for (dn, d4, d6) in [("mcast", Ip::V4([224, 0, 0, 1]), Ip::parse("ff02::1")), ("bcast", Ip::V4([255, 255, 255, 255]), Ip::parse("ff02::fb"))] {
        for v6 in [false, true] {
            let mut f = flow(v6, 40000, 80);
            f.sip = if v6 { d6 } else { d4 };
            v.push(pf(&format!("echo-{}-{}", dn, v6), f.icmp_echo(1, 2, b"pp")));
            v.push(pf(&format!("stun-{}-{}", dn, v6), f.udp(&stun_magic(&[], &ID12))));
        }
    }
    // one source endpoint, several destinations
    for (dn, d4, d6) in [("dstA", srv4(), srv6()), ("dstB", srv4b(), srv6b())] {
        for v6 in [false, true] {
            let mut f = flow(v6, 40000, 80);
            f.sip = if v6 { d6 } else { d4 };
            v.push(pf(&format!("syn-{}-{}", dn, v6), f.tcp(7, 0, F_SYN, b"")));
            v.push(pf(&format!("echo-{}-{}", dn, v6), f.icmp_echo(1, 2, b"pp")));
            v.push(pf(&format!("badack-{}-{}", dn, v6), f.tcp(7, 12345, F_PSH | F_ACK, b"GET / HTTP/1.1\r\n\r\n")));
            v.push(pf(&format!("rpc-getport-{}-{}", dn, v6), f.udp(&crate::apprpc::build_call(0x61626364, 2, 100000, 2, 3, &[], &[]))));
        }
    }
    v
}

/// Datagram variants of one application message: whole, every proper prefix at a few cut
/// points, with one byte altered, followed by a different complete message.
pub fn datagram_variants(tag: &str, msgs: &[Vec<u8>]) -> Vec<PFrame> {
    let mut v = Vec::new();
    for (k, m) in msgs.iter().enumerate() {
        for v6 in [false, true] {
            let f = flow(v6, 40000 + k as u16, 3478);
            v.push(pf(&format!("{}{}-whole-{}", tag, k, v6), f.udp(m)));
        }
        let f = flow4(40000, 3478);
        let n = m.len();
        for cut in [1usize, 2, 4, n / 3, n / 2, n.saturating_sub(4), n.saturating_sub(2), n.saturating_sub(1)] {
            if cut > 0 && cut < n {
                v.push(pf(&format!("{}{}-prefix{}", tag, k, cut), f.udp(&m[..cut])));
            }
        }
        for pos in [0usize, n / 2, n - 1] {
            let mut x = m.clone();
            x[pos] ^= 0x55;
            v.push(pf(&format!("{}{}-flip{}", tag, k, pos), f.udp(&x)));
        }
    }
    v
}

pub fn is_syn(frame: &[u8]) -> bool {
    let e = match parse_eth(frame) {
        Some(e) => e,
        None => return false,
    };
    let ip = match e.et {
        ET_IP4 => parse_ipv4(e.payload),
        ET_IP6 => parse_ipv6(e.payload),
        _ => None,
    };
    match ip {
        Some(ip) if ip.proto == P_TCP => parse_tcp(ip.payload).map(|t| t.flags & F_SYN != 0).unwrap_or(false),
        _ => false,
    }
}

/// Depth-3 variant (thorough tiers): all ordered triples (a1, a2, b); b's reply compared with a
/// fresh process.  Hidden state that needs two earlier frames to arm.
pub fn triple_histories(rep: &mut Report, cfg: &Cfg, stage: &str, frames: &[PFrame]) {
    let t0 = std::time::Instant::now();
    let mut alone: Vec<String> = Vec::with_capacity(frames.len());
    for f in frames {
        match Driver::spawn(cfg).and_then(|mut d| d.exec(&[Cmd::Frame(f.frame.clone())]).map_err(|e| format!("{:?}", e))) {
            Ok(o) => alone.push(canon_reply(o[0].reply.as_deref())),
            Err(e) => {
                rep.sink.machinery_errors.push(format!("{}: reference run of '{}': {}", stage, f.name, e));
                return;
            }
        }
    }
    let flows: Vec<Option<(Ip, Ip, u16, u16)>> = frames.iter().map(|f| tcp_data_flow(&f.frame)).collect();
    let n = frames.len() as u64;
    // differential oracle only: the reference model is not asked to follow three-frame mixtures of
    // data segments of one flow whose acceptance it left open
    let opts = RunOpts::new(stage).stateful().chunk(64).no_monitor();
    let cfgc = cfg.clone();
    let st = stage.to_string();
    engine::run(
        cfg,
        n * n * n,
        &opts,
        |i| vec![Cmd::Frame(frames[(i / (n * n)) as usize].frame.clone()), Cmd::Frame(frames[((i / n) % n) as usize].frame.clone()), Cmd::Frame(frames[(i % n) as usize].frame.clone())],
        |it: &Item, sk: &mut Sink| {
            let (a1, a2, b) = ((it.idx / (n * n)) as usize, ((it.idx / n) % n) as usize, (it.idx % n) as usize);
            if flows[b].is_some() && (flows[a1] == flows[b] || flows[a2] == flows[b]) {
                return;
            }
            let o = &it.outs[3];
            if o.panicked {
                return;
            }
            let got = canon_reply(o.reply.as_deref());
            if got != alone[b] {
                sk.violation(Violation {
                    prop: "C08".into(),
                    key: format!("hidden-state:{}+{}=>{}", frames[a1].name, frames[a2].name, frames[b].name),
                    what: format!("frame '{}' is answered differently after frames '{}', '{}' than in a fresh process: {} vs {}", frames[b].name, frames[a1].name, frames[a2].name, &got[..got.len().min(100)], &alone[b][..alone[b].len().min(100)]),
                    cfg: cfgc.clone(),
                    cmds: it.cmds.to_vec(),
                    idx: it.idx,
                    stage: st.clone(),
                });
            }
        },
        &mut rep.sink,
    );
    rep.stage(stage, &format!("all ordered triples of {} frames: the third frame's reply == its reply in a fresh process", frames.len()), n * n * n, t0);
}
