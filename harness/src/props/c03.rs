//! C03 — replies go back to the asker, from the identity that was asked.

use crate::corpus::*;
use crate::driver::{Cmd, MAC_SRV};
use crate::engine::{self, product, unrank, Item, Report, RunOpts, Sink};
use crate::props::sweep_frames;
use crate::props::c02::{elicit, Kind};
use crate::sip::cookie_guess;
use crate::wire::*;

pub fn port_value(sweep: u64, i: u64) -> (u16, u16) {
    // sweep 0..3: all source ports with 4 destination ports; 4..7: all destination ports with 4 source ports
    let fixed = [80u16, 0, 65535, 3478][(sweep % 4) as usize];
    if sweep < 4 {
        (i as u16, fixed)
    } else {
        (fixed, i as u16)
    }
}

pub fn run(rep: &mut Report, thorough: bool) {
    rep.rule = "every reply-eliciting frame kind x source-MAC alphabet x IP address alphabets; all 65536 source ports x 4 destination ports and all 65536 destination ports x 4 source ports for TCP SYN, TCP data behind a valid cookie, UDP STUN, UDP STUN with CHANGE-REQUEST (dport+1 exception incl. 65535 -> 0), UDP HTTP; every reply checked against the mirror map of the statement; ADDED LATER: ND addressing (target x destination form x source x source MAC), TCP data port sweeps alternating HTTP and STUN change-port, depth-2 pair histories (nothing learned from one frame may redirect a later reply), all four list combinations".into();
    rep.assumptions = vec![
        "at most one reply per frame is structural: reply() returns an Option and the driver reports exactly that value".into(),
        "TCP data port sweeps build the acknowledgement from the harness's own SipHash guess of the cookie; the number of segments actually accepted is reported (cookie_guess_accepted)".into(),
    ];
    let macs: Vec<Mac> = vec![MAC_CLI, [0; 6], [0xff; 6], [0x01, 0, 0x5e, 1, 2, 3], [0x33, 0x33, 0, 0, 0, 1], MAC_SRV, [0x03, 0, 0, 0, 0, 1], [0xfe, 0xff, 0xff, 0xff, 0xff, 0xff]];
    let ip4: Vec<Ip> = vec![cli4(), Ip::V4([0, 0, 0, 0]), Ip::V4([255, 255, 255, 255]), Ip::V4([224, 0, 0, 1]), Ip::V4([127, 0, 0, 1]), srv4(), srv4b(), Ip::V4([169, 254, 1, 1])];
    let ip6: Vec<Ip> = vec![cli6(), Ip::parse("::"), Ip::parse("ff02::1"), Ip::parse("::1"), srv6(), srv6b(), Ip::parse("fe80::1"), Ip::parse("::ffff:10.0.0.9")];
    for (tag, cfg) in crate::props::cfg_variants() {
        if rep.secondary && tag != "plain" && tag != "lists" {
            continue;
        }
        // address alphabets
        let kinds4 = [Kind::Arp, Kind::Echo, Kind::Syn, Kind::Stun];
        let kinds6 = [Kind::Ns, Kind::Echo, Kind::Syn, Kind::Stun];
        let dims = [macs.len() as u64, 8, 8, 4, 2];
        sweep_frames(rep, &cfg, &format!("addr-alphabet-{}", tag), "source MAC (8) x client IP (8) x server IP (8) x frame kind (4) x IP version", product(&dims), |i| {
            let d = unrank(i, &dims);
            let v6 = d[4] == 1;
            let (c, s, k) = if v6 {
                (ip6[d[1] as usize], ip6[d[2] as usize], kinds6[d[3] as usize])
            } else {
                (ip4[d[1] as usize], ip4[d[2] as usize], kinds4[d[3] as usize])
            };
            let mut f = elicit(k, &MAC_SRV, &c, &s);
            f[6..12].copy_from_slice(&macs[d[0] as usize]);
            f
        });
        // neighbour discovery: the advertisement is sourced from the solicited target whatever the
        // IP destination of the solicitation was (unicast = target, another handled address, a
        // foreign unicast address, solicited-node multicast, all-nodes)
        let tg: Vec<Ip> = vec![srv6(), srv6b()];
        let nsd: Vec<(Ip, Mac)> = vec![
            (srv6(), MAC_SRV),
            (srv6b(), MAC_SRV),
            (Ip::parse("2001:db8::77"), MAC_SRV),
            (Ip::parse("fe80::1"), MAC_SRV),
            (Ip::parse("ff02::1:ff00:1"), [0x33, 0x33, 0xff, 0, 0, 1]),
            (Ip::parse("ff02::1:ffab:cdef"), [0x33, 0x33, 0xff, 0xab, 0xcd, 0xef]),
            (Ip::parse("ff02::1"), [0x33, 0x33, 0, 0, 0, 1]),
            (Ip::parse("::"), MAC_SRV),
        ];
        let dims = [tg.len() as u64, nsd.len() as u64, ip6.len() as u64, macs.len() as u64];
        sweep_frames(rep, &cfg, &format!("nd-addressing-{}", tag), "ND target (2) x IP destination forms (8) x source address (8) x source MAC (8)", product(&dims), |i| {
            let d = unrank(i, &dims);
            let (dip, dmac) = &nsd[d[1] as usize];
            eth(dmac, &macs[d[3] as usize], ET_IP6, &nd_ns(&ip6[d[2] as usize], dip, &tg[d[0] as usize], &slla(&MAC_CLI), 0))
        });
        {
            use crate::props::c02::{elicit, Kind};
        // tagged frames: an 802.1Q / 802.1ad / legacy QinQ tag in front of a complete eliciting frame
        // (the outer EtherType is not ARP / IPv4 / IPv6: nothing is answered; and a reply, if any,
        // would have to mirror the request's EtherType)
        {
            let kinds4t = [Kind::Arp, Kind::Echo, Kind::Syn, Kind::Stun];
            let kinds6t = [Kind::Ns, Kind::Echo, Kind::Syn, Kind::Stun];
            let tpids: [u16; 4] = [0x8100, 0x88a8, 0x9100, 0x8847];
            let tcis: [u16; 4] = [0x0000, 0x0005, 0x0fff, 0xe001];
            sweep_frames(rep, &cfg, &format!("tagged-frames-{}", tag), "4 tag protocol ids x 4 tag values x 4 eliciting kinds x {v4,v6} x {single tag, double tag}", 4 * 4 * 4 * 2 * 2, |i| {
                let d = unrank(i, &[4, 4, 4, 2, 2]);
                let inner = if d[3] == 1 { elicit(kinds6t[d[2] as usize], &MAC_SRV, &cli6(), &srv6()) } else { elicit(kinds4t[d[2] as usize], &MAC_SRV, &cli4(), &srv4()) };
                let mut fr = inner[..12].to_vec();
                for _ in 0..=d[4] {
                    fr.extend_from_slice(&tpids[d[0] as usize].to_be_bytes());
                    fr.extend_from_slice(&tcis[d[1] as usize].to_be_bytes());
                }
                fr.extend_from_slice(&inner[12..]);
                fr
            });
        }
        }
        // IPv4 options whose BYTES look like a transport header (a SYN / a UDP header / an echo with
        // other ports and identifiers): the reply mirrors the real transport header behind them
        {
            let f = flow4(12345, 80);
            let (c4, s4) = match (f.cip, f.sip) {
                (Ip::V4(a), Ip::V4(b)) => (a, b),
                _ => unreachable!(),
            };
            let decoys: Vec<Vec<u8>> = vec![
                TcpSeg::new(5376, 17428, 9, 0, F_SYN, b"").bytes(&f.cip, &f.sip),
                [&[0x44u8, 0x14, 0x15, 0x00][..], &[0, 0, 0, 1, 0, 0, 0, 2, 0x50, 0x02, 0, 0, 0, 0, 0, 3][..]].concat(),
                [&[0x94u8, 0x04, 0x00, 0x00][..]].concat(),
                [&udp(&f.cip, &f.sip, 7, 9, b"")[..8], &[1, 1, 1, 0][..]].concat(),
                [&icmp4(8, 0, &[0xde, 0xad, 0, 1])[..], &[1, 1, 1, 0][..]].concat(),
                vec![0x07, 0x07, 0x04, 0, 0, 0, 0, 0],
            ];
            let nd = decoys.len() as u64;
            sweep_frames(rep, &cfg, &format!("ip4-option-decoys-{}", tag), "6 IPv4 option areas whose bytes read as a TCP / UDP / ICMP header or as legal timestamp / router-alert / record-route options x {SYN, SYN with ack 0x50020000, UDP STUN, echo}", nd * 4, |i| {
                let d = unrank(i, &[nd, 4]);
                let mut opts = decoys[d[0] as usize].clone();
                while opts.len() % 4 != 0 {
                    opts.push(0);
                }
                opts.truncate(40);
                let ihl = 5 + (opts.len() / 4) as u8;
                let (proto, l4) = match d[1] {
                    0 => (P_TCP, TcpSeg::new(12345, 80, 7, 0, F_SYN, b"").bytes(&f.cip, &f.sip)),
                    1 => (P_TCP, TcpSeg::new(12345, 80, 7, 0x50020000, F_SYN, b"").bytes(&f.cip, &f.sip)),
                    2 => (P_UDP, udp(&f.cip, &f.sip, 12345, 3478, &stun_magic(&[], &ID12))),
                    _ => (P_ICMP, icmp4(8, 0, &[0x12, 0x34, 0, 1, b'o', b'k'])),
                };
                eth(&MAC_SRV, &MAC_CLI, ET_IP4, &ipv4_raw(c4, s4, proto, &l4, ihl, None, &opts, 64, 0x4000, 7))
            });
        }
        // depth-2 histories: nothing learned from one frame (ARP sender, ND option, an earlier
        // frame's MAC) may redirect the reply to a later frame
        crate::props::pairs::pair_histories(rep, &cfg, &format!("pair-histories-{}", tag), &crate::props::pairs::l2l4_frames());
        // port sweeps, UDP payloads and TCP SYN
        let stun = stun_magic(&[], &ID12);
        let stun_cp = stun_classic(&stun_attr(3, &[0, 0, 0, 2]), &ID16);
        let stun_cn = stun_classic(&stun_attr(3, &[0, 0, 0, 5]), &ID16);
        let http = b"GET / HTTP/1.1\r\n\r\n".to_vec();
        // quick tier: four sweeps under the two main configurations, two under the single-list ones
        let main_cfg = tag == "plain" || tag == "lists";
        let nsweeps: u64 = if thorough { 8 } else if main_cfg { 4 } else { 2 };
        let sw = |k: u64| if thorough { k } else if main_cfg { [0, 2, 4, 6][k as usize] } else { [0, 6][k as usize] };
        let dims = [nsweeps, 2, 5, 65536];
        sweep_frames(rep, &cfg, &format!("ports-{}", tag), "port sweeps (all 65536 values of one port x fixed other port) x {v4,v6} x {TCP SYN, UDP STUN, UDP STUN change-port, UDP STUN change-request without port bit, UDP HTTP}", product(&dims), |i| {
            let d = unrank(i, &dims);
            let (sp, dp) = port_value(sw(d[0]), d[3]);
            let f = flow(d[1] == 1, sp, dp);
            match d[2] {
                0 => f.tcp(9, 0, F_SYN, b""),
                1 => f.udp(&stun),
                2 => f.udp(&stun_cp),
                3 => f.udp(&stun_cn),
                _ => f.udp(&http),
            }
        });
        // TCP data behind a valid cookie: [SYN, PSH|ACK(HTTP request)] per port value
        let t0 = std::time::Instant::now();
        let nsw: u64 = if thorough { 8 } else if main_cfg { 2 } else { 1 };
        let dims = [nsw, 2, 65536];
        let key = cfg.key;
        let mut big = stun_attr(0x8022, &[b'x'; 252]);
        big.extend(stun_attr(0x0003, &[0, 0, 0, 2]));
        let stun_big = stun_magic(&big, &ID12);
        let opts = RunOpts::new(&format!("tcp-data-ports-{}", tag)).stateful().chunk(128);
        engine::run(
            &cfg,
            product(&dims),
            &opts,
            |i| {
                let d = unrank(i, &dims);
                let s = if thorough { d[0] } else { [0, 4][d[0] as usize] };
                let (sp, dp) = port_value(s, d[2]);
                let f = flow(d[1] == 1, sp, dp);
                let c = cookie_guess(key, &f.cip, &f.sip, sp, dp);
                // alternate between an HTTP request and a STUN change-port request (the only STUN form
                // that is identified over TCP: magic cookie, length >= 256)
                let pl: &[u8] = if d[2] % 2 == 0 { b"GET / HTTP/1.1\r\n\r\n" } else { &stun_big };
                vec![Cmd::Frame(f.tcp(100, 0, F_SYN, b"")), Cmd::Frame(f.tcp(101, c.wrapping_add(1), F_PSH | F_ACK, pl))]
            },
            |it: &Item, s: &mut Sink| {
                if it.outs.len() == 3 && it.outs[2].reply.is_some() {
                    s.count("cookie_guess_accepted", 1);
                }
            },
            &mut rep.sink,
        );
        rep.stage(&format!("tcp-data-ports-{}", tag), "[SYN, PSH|ACK(GET)] x port sweeps x {v4,v6}", product(&dims), t0);
        // every answered payload of the corpus and every STUN attribute shape (addresses and ports
        // carried INSIDE a request must not steer the reply), over UDP and over [SYN, data]
        if main_cfg {
            let mut shapes: Vec<Vec<u8>> = payloads().into_iter().map(|p| p.bytes).collect();
            shapes.extend(stun_attr_shapes());
            let ns = shapes.len() as u64;
            sweep_frames(rep, &cfg, &format!("payload-shapes-udp-{}", tag), "corpus payloads + STUN requests with one attribute of 99 types x 7 well-formed value shapes x 3 layouts, as datagrams x {v4,v6}", ns * 2, |i| flow(i % 2 == 1, 40000, 3478).udp(&shapes[(i / 2) as usize]));
            let t0 = std::time::Instant::now();
            let opts = RunOpts::new(&format!("payload-shapes-tcp-{}", tag)).stateful().chunk(128);
            engine::run(
                &cfg,
                ns * 2,
                &opts,
                |i| {
                    let f = flow(i % 2 == 1, 40001, 3478);
                    let c = cookie_guess(key, &f.cip, &f.sip, f.cport, f.sport);
                    vec![Cmd::Frame(f.tcp(100, 0, F_SYN, b"")), Cmd::Frame(f.tcp(101, c.wrapping_add(1), F_PSH | F_ACK, &shapes[(i / 2) as usize]))]
                },
                |_it: &Item, _s: &mut Sink| {},
                &mut rep.sink,
            );
            rep.stage(&format!("payload-shapes-tcp-{}", tag), "the same payloads behind [SYN, PSH|ACK] x {v4,v6}", ns * 2, t0);
            // LATER messages of a connection that was identified as STUN: every message type word of
            // a small alphabet (request / indication / success / error class, binding and other
            // methods, stray high bits) x attributes that would move a binding answer x both header
            // forms - answered or not, the segment that leaves mirrors the segment that came
            let types: Vec<u16> = vec![0x0001, 0x0011, 0x0101, 0x0111, 0x0002, 0x0003, 0x0012, 0x0102, 0x0004, 0x0021, 0x0801, 0x2001, 0x4001, 0x8001, 0xc001, 0x0000, 0xffff];
            let attrs: Vec<Vec<u8>> = vec![vec![], stun_attr(3, &[0, 0, 0, 2]), stun_attr(3, &[0, 0, 0, 4]), stun_attr(3, &[0, 0, 0, 6]), [stun_attr(0x8022, b"abcd"), stun_attr(3, &[0, 0, 0, 2])].concat(), [stun_attr(3, &[0, 0, 0, 2]), stun_attr(0x8022, &[b'q'; 252])].concat()];
            let first = stun_magic(&stun_attr(0x8022, &[b'x'; 256]), &ID12);
            let dims = [2u64, 2, attrs.len() as u64, types.len() as u64];
            let t0 = std::time::Instant::now();
            let opts = RunOpts::new(&format!("stun-tcp-later-messages-{}", tag)).stateful().chunk(128);
            engine::run(
                &cfg,
                product(&dims),
                &opts,
                |i| {
                    let d = unrank(i, &dims);
                    let f = flow(d[0] == 1, 40002, 3478);
                    let c = cookie_guess(key, &f.cip, &f.sip, f.cport, f.sport);
                    let mut m = if d[1] == 0 { stun_magic(&attrs[d[2] as usize], &ID12) } else { stun_classic(&attrs[d[2] as usize], &ID16) };
                    m[0..2].copy_from_slice(&types[d[3] as usize].to_be_bytes());
                    vec![
                        Cmd::Frame(f.tcp(100, 0, F_SYN, b"")),
                        Cmd::Frame(f.tcp(101, c.wrapping_add(1), F_PSH | F_ACK, &first)),
                        Cmd::Frame(f.tcp(101 + first.len() as u32, c.wrapping_add(1), F_PSH | F_ACK, &m)),
                    ]
                },
                |_it: &Item, _s: &mut Sink| {},
                &mut rep.sink,
            );
            rep.stage(&format!("stun-tcp-later-messages-{}", tag), "[SYN, PSH|ACK(STUN request that identifies the connection), PSH|ACK(message)] x 17 message type words x 6 attribute lists (CHANGE-REQUEST port / address / both, behind and before other attributes) x {magic, classic} x {v4,v6}", product(&dims), t0);
        }
    }
    // a self-IP list that contains group addresses next to unicast ones: requests to the group are
    // answered from the group address (the identity that was asked), whatever else is on the list
    {
        use crate::props::c02::{elicit, Kind};
        let g4 = Ip::V4([224, 0, 0, 251]);
        let g6 = Ip::parse("ff02::fb");
        let mcfg = crate::driver::Cfg::base().with_self(&[srv4(), g4, srv4b(), srv6(), g6]);
        let t4: Vec<(Ip, Mac)> = vec![(srv4(), MAC_SRV), (g4, [0x01, 0x00, 0x5e, 0, 0, 0xfb]), (g4, MAC_SRV), (g4, [0xff; 6]), (srv4b(), MAC_SRV)];
        let t6: Vec<(Ip, Mac)> = vec![(srv6(), MAC_SRV), (g6, [0x33, 0x33, 0, 0, 0, 0xfb]), (g6, MAC_SRV), (g6, [0xff; 6])];
        let k4 = [Kind::Arp, Kind::Echo, Kind::Syn, Kind::Stun, Kind::StunChange];
        let k6 = [Kind::Ns, Kind::Echo, Kind::Syn, Kind::Stun, Kind::StunChange];
        let n = (t4.len() * k4.len() + t6.len() * k6.len()) as u64;
        sweep_frames(rep, &mcfg, "multicast-self", "self-IP list with IPv4 / IPv6 group addresses next to unicast ones: 5 eliciting kinds x destinations {unicast, group via group MAC / own MAC / broadcast}", n, |i| {
            let i = i as usize;
            if i < t4.len() * k4.len() {
                let (ip, mac) = &t4[i / k4.len()];
                elicit(k4[i % k4.len()], mac, &cli4(), ip)
            } else {
                let j = i - t4.len() * k4.len();
                let (ip, mac) = &t6[j / k6.len()];
                elicit(k6[j % k6.len()], mac, &cli6(), ip)
            }
        });
    }
    rep.states = rep.sink.classes.len() as u64;
}
