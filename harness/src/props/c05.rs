//! C05 — ARP, neighbour discovery and echo are answered correctly, and only those.

use crate::corpus::*;
use crate::driver::{Cfg, MAC_SRV};
use crate::engine::Report;
use crate::props::sweep_frames;
use crate::wire::*;

fn v4(ip: Ip) -> [u8; 4] {
    match ip {
        Ip::V4(b) => b,
        _ => panic!(),
    }
}

pub fn run(rep: &mut Report, thorough: bool) {
    rep.rule = "sweeps (full Cartesian products of listed field domains) of ARP / ICMPv4 / ICMPv6 messages, each judged by the reference model: expected reply field by field or silence; a class is the model's outcome class of a frame; ADDED LATER: ND source-address alphabet incl. '::', link-layer trailers (bytes after the IP datagram) for echo / ND / ARP, depth-2 pair histories, all four list combinations".into();
    rep.assumptions = vec![
        "ARP requests whose hardware/protocol type or address lengths are not Ethernet/IPv4 are abstained on".into(),
        "ND-NS with malformed option TLVs are abstained on".into(),
    ];
    let variants = crate::props::cfg_variants();
    let cfgs: Vec<Cfg> = variants.iter().map(|x| x.1.clone()).collect();
    for (vi, cfg) in cfgs.iter().enumerate() {
        let tag = variants[vi].0;
        if rep.secondary && tag != "plain" && tag != "lists" {
            continue;
        }
        // ARP: all 65536 operations x target handled / not handled
        // (the deny list is about SOURCES: an address on it is an ordinary target / destination)
        let targets = [srv4(), srv4b(), Ip::V4([10, 0, 0, 2]), Ip::V4([255, 255, 255, 255]), deny4()];
        sweep_frames(rep, cfg, &format!("arp-op-{}", tag), "ARP op 0..65535 x 5 targets (incl. an address of the deny list)", 65536 * 5, |i| {
            let op = (i % 65536) as u16;
            let t = targets[(i / 65536) as usize];
            let mut a = Arp::request(MAC_CLI, v4(cli4()), v4(t));
            a.op = op;
            eth(&[0xff; 6], &MAC_CLI, ET_ARP, &a.bytes())
        });
        // ARP: sender/target address alphabets, hw/proto types, lengths
        let ips: Vec<[u8; 4]> = vec![[0, 0, 0, 0], [255, 255, 255, 255], [224, 0, 0, 1], [127, 0, 0, 1], v4(srv4()), v4(cli4()), v4(srv4b()), [10, 0, 0, 2], v4(deny4())];
        let macs: Vec<Mac> = vec![[0; 6], [0xff; 6], MAC_CLI, MAC_SRV, [1, 0, 0x5e, 0, 0, 1], [0x33, 0x33, 0, 0, 0, 1]];
        let types: Vec<(u16, u16, u8, u8)> = vec![(1, 0x0800, 6, 4), (6, 0x0800, 6, 4), (1, 0x86dd, 6, 16), (1, 0x0800, 8, 4), (1, 0x0800, 6, 0), (0, 0, 0, 0)];
        let dims = [ips.len() as u64, ips.len() as u64, macs.len() as u64, macs.len() as u64, types.len() as u64, 3];
        let total = crate::engine::product(&dims);
        sweep_frames(rep, cfg, &format!("arp-fields-{}", tag), "spa x tpa x sha x tha x (htype,ptype,hlen,plen) x trailing{0,18,1}", total, |i| {
            let d = crate::engine::unrank(i, &dims);
            let mut a = Arp::request(macs[d[2] as usize], ips[d[0] as usize], ips[d[1] as usize]);
            a.tha = macs[d[3] as usize];
            let t = types[d[4] as usize];
            a.htype = t.0;
            a.ptype = t.1;
            a.hlen = t.2;
            a.plen = t.3;
            let mut b = a.bytes();
            match d[5] {
                1 => b.extend_from_slice(&[0u8; 18]),
                2 => b.push(0xaa),
                _ => {}
            }
            eth(&MAC_SRV, &MAC_CLI, ET_ARP, &b)
        });
        // ICMPv4: all 256x256 (type, code)
        sweep_frames(rep, cfg, &format!("icmp4-type-code-{}", tag), "type 0..255 x code 0..255", 65536, |i| {
            let f = flow4(1, 1);
            f.ip_frame(P_ICMP, &icmp4((i >> 8) as u8, i as u8, &[0x12, 0x34, 0, 7, b'a', b'b', b'c']))
        });
        sweep_frames(rep, cfg, &format!("icmp6-type-code-{}", tag), "type 0..255 x code 0..255 (24-byte body so that type 135 is a complete NS)", 65536, |i| {
            let f = flow6(1, 1);
            let mut rest = vec![0u8; 4];
            rest.extend_from_slice(&f.sip.bytes());
            f.ip_frame(P_ICMP6, &icmp6(&f.cip, &f.sip, (i >> 8) as u8, i as u8, &rest))
        });
        // echo: identifier and sequence number each over all 65536 values, both versions
        sweep_frames(rep, cfg, &format!("echo-id-{}", tag), "echo identifier 0..65535 x {v4,v6}", 65536 * 2, |i| {
            flow(i >= 65536, 1, 1).icmp_echo(i as u16, 0x55aa, b"data!")
        });
        sweep_frames(rep, cfg, &format!("echo-seq-{}", tag), "echo sequence 0..65535 x {v4,v6}", 65536 * 2, |i| {
            flow(i >= 65536, 1, 1).icmp_echo(0xbeef, i as u16, b"data")
        });
        crate::props::pairs::pair_histories(rep, cfg, &format!("pair-histories-{}", tag), &crate::props::pairs::l2l4_frames());
        // soak: 70 000 eliciting frames of 8 kinds into ONE responder process (beyond every 8- and
        // 16-bit frame counter), each judged by the reference model
        if tag == "plain" || tag == "lists" {
            let t0 = std::time::Instant::now();
            let stage = format!("soak-{}", tag);
            let n = 70_000u32;
            let c4 = v4(cli4());
            let s4 = v4(srv4());
            let cmds: Vec<crate::driver::Cmd> = (0..n)
                .map(|k| {
                    let v6 = k & 8 != 0;
                    let f = flow(v6, (k >> 4) as u16, 80);
                    crate::driver::Cmd::Frame(match k % 8 {
                        0 => eth(&[0xff; 6], &MAC_CLI, ET_ARP, &Arp::request(MAC_CLI, c4, s4).bytes()),
                        1 | 2 => flow(k % 8 == 2, 1, 1).icmp_echo(k as u16, (k >> 16) as u16, b"soak"),
                        3 => eth(&MAC_SRV, &MAC_CLI, ET_IP6, &nd_ns(&cli6(), &srv6(), &srv6(), &slla(&MAC_CLI), 0)),
                        4 | 5 => f.tcp(k, 0, F_SYN, b""),
                        6 => f.udp(&stun_magic(&[], &ID12)),
                        _ => f.tcp(k, 7, F_FIN | F_ACK, b""),
                    })
                })
                .collect();
            let opts = crate::engine::RunOpts::new(&stage).stateful().chunk(1);
            crate::engine::run(cfg, 1, &opts, |_| cmds.clone(), |_it: &crate::engine::Item, _s: &mut crate::engine::Sink| {}, &mut rep.sink);
            rep.stage(&stage, "one responder process fed 70 000 eliciting frames (ARP request, echo v4 / v6 with running identifiers, ND-NS, SYN v4 / v6 with running ports and sequence numbers, STUN datagram, FIN|ACK), monitored", n as u64, t0);
        }
        sweep_frames(rep, cfg, &format!("echo6-sources-{}", tag), "ICMPv6 echo from 12 source address forms x 3 destinations", 12 * 3, |i| {
            let srcs: Vec<Ip> = vec![cli6(), Ip::parse("fe80::1"), Ip::parse("::1"), Ip::parse("::ffff:10.0.0.9"), cli6b(), Ip::parse("::ffff:10.66.6.6"), Ip::parse("::10.66.6.6"), Ip::parse("2002:a42:606::1"), Ip::parse("64:ff9b::10.66.6.6"), Ip::parse("::a42:606"), Ip::parse("2001:db8::bad:1"), Ip::parse("::ffff:0.0.0.0")];
            let mut f = flow6(1, 1);
            f.cip = srcs[(i % 12) as usize];
            f.sip = [srv6(), srv6b(), Ip::parse("2001:db8::2")][(i / 12) as usize];
            f.icmp_echo(9, 9, b"src")
        });
        // IPv4 flags / fragment-offset word: all 65536 values on an echo request (the responder does
        // not reassemble and does not look at these fields; a first fragment carries the whole echo)
        sweep_frames(rep, cfg, &format!("echo4-frag-word-{}", tag), "IPv4 flags + fragment offset word 0..65535 on an echo request", 65536, |i| {
            let mut fr = flow4(1, 1).icmp_echo(0x1234, 7, b"fragment?");
            fr[20] = (i >> 8) as u8;
            fr[21] = i as u8;
            // header checksum recomputed
            fr[24] = 0;
            fr[25] = 0;
            let c = crate::wire::ones_sum(&[&fr[14..34]]);
            let c = !c;
            fr[24] = (c >> 8) as u8;
            fr[25] = c as u8;
            fr
        });
        // link-layer trailers: bytes after the IP datagram (Ethernet padding of short frames, FCS
        // remnants) are not part of the message
        let dims = [4u64, 21, 20, 2];
        sweep_frames(rep, cfg, &format!("link-trailer-{}", tag), "{echo4, echo6, ND-NS, ARP} x data length 0..20 x trailer length 1..18, 46, 100 x trailer byte {00, ff}", crate::engine::product(&dims), |i| {
            let d = crate::engine::unrank(i, &dims);
            let data: Vec<u8> = (0..d[1] as usize).map(|k| b'a' + k as u8).collect();
            let mut fr = match d[0] {
                0 => flow4(1, 1).icmp_echo(0x1234, 1, &data),
                1 => flow6(1, 1).icmp_echo(0x1234, 1, &data),
                2 => eth(&MAC_SRV, &MAC_CLI, ET_IP6, &nd_ns(&cli6(), &srv6(), &srv6(), &slla(&MAC_CLI), 0)),
                _ => eth(&[0xff; 6], &MAC_CLI, ET_ARP, &Arp::request(MAC_CLI, v4(cli4()), v4(srv4())).bytes()),
            };
            let n = match d[2] {
                18 => 46,
                19 => 100,
                k => k as usize + 1,
            };
            fr.extend(std::iter::repeat(if d[3] == 0 { 0u8 } else { 0xff }).take(n));
            fr
        });
        // echo data lengths 0..1472 with position-dependent content
        // echo requests TO an address of the deny list (a destination like any other: handled when
        // there is no self-IP list) and to the other handled address
        sweep_frames(rep, cfg, &format!("echo-dst-denied-{}", tag), "echo request to {an address of the deny list, the second handled address} x {v4,v6} x 16 identifiers", 2 * 2 * 16, |i| {
            let d = crate::engine::unrank(i, &[2, 2, 16]);
            let v6 = d[1] == 1;
            let mut f = flow(v6, 1, 1);
            f.sip = match (d[0], v6) {
                (0, false) => deny4(),
                (0, true) => deny6(),
                (_, false) => srv4b(),
                _ => srv6b(),
            };
            f.icmp_echo(d[2] as u16 * 4099, 1, b"dst")
        });
        let maxlen: u64 = 1473;
        sweep_frames(rep, cfg, &format!("echo-len-{}", tag), "echo data length 0..1472 x {v4,v6}", maxlen * 2, |i| {
            let n = (i % maxlen) as usize;
            let data: Vec<u8> = (0..n).map(|k| (k * 7 + n) as u8).collect();
            flow(i >= maxlen, 1, 1).icmp_echo(1, 2, &data)
        });
        // ND-NS: target x option layout x code x dst
        let tg: Vec<Ip> = vec![srv6(), srv6b(), Ip::parse("2001:db8::2"), Ip::parse("ff02::1"), Ip::parse("::"), deny6()];
        let mut two = slla(&MAC_CLI);
        two.extend_from_slice(&[14, 1, 1, 2, 3, 4, 5, 6]);
        let opts: Vec<Vec<u8>> = vec![vec![], slla(&MAC_CLI), vec![99, 1, 0, 0, 0, 0, 0, 0], two, vec![1, 0, 0, 0, 0, 0, 0, 0], vec![1, 2, 0, 0, 0, 0, 0, 0, 0, 0, 0, 0, 0, 0, 0, 0], vec![1]];
        let dsts: Vec<(Ip, Mac)> = vec![
            (srv6(), MAC_SRV),
            (Ip::parse("ff02::1:ff00:1"), [0x33, 0x33, 0xff, 0, 0, 1]),
            (Ip::parse("ff02::1:ffab:cdef"), [0x33, 0x33, 0xff, 0xab, 0xcd, 0xef]),
            (Ip::parse("ff02::1"), [0x33, 0x33, 0, 0, 0, 1]),
            // unicast destinations other than the target: another handled address, a foreign one
            (srv6b(), MAC_SRV),
            (Ip::parse("2001:db8::2"), MAC_SRV),
            (Ip::parse("fe80::2"), MAC_SRV),
        ];
        // incl. IPv6 addresses that merely EMBED a denied IPv4 address (they are not on the deny list)
        let srcs6: Vec<Ip> = vec![cli6(), Ip::parse("::"), Ip::parse("fe80::1"), Ip::parse("::1"), Ip::parse("ff02::1"), Ip::parse("::ffff:10.0.0.9"), srv6(), cli6b(), Ip::parse("::ffff:10.66.6.6"), Ip::parse("::10.66.6.6"), Ip::parse("2002:a42:606::1"), Ip::parse("64:ff9b::10.66.6.6")];
        let dims = [tg.len() as u64, opts.len() as u64, 3, dsts.len() as u64, srcs6.len() as u64];
        sweep_frames(rep, cfg, &format!("nd-ns-{}", tag), "target x options layout x code{0,1,255} x destination x source address (12, incl. the unspecified address and addresses embedding a denied IPv4 address)", crate::engine::product(&dims), |i| {
            let d = crate::engine::unrank(i, &dims);
            let (dip, dmac) = &dsts[d[3] as usize];
            let code = [0u8, 1, 255][d[2] as usize];
            eth(dmac, &MAC_CLI, ET_IP6, &nd_ns(&srcs6[d[4] as usize], dip, &tg[d[0] as usize], &opts[d[1] as usize], code))
        });
        // well-formed ND options of every size class (1, 2, 3, 31, 32, 33, 63, 64, 65, 127, 128, 129,
        // 255 units of 8 bytes: lengths around every power of two a narrow integer could overflow
        // at), alone and behind a source link-layer address option
        {
            let units: [usize; 14] = [1, 2, 3, 4, 31, 32, 33, 63, 64, 65, 127, 128, 129, 255];
            let types: [u8; 3] = [14, 253, 1];
            let dims = [units.len() as u64, types.len() as u64, 2, 2];
            sweep_frames(rep, cfg, &format!("ns-long-options-{}", tag), "neighbour solicitation with one option of 14 sizes (8 .. 2040 bytes) x 3 option types x {alone, behind a source link-layer option} x fill {00, a5}", crate::engine::product(&dims), |i| {
                let d = crate::engine::unrank(i, &dims);
                let n = units[d[0] as usize];
                let mut o: Vec<u8> = if d[2] == 1 { slla(&MAC_CLI) } else { vec![] };
                o.push(types[d[1] as usize]);
                o.push(n as u8);
                let fill = if d[3] == 1 { 0xa5u8 } else { 0 };
                if types[d[1] as usize] == 1 {
                    o.extend_from_slice(&MAC_CLI);
                    o.extend(std::iter::repeat(fill).take(n * 8 - 8));
                } else {
                    o.extend(std::iter::repeat(fill).take(n * 8 - 2));
                }
                eth(&MAC_SRV, &MAC_CLI, ET_IP6, &nd_ns(&cli6(), &srv6(), &srv6(), &o, 0))
            });
        }
        if thorough {
            // every single byte of the NS target and every code for echo, wider id x seq grid
            sweep_frames(rep, cfg, &format!("echo-id-seq-grid-{}", tag), "id high byte x seq low byte x id low byte (256^3 / 64 grid) v4", 256 * 256 * 4, |i| {
                let a = (i & 0xff) as u16;
                let b = ((i >> 8) & 0xff) as u16;
                let c = (i >> 16) as u16;
                flow4(1, 1).icmp_echo((a << 8) | (c * 0x55), (b << 8) | a, b"zz")
            });
            sweep_frames(rep, cfg, &format!("ns-target-bytes-{}", tag), "NS target: every byte position x 256 values", 16 * 256, |i| {
                let mut t = match srv6() {
                    Ip::V6(b) => b,
                    _ => unreachable!(),
                };
                t[(i / 256) as usize] = i as u8;
                eth(&MAC_SRV, &MAC_CLI, ET_IP6, &nd_ns(&cli6(), &srv6(), &Ip::V6(t), &slla(&MAC_CLI), 0))
            });
            // deep stages
            sweep_frames(rep, cfg, &format!("echo-id-x-seq-{}", tag), "echo identifier 0..65535 x sequence low byte 0..255 x {v4,v6}", 65536 * 256 * 2, |i| {
                let d = crate::engine::unrank(i, &[2, 65536, 256]);
                flow(d[0] == 1, 1, 1).icmp_echo(d[1] as u16, 0x1100 | d[2] as u16, b"q")
            });
            sweep_frames(rep, cfg, &format!("echo-data-patterns-{}", tag), "echo data length 0..1472 x 4 content patterns (00, ff, counter, echo-reply-like) x {v4,v6}", 1473 * 4 * 2, |i| {
                let d = crate::engine::unrank(i, &[2, 4, 1473]);
                let n = d[2] as usize;
                let data: Vec<u8> = match d[1] {
                    0 => vec![0; n],
                    1 => vec![0xff; n],
                    2 => (0..n).map(|k| k as u8).collect(),
                    _ => (0..n).map(|k| [0u8, 0, 0xff, 0xff, 8, 0][k % 6]).collect(),
                };
                flow(d[0] == 1, 1, 1).icmp_echo(0xabcd, 0x0102, &data)
            });
            sweep_frames(rep, cfg, &format!("arp-types-{}", tag), "ARP hardware type 0..65535, protocol type 0..65535, (hlen, plen) 256 x 256", 65536 * 3, |i| {
                let mut a = Arp::request(MAC_CLI, v4(cli4()), v4(srv4()));
                match i / 65536 {
                    0 => a.htype = i as u16,
                    1 => a.ptype = i as u16,
                    _ => {
                        a.hlen = (i >> 8) as u8;
                        a.plen = i as u8;
                    }
                }
                eth(&[0xff; 6], &MAC_CLI, ET_ARP, &a.bytes())
            });
            sweep_frames(rep, cfg, &format!("arp-target-bytes-{}", tag), "ARP target address: all 65536 values of the low half and of the high half", 65536 * 2, |i| {
                let t = v4(srv4());
                let w = (i % 65536) as u16;
                let tpa = if i < 65536 { [t[0], t[1], (w >> 8) as u8, w as u8] } else { [(w >> 8) as u8, w as u8, t[2], t[3]] };
                eth(&[0xff; 6], &MAC_CLI, ET_ARP, &Arp::request(MAC_CLI, v4(cli4()), tpa).bytes())
            });
            sweep_frames(rep, cfg, &format!("ns-options-{}", tag), "ND option: type 0..255 x length octet 0..4 x {alone, before, after a source link-layer address option}", 256 * 5 * 3, |i| {
                let d = crate::engine::unrank(i, &[256, 5, 3]);
                let mut o = vec![d[0] as u8, d[1] as u8];
                o.extend(std::iter::repeat(0x77).take((d[1] as usize * 8).saturating_sub(2).max(6)));
                let opts = match d[2] {
                    0 => o,
                    1 => [o, slla(&MAC_CLI)].concat(),
                    _ => [slla(&MAC_CLI), o].concat(),
                };
                eth(&MAC_SRV, &MAC_CLI, ET_IP6, &nd_ns(&cli6(), &srv6(), &srv6(), &opts, 0))
            });
            sweep_frames(rep, cfg, &format!("icmp-type-code-bodies-{}", tag), "ICMPv4 / ICMPv6 type 0..255 x code 0..255 x body length {0, 4, 28}", 65536 * 3 * 2, |i| {
                let d = crate::engine::unrank(i, &[2, 3, 65536]);
                let body = vec![0x11u8; [0usize, 4, 28][d[1] as usize]];
                let (t, c) = ((d[2] >> 8) as u8, d[2] as u8);
                if d[0] == 0 { flow4(1, 1).ip_frame(P_ICMP, &icmp4(t, c, &body)) } else { flow6(1, 1).ip_frame(P_ICMP6, &icmp6(&cli6(), &srv6(), t, c, &body)) }
            });
        }
    }
    rep.states = rep.sink.classes.len() as u64;
}
