//! C10 — protocol identification is decided by leading bytes against the signature set.

use crate::corpus::*;
use crate::wire::{Flow, Ip};
use crate::driver::{Cfg, Cmd, Driver};
use crate::engine::{self, Item, Report, RunOpts, Sink, Violation};
use crate::shadow::{self, EdgeClass, Product, END};

/// which responder produced this application reply (from its shape)
pub fn responder_of(rep: &[u8]) -> &'static str {
    if rep.starts_with(b"HTTP/1.") {
        "http"
    } else if rep.starts_with(b"SSH-") {
        "ssh"
    } else if rep.starts_with(b"Gh0st") {
        "ghost"
    } else if rep.len() >= 20 && rep[0] == 0x01 && rep[1] == 0x01 && u16::from_be_bytes([rep[2], rep[3]]) as usize == rep.len() - 20 {
        "stun"
    } else if rep.len() >= 8 && (rep[4..8] == [0xff, b'S', b'M', b'B'] || rep[4..8] == [0xfe, b'S', b'M', b'B']) {
        "smb"
    } else if rep.len() >= 16 && rep[0] & 0x80 != 0 && (u32::from_be_bytes([rep[0] & 0x7f, rep[1], rep[2], rep[3]]) as usize) == rep.len() - 4 && rep[8..12] == [0, 0, 0, 1] {
        // record-marked reply: the stream (ONC-RPC over TCP) responder
        "rpc-tcp"
    } else if rep.len() >= 12 && rep[4..8] == [0, 0, 0, 1] && rep[8..12] == [0, 0, 0, 0] {
        "rpc-udp"
    } else {
        "other"
    }
}

fn smack_cmds(w: &[u8], last: Option<u16>) -> Vec<Cmd> {
    // replay artefact: the byte string that reaches the event, as one matcher call from the
    // initial state, followed by the offending symbol
    let mut v = vec![Cmd::SmackNext(0, w.to_vec())];
    match last {
        Some(END) => v.push(Cmd::SmackEnd(0)),
        Some(b) => {
            let mut w2 = w.to_vec();
            w2.push(b as u8);
            v.push(Cmd::SmackNext(0, w2));
        }
        None => {}
    }
    v
}

pub fn run(rep: &mut Report, thorough: bool) {
    rep.rule = "explicit-state product of the real compiled matcher (hook H3, one symbol per step, state carried exactly as a control block carries it) with the reference NFA of the 19 published signatures, over all 256 byte values and the end-of-input symbol, to a fixpoint; every transition classified agree / shadow / miss / extra / wrong; segmentation of one shortest witness per product state (whole call vs per byte vs every 2-piece split); observable level: complete valid requests of every signature over UDP, TCP whole, and TCP cut at every offset inside the signature prefix, at 3 port pairs and both IP versions; ADDED LATER: two cuts inside the signature, identification of WHICH responder answered (polyglot payloads), near-miss alterations (thorough: all 255 per signature byte), and a signature cut across two segments with 66000 other connections identified in between".into();
    rep.assumptions = vec![
        "reference signature set hard-coded from the statement and the constants of the pinned commit".into(),
        "implementation protocol ids 1..8 are translated by the table in harness/src/sig.rs".into(),
    ];
    let t0 = std::time::Instant::now();
    let cfg = Cfg::base();
    let p: &Product = match shadow::product() {
        Some(p) => p,
        None => {
            rep.sink.machinery_errors.push("matcher product could not be built (hook H3)".into());
            return;
        }
    };
    rep.states = p.states.len() as u64;
    rep.transitions = p.transitions;
    if p.capped {
        rep.caps_hit.push(format!("product state cap {} hit", shadow::STATE_CAP));
    }
    rep.sink.count("product_states", p.states.len() as u64);
    rep.sink.count("product_transitions", p.transitions);
    rep.sink.count("real_matcher_states", p.real_states.len() as u64);
    rep.sink.count("events_non_agreeing", p.events.len() as u64);
    // extra / wrong events are violations only if observable: the witness, sent as a datagram
    // and over TCP, must not be answered (dispatch to a responder that then stays silent is a
    // benign divergence, reported in the evidence)
    let mut benign: Vec<String> = Vec::new();
    let probe_flow4 = flow4(40001, 111);
    let probe_cookie = learn_cookies(&cfg, &[probe_flow4.clone()]).unwrap_or_default();
    for e in &p.events {
        rep.sink.class(&format!("event:{}", e.key));
        if matches!(e.class, EdgeClass::Extra(_) | EdgeClass::Wrong(..)) {
            let mut any_answer = false;
            let mut wit_cmds: Vec<Cmd> = Vec::new();
            for sym in e.syms.iter().take(4) {
                let mut w = e.witness.clone();
                if *sym != END {
                    w.push(*sym as u8);
                }
                let c = probe_cookie.get(&key_of(&probe_flow4)).copied().unwrap_or(0).wrapping_add(1);
                let cmds = vec![
                    Cmd::Frame(probe_flow4.udp(&w)),
                    Cmd::Reset,
                    Cmd::Frame(probe_flow4.tcp(1, 0, crate::wire::F_SYN, b"")),
                    Cmd::Frame(probe_flow4.tcp(2, c, crate::wire::F_PSH | crate::wire::F_ACK, &w)),
                ];
                if let Ok(mut d) = Driver::spawn(&cfg) {
                    if let Ok(outs) = d.exec(&cmds) {
                        let udp_answered = outs[0].reply.is_some();
                        let tcp_data = outs[3].reply.as_deref().and_then(crate::mask::app_payload).map(|(_, p)| !p.is_empty()).unwrap_or(false);
                        if udp_answered || tcp_data {
                            any_answer = true;
                            wit_cmds = cmds;
                            break;
                        }
                    }
                }
            }
            if !any_answer {
                benign.push(e.key.clone());
                continue;
            }
            rep.sink.violation(Violation {
                prop: "C10".into(),
                key: e.key.clone(),
                what: format!("payload {} completes no published signature but is answered by a signature-dispatched responder ({:?})", crate::wire::hex(&e.witness), e.class),
                cfg: cfg.clone(),
                cmds: wit_cmds,
                idx: e.from as u64,
                stage: "product".into(),
            });
            continue;
        }
        rep.sink.violation(Violation {
            prop: "C10".into(),
            key: e.key.clone(),
            what: format!("matcher/reference divergence {:?} after prefix {} on symbols {:?}", e.class, crate::wire::hex(&e.witness), e.syms.iter().take(8).collect::<Vec<_>>()),
            cfg: cfg.clone(),
            cmds: smack_cmds(&e.witness, e.syms.first().copied()),
            idx: e.from as u64,
            stage: "product".into(),
        });
    }
    rep.sink.count("benign_divergences", benign.len() as u64);
    rep.extra.insert("benign_divergences".into(), serde_json::json!(benign));
    // count agreeing completions per signature (anti-vacuity)
    for si in 0..p.states.len() {
        for sym in 0..=256usize {
            let e = &p.edges[si][sym];
            if e.class == EdgeClass::Agree {
                if let Some(i) = e.ref_match {
                    rep.sink.class(&format!("agree-complete:{}", p.sigs[i].name));
                }
            }
        }
    }
    rep.sink.sample(serde_json::json!({"product_state_witnesses": (0..p.states.len().min(6)).map(|s| crate::wire::hex(&p.witness(s))).collect::<Vec<_>>()}));
    rep.stage("product", "real matcher x reference NFA x (256 bytes + END), fixpoint", p.transitions, t0);

    // stage 2: segmentation independence of the matcher itself
    let t0 = std::time::Instant::now();
    let mut drv = match Driver::spawn(&cfg) {
        Ok(d) => d,
        Err(e) => {
            rep.sink.machinery_errors.push(e);
            return;
        }
    };
    // strings: shortest witness of every product state extended by one representative of each
    // next-symbol class; expected per-byte result is read off the product path
    let mut strings: Vec<(Vec<u8>, (usize, i64))> = Vec::new();
    for si in 0..p.states.len() {
        let w = p.witness(si);
        let mut seen = std::collections::BTreeSet::new();
        for b in 0..256usize {
            let e = &p.edges[si][b];
            if seen.insert((e.real_to, e.real_id)) {
                let mut full = w.clone();
                full.push(b as u8);
                // per-byte walk (stops at the first id, as repl() does)
                let mut s = 0usize;
                let mut res = (0usize, -1i64);
                for x in &full {
                    let ed = &p.edges[s][*x as usize];
                    res = (ed.real_to, ed.real_id);
                    if ed.real_id != -1 {
                        break;
                    }
                    match ed.to {
                        Some(t) => s = t,
                        None => break,
                    }
                }
                strings.push((full, res));
            }
        }
    }
    let mut round1: Vec<Cmd> = Vec::new();
    for (full, _) in &strings {
        for cut in 1..=full.len() {
            round1.push(Cmd::SmackNext(0, full[..cut].to_vec()));
        }
    }
    let o1 = match drv.exec(&round1) {
        Ok(o) => o,
        Err(e) => {
            rep.sink.machinery_errors.push(format!("matcher segmentation stage: {:?}", e));
            return;
        }
    };
    let mut round2: Vec<Cmd> = Vec::new();
    let mut plan: Vec<(usize, usize, Option<usize>)> = Vec::new(); // (string idx, cut, index in round2)
    let mut k = 0;
    for (sidx, (full, _)) in strings.iter().enumerate() {
        for cut in 1..=full.len() {
            let first = o1[k].smack;
            k += 1;
            if cut == full.len() {
                continue;
            }
            match first {
                Some((st, -1, _)) => {
                    plan.push((sidx, cut, Some(round2.len())));
                    round2.push(Cmd::SmackNext(st, full[cut..].to_vec()));
                }
                _ => plan.push((sidx, cut, None)),
            }
        }
    }
    let o2 = match drv.exec(&round2) {
        Ok(o) => o,
        Err(e) => {
            rep.sink.machinery_errors.push(format!("matcher segmentation stage: {:?}", e));
            return;
        }
    };
    let nseg = (round1.len() + round2.len()) as u64;
    // whole-call results
    let mut whole: Vec<Option<(usize, i64)>> = Vec::new();
    let mut first_of: Vec<Vec<Option<(usize, i64, usize)>>> = Vec::new();
    let mut k = 0;
    for (full, _) in &strings {
        let mut v = Vec::new();
        for _cut in 1..=full.len() {
            v.push(o1[k].smack);
            k += 1;
        }
        whole.push(v.last().cloned().flatten().map(|(s, i, _)| (s, i)));
        first_of.push(v);
    }
    let mut report = |sidx: usize, what: String, rep: &mut Report| {
        rep.sink.violation(Violation {
            prop: "C10".into(),
            key: "matcher-segmentation".into(),
            what,
            cfg: cfg.clone(),
            cmds: vec![Cmd::SmackNext(0, strings[sidx].0.clone())],
            idx: sidx as u64,
            stage: "segmentation".into(),
        });
    };
    for (sidx, (full, per)) in strings.iter().enumerate() {
        if whole[sidx] != Some(*per) {
            report(sidx, format!("matcher result for {} differs: one call {:?}, byte by byte {:?}", crate::wire::hex(full), whole[sidx], per), rep);
        }
    }
    for (sidx, cut, r2) in plan {
        let got = match r2 {
            Some(i) => o2[i].smack.map(|(s, i, _)| (s, i)),
            None => first_of[sidx][cut - 1].map(|(s, i, _)| (s, i)),
        };
        // a match inside the first piece is final only if it is the whole-call result too
        if got != whole[sidx] {
            report(sidx, format!("matcher result for {} differs: one call {:?}, split at {} {:?}", crate::wire::hex(&strings[sidx].0), whole[sidx], cut, got), rep);
        }
    }
    rep.sink.count("matcher_segmentation_runs", nseg);
    rep.transitions += nseg;
    rep.stage("segmentation", "one shortest witness per product state x next-symbol classes: whole vs per byte vs every 2-piece split", nseg, t0);
    drop(drv);

    // stage 3: observable level
    let t0 = std::time::Instant::now();
    let pls = payloads();
    let ports: [(u16, u16); 3] = [(40000, 80), (1, 65535), (65535, 1)];
    let mut flows = Vec::new();
    for v6 in [false, true] {
        for (a, b) in ports {
            flows.push(flow(v6, a, b));
        }
    }
    let cookies = learn_cookies(&cfg, &flows).unwrap_or_default();
    // scenarios: (payload idx, flow idx, mode) mode 0 = UDP, 1 = TCP whole, 2+k = TCP cut at k
    let mut scen: Vec<(usize, usize, usize)> = Vec::new();
    let sigs = crate::sig::signatures();
    for (pi, pl) in pls.iter().enumerate() {
        let d = crate::sig::dispatch(&sigs, &pl.bytes, true);
        let siglen = match d {
            crate::sig::Dispatch::Matched(_, _, n) => n,
            _ => 6.min(pl.bytes.len()),
        };
        for fi in 0..flows.len() {
            if pl.via != Via::TcpOnly {
                scen.push((pi, fi, 0));
            }
            if pl.via != Via::UdpOnly {
                scen.push((pi, fi, 1));
                let h = siglen.min(pl.bytes.len() - 1);
                for cut in 1..=h {
                    scen.push((pi, fi, 2 + cut));
                }
                // two cuts inside the signature (one flow per IP version)
                if fi % 3 == 0 {
                    for a in 1..=h {
                        for b in a + 1..=h {
                            scen.push((pi, fi, 1000 + a * 64 + b));
                        }
                    }
                }
            }
        }
    }
    let opts = RunOpts::new("observable").stateful().chunk(16);
    engine::run(
        &cfg,
        scen.len() as u64,
        &opts,
        |i| {
            let (pi, fi, mode) = scen[i as usize];
            let f = &flows[fi];
            let pl = &pls[pi].bytes;
            let c = cookies.get(&key_of(f)).copied().unwrap_or(0).wrapping_add(1);
            match mode {
                0 => vec![Cmd::Frame(f.udp(pl))],
                1 => vec![Cmd::Frame(f.tcp(1, 0, crate::wire::F_SYN, b"")), Cmd::Frame(f.tcp(2, c, crate::wire::F_PSH | crate::wire::F_ACK, pl))],
                m if m >= 1000 => {
                    let (a, b) = ((m - 1000) / 64, (m - 1000) % 64);
                    vec![
                        Cmd::Frame(f.tcp(1, 0, crate::wire::F_SYN, b"")),
                        Cmd::Frame(f.tcp(2, c, crate::wire::F_PSH | crate::wire::F_ACK, &pl[..a])),
                        Cmd::Frame(f.tcp(2 + a as u32, c, crate::wire::F_PSH | crate::wire::F_ACK, &pl[a..b])),
                        Cmd::Frame(f.tcp(2 + b as u32, c, crate::wire::F_PSH | crate::wire::F_ACK, &pl[b..])),
                    ]
                }
                m => {
                    let cut = m - 2;
                    vec![
                        Cmd::Frame(f.tcp(1, 0, crate::wire::F_SYN, b"")),
                        Cmd::Frame(f.tcp(2, c, crate::wire::F_PSH | crate::wire::F_ACK, &pl[..cut])),
                        Cmd::Frame(f.tcp(2 + cut as u32, c, crate::wire::F_PSH | crate::wire::F_ACK, &pl[cut..])),
                    ]
                }
            }
        },
        |it: &Item, sk: &mut Sink| {
            // a complete request whose leading bytes complete signature X is answered by X's
            // responder (identified from the shape of the reply), not by another one
            let (pi, _fi, mode) = scen[it.idx as usize];
            let pl = &pls[pi];
            if let crate::sig::Dispatch::Matched(p, _, _) = crate::sig::dispatch(&sigs, &pl.bytes, mode == 0) {
                let want = match p {
                    crate::sig::Proto::Http => "http",
                    crate::sig::Proto::Ssh => "ssh",
                    crate::sig::Proto::Ghost => "ghost",
                    crate::sig::Proto::Stun => "stun",
                    crate::sig::Proto::RpcTcp => "rpc-tcp",
                    crate::sig::Proto::RpcUdp => "rpc-udp",
                    crate::sig::Proto::Smb1 | crate::sig::Proto::Smb2 => "smb",
                };
                // ... and it IS answered (by the last frame of the scenario at the latest), however the
                // leading bytes were cut
                // (when the last cut falls at or after the end of the signature the responder of a
                // message-per-segment protocol sees a partial message: not C10's matter)
                let siglen_here = match crate::sig::dispatch(&sigs, &pl.bytes, mode == 0) {
                    crate::sig::Dispatch::Matched(_, _, n) => n,
                    _ => 0,
                };
                let last_cut = if mode >= 1000 { (mode - 1000) % 64 } else if mode >= 2 { mode - 2 } else { 0 };
                if pl.answered && last_cut < siglen_here {
                    let any = it.outs.iter().skip(1).any(|o| o.reply.as_deref().and_then(crate::mask::app_payload).map(|(_, a)| !a.is_empty()).unwrap_or(false));
                    if !any {
                        let key = crate::shadow::explain(&pl.bytes, mode == 0).unwrap_or_else(|| format!("unanswered-by:{}", want));
                        sk.violation(Violation {
                            prop: "C10".into(),
                            key,
                            what: format!("payload '{}' is a complete valid request whose leading bytes complete the {} signature, but no frame of the scenario (mode {}) carries an answer", pl.name, want, mode),
                            cfg: cfg.clone(),
                            cmds: it.cmds.to_vec(),
                            idx: it.idx,
                            stage: "observable".into(),
                        });
                    }
                }
                for o in it.outs.iter().skip(1) {
                    if let Some((_, app)) = o.reply.as_deref().and_then(crate::mask::app_payload) {
                        if app.is_empty() {
                            continue;
                        }
                        let got = responder_of(&app);
                        if got != want {
                            sk.violation(Violation {
                                prop: "C10".into(),
                                key: format!("answered-by:{}-instead-of:{}", got, want),
                                what: format!("payload '{}' completes the {} signature but is answered by the {} responder: {}", pl.name, want, got, crate::wire::hex(&app[..app.len().min(48)])),
                                cfg: cfg.clone(),
                                cmds: it.cmds.to_vec(),
                                idx: it.idx,
                                stage: "observable".into(),
                            });
                        }
                    }
                }
            }
        },
        &mut rep.sink,
    );
    rep.stage("observable", "corpus payloads x {UDP, TCP whole, TCP cut at every offset inside the signature, TCP cut twice inside the signature} x 3 port pairs x {v4,v6}", scen.len() as u64, t0);
    // the decision is made by the LEADING bytes of the stream: once they complete no signature,
    // nothing that follows (in the same or in later segments) may be answered by a
    // signature-dispatched responder; judged by the reference model on every segment
    let t0 = std::time::Instant::now();
    let garbage: Vec<Vec<u8>> = vec![
        b"0123456789\r\n".to_vec(),
        vec![0xff; 30],
        b"XYZ /index HTTP/1.1\r\n\r\n".to_vec(),
        b"Z".to_vec(),
        b"123456789".to_vec(),
        vec![0x01; 9],
        b"GEX".to_vec(),
        b"\r\n".to_vec(),
    ];
    let tcp_pls: Vec<&Payload> = pls.iter().filter(|p| p.via != Via::UdpOnly).collect();
    // modes: 0 = garbage and request in one segment, 1 = two segments, 2 = garbage split in two + request,
    // 3 = garbage byte by byte + request
    let gdims = [garbage.len() as u64, tcp_pls.len() as u64, 4, 2];
    let opts = RunOpts::new("leading-garbage").stateful().chunk(16).no_monitor();
    let cookies2 = cookies.clone();
    let cfgc = cfg.clone();
    engine::run(
        &cfg,
        engine::product(&gdims),
        &opts,
        |i| {
            let d = engine::unrank(i, &gdims);
            let g = &garbage[d[0] as usize];
            let pl = &tcp_pls[d[1] as usize].bytes;
            let f = &flows[if d[3] == 0 { 0 } else { 3 }];
            let c = cookies2.get(&key_of(f)).copied().unwrap_or(0).wrapping_add(1);
            let seg = |off: usize, data: &[u8]| Cmd::Frame(f.tcp(1000 + off as u32, c, crate::wire::F_PSH | crate::wire::F_ACK, data));
            match d[2] {
                0 => vec![seg(0, &[g.clone(), pl.clone()].concat())],
                1 => vec![seg(0, g), seg(g.len(), pl)],
                2 => {
                    let h = (g.len() / 2).max(1).min(g.len());
                    let mut v = vec![seg(0, &g[..h])];
                    if h < g.len() {
                        v.push(seg(h, &g[h..]));
                    }
                    v.push(seg(g.len(), pl));
                    v
                }
                _ => {
                    let mut v: Vec<Cmd> = g.iter().enumerate().map(|(k, b)| seg(k, &[*b])).collect();
                    v.push(seg(g.len(), pl));
                    v
                }
            }
        },
        |it: &Item, sk: &mut Sink| {
            let model = crate::model::Model::new();
            engine::judge_item(&cfgc, &model, &cookies2, it, it.cmds.len(), "leading-garbage", sk);
            sk.count("frames", it.cmds.len() as u64 - 1);
        },
        &mut rep.sink,
    );
    rep.stage("leading-garbage", "8 leading byte strings (some killing the matcher, some keeping it alive) x TCP payloads x 4 segmentations x {v4,v6}: judged by the reference stream model", engine::product(&gdims), t0);
    // the decision for a connection whose signature is cut across segments does not depend on how
    // many OTHER connections were identified in between (66 000 of them, one process)
    {
        let t0 = std::time::Instant::now();
        let f = &flows[0];
        let c = cookies.get(&key_of(f)).copied().unwrap_or(0).wrapping_add(1);
        let req: &[u8] = b"GET / HTTP/1.1\r\n\r\n";
        let head = vec![f.tcp(1000, c, crate::wire::F_PSH | crate::wire::F_ACK, &req[..2])];
        let tail = vec![f.tcp(1002, c, crate::wire::F_PSH | crate::wire::F_ACK, &req[2..])];
        match crate::props::c07::capacity_run(&cfg, &head, 66000, &tail, rep) {
            Ok((h, t)) => {
                rep.sink.count("frames", 66002);
                let data = t[0].reply.as_deref().and_then(crate::mask::app_payload).map(|(_, p)| p).unwrap_or_default();
                if h[0].reply.is_some() && responder_of(&data) != "http" {
                    rep.sink.violation(Violation {
                        prop: "C10".into(),
                        key: "decision-depends-on-other-connections".into(),
                        what: format!("stream 'GE' | 'T / HTTP/1.1 CRLF CRLF' is not answered by the HTTP responder when 66000 other connections are identified between the two segments (got {} bytes: {})", data.len(), crate::wire::hex(&data[..data.len().min(24)])),
                        cfg: cfg.clone(),
                        cmds: vec![Cmd::Frame(head[0].clone()), Cmd::Frame(tail[0].clone())],
                        idx: 0,
                        stage: "many-connections".into(),
                    });
                }
            }
            Err(e) => {
                rep.extra.insert("many_connections_stage".into(), serde_json::json!(e));
            }
        }
        rep.stage("many-connections", "signature cut across two segments with 66000 other connections identified in between: same decision", 66002, t0);
    }
    // the decision does not depend on addresses: two connections from one client endpoint to two
    // destination addresses (same ports), each carrying another protocol
    {
        let t0 = std::time::Instant::now();
        let pairs6: Vec<(Ip, Ip)> = vec![(srv6(), srv6b()), (Ip::parse("2001:db8:0:2::a"), Ip::parse("2001:db8:0:2::b")), (Ip::parse("2001:db8::1"), Ip::parse("2001:db8:0:1::1"))];
        let pairs4: Vec<(Ip, Ip)> = vec![(srv4(), srv4b()), (Ip::V4([10, 0, 0, 1]), Ip::V4([10, 0, 1, 1]))];
        let firsts: Vec<&Payload> = pls.iter().filter(|p| ["http-get", "ssh-2", "smb2-negotiate", "rpc-tcp-getport"].contains(&p.name)).collect();
        let mut scen2: Vec<(Flow, Flow, usize, usize)> = Vec::new();
        for (a, b) in pairs6.iter().chain(pairs4.iter()) {
            for x in 0..firsts.len() {
                for y in 0..firsts.len() {
                    if x != y {
                        let mut fa = flow(!a.is_v4(), 40000, 80);
                        fa.sip = *a;
                        let mut fb = fa.clone();
                        fb.sip = *b;
                        scen2.push((fa, fb, x, y));
                    }
                }
            }
        }
        let all: Vec<Flow> = scen2.iter().flat_map(|s| [s.0.clone(), s.1.clone()]).collect();
        let ck = learn_cookies(&cfg, &all).unwrap_or_default();
        let opts = RunOpts::new("sibling-destinations").stateful().chunk(8).no_monitor();
        let cfgs = cfg.clone();
        engine::run(
            &cfg,
            scen2.len() as u64,
            &opts,
            |i| {
                let (fa, fb, x, y) = &scen2[i as usize];
                let ca = ck.get(&key_of(fa)).copied().unwrap_or(0).wrapping_add(1);
                let cb = ck.get(&key_of(fb)).copied().unwrap_or(0).wrapping_add(1);
                vec![Cmd::Frame(fa.tcp(1000, ca, crate::wire::F_PSH | crate::wire::F_ACK, &firsts[*x].bytes)), Cmd::Frame(fb.tcp(1000, cb, crate::wire::F_PSH | crate::wire::F_ACK, &firsts[*y].bytes))]
            },
            |it: &Item, sk: &mut Sink| {
                sk.count("frames", 2);
                let (fa, fb, _x, y) = &scen2[it.idx as usize];
                if ck.get(&key_of(fa)) == ck.get(&key_of(fb)) {
                    // equal cookies: the listed aliasing finding (or a new pair, reported by C08 / C09)
                    sk.class("sibling-destinations:equal-cookies");
                }
                let want = match crate::sig::dispatch(&sigs, &firsts[*y].bytes, false) {
                    crate::sig::Dispatch::Matched(p, _, _) => match p {
                        crate::sig::Proto::Http => "http",
                        crate::sig::Proto::Ssh => "ssh",
                        crate::sig::Proto::Ghost => "ghost",
                        crate::sig::Proto::Stun => "stun",
                        crate::sig::Proto::RpcTcp => "rpc-tcp",
                        crate::sig::Proto::RpcUdp => "rpc-udp",
                        crate::sig::Proto::Smb1 | crate::sig::Proto::Smb2 => "smb",
                    },
                    _ => return,
                };
                let app = it.outs[2].reply.as_deref().and_then(crate::mask::app_payload).map(|(_, p)| p).unwrap_or_default();
                let got = if app.is_empty() { "nobody" } else { responder_of(&app) };
                if got != want {
                    sk.violation(Violation {
                        prop: "C10".into(),
                        key: format!("decision-depends-on-addresses:{}-instead-of:{}", got, want),
                        what: format!("a connection to {} carrying '{}' is answered by {} after a connection from the same client endpoint to {} carried '{}'", fb.sip, firsts[*y].name, got, fa.sip, firsts[scen2[it.idx as usize].2].name),
                        cfg: cfgs.clone(),
                        cmds: it.cmds.to_vec(),
                        idx: it.idx,
                        stage: "sibling-destinations".into(),
                    });
                }
            },
            &mut rep.sink,
        );
        rep.stage("sibling-destinations", "5 pairs of destination addresses (other address, same /64, same /24) x ordered pairs of 4 protocols: two connections from one client endpoint, the second one answered by the responder of ITS leading bytes", scen2.len() as u64, t0);
    }
    // a connection belongs to the responder its FIRST bytes selected: a later message that reads as
    // another protocol's request (sent, as a real client does, with the acknowledgement number
    // advanced past the first answer) is not handed to that other responder
    {
        let t0 = std::time::Instant::now();
        let firsts: Vec<&Payload> = pls.iter().filter(|p| ["http-get", "ssh-2", "smb2-negotiate", "rpc-tcp-getport", "ghost"].contains(&p.name)).collect();
        let mut n = 0u64;
        if let Ok(mut d) = Driver::spawn(&cfg) {
            for v6 in [false, true] {
                let f = flow(v6, 40000, 80);
                let ck = learn_cookies(&cfg, &[f.clone()]).unwrap_or_default();
                let c = ck.get(&key_of(&f)).copied().unwrap_or(0).wrapping_add(1);
                for (xi, x) in firsts.iter().enumerate() {
                    for (yi, y) in firsts.iter().enumerate() {
                        if xi == yi {
                            continue;
                        }
                        let first = Cmd::Frame(f.tcp(1000, c, crate::wire::F_PSH | crate::wire::F_ACK, &x.bytes));
                        let o1 = d.exec(&[Cmd::Reset, first.clone()]).map(|v| v[1].clone()).unwrap_or_default();
                        let l1 = o1.reply.as_deref().and_then(crate::mask::app_payload).map(|(_, p)| p.len() as u32).unwrap_or(0);
                        if l1 == 0 {
                            continue;
                        }
                        for adv in [l1, 1, 0x8000_0000] {
                            let second = Cmd::Frame(f.tcp(1000 + x.bytes.len() as u32, c.wrapping_add(adv), crate::wire::F_PSH | crate::wire::F_ACK, &y.bytes));
                            let cmds = vec![Cmd::Reset, first.clone(), second];
                            let o = d.exec(&cmds).unwrap_or_default();
                            n += 2;
                            let app = o.get(2).and_then(|o| o.reply.as_deref()).and_then(crate::mask::app_payload).map(|(_, p)| p).unwrap_or_default();
                            if app.is_empty() {
                                continue;
                            }
                            let got = responder_of(&app);
                            let first_resp = responder_of(&o1.reply.as_deref().and_then(crate::mask::app_payload).map(|(_, p)| p).unwrap_or_default());
                            if got != first_resp {
                                rep.sink.violation(Violation {
                                    prop: "C10".into(),
                                    key: format!("later-message-redispatched:{}-after:{}", got, first_resp),
                                    what: format!("connection answered by {} for '{}': a later '{}' (acknowledgement number advanced by {}) is answered by {}", first_resp, x.name, y.name, adv, got),
                                    cfg: cfg.clone(),
                                    cmds,
                                    idx: n,
                                    stage: "advanced-ack-conversations".into(),
                                });
                            }
                        }
                    }
                }
            }
        }
        rep.sink.count("frames", n);
        rep.stage("advanced-ack-conversations", "ordered pairs of 5 protocols' requests on one connection x {v4,v6} x acknowledgement number of the second advanced by {length of the first answer, 1, 2^31}: whoever answers the second is the responder that answered the first", n, t0);
    }
    // non-data segments BETWEEN the segments of a request (a bare ACK with the valid / another
    // acknowledgement number, a retransmitted SYN, RST, RST|ACK, FIN|ACK, FIN) do not reset, bind or
    // shift what the connection has seen: the responder is the one the whole stream selects
    {
        let t0 = std::time::Instant::now();
        let firsts: Vec<&Payload> = pls.iter().filter(|p| ["http-get", "ssh-2", "smb2-negotiate", "rpc-tcp-getport", "ghost"].contains(&p.name)).collect();
        let f = flow(false, 40000, 80);
        let ck = learn_cookies(&cfg, &[f.clone()]).unwrap_or_default();
        let c = ck.get(&key_of(&f)).copied().unwrap_or(0).wrapping_add(1);
        use crate::wire::{F_ACK, F_FIN, F_PSH, F_RST, F_SYN};
        let between: Vec<(&str, Vec<u8>)> = vec![
            ("ack-valid", f.tcp(1002, c, F_ACK, b"")),
            ("ack-other", f.tcp(1002, c.wrapping_add(77), F_ACK, b"")),
            ("ack-zero", f.tcp(1002, 0, F_ACK, b"")),
            ("syn", f.tcp(999, 0, F_SYN, b"")),
            ("rst", f.tcp(1002, c, F_RST, b"")),
            ("rst-ack", f.tcp(1002, c, F_RST | F_ACK, b"")),
            ("fin-ack", f.tcp(1002, c, F_FIN | F_ACK, b"")),
            ("fin", f.tcp(1002, c, F_FIN, b"")),
            ("empty-data", f.tcp(1002, c, F_PSH | F_ACK, b"")),
        ];
        // (first, cut, between, junk-prefix?)
        let mut plan: Vec<(usize, usize, usize, bool)> = Vec::new();
        for pi in 0..firsts.len() {
            // (cuts inside every signature: behind it the per-message responders see segments, not streams)
            for cut in [1usize, 2, 3] {
                if cut < firsts[pi].bytes.len() {
                    for b in 0..between.len() {
                        plan.push((pi, cut, b, false));
                    }
                }
            }
            // junk, something in between, then the whole request: the stream starts with junk
            for b in 0..between.len() {
                plan.push((pi, 0, b, true));
            }
        }
        let opts = RunOpts::new("interleaved-non-data").stateful().chunk(64).no_monitor();
        let cfgs = cfg.clone();
        engine::run(
            &cfg,
            plan.len() as u64,
            &opts,
            |i| {
                let (pi, cut, b, junk) = plan[i as usize];
                let p = &firsts[pi].bytes;
                if junk {
                    vec![Cmd::Frame(f.tcp(1000, c, F_PSH | F_ACK, b"XX")), Cmd::Frame(between[b].1.clone()), Cmd::Frame(f.tcp(1002, c, F_PSH | F_ACK, p))]
                } else {
                    vec![Cmd::Frame(f.tcp(1000, c, F_PSH | F_ACK, &p[..cut])), Cmd::Frame(between[b].1.clone()), Cmd::Frame(f.tcp(1000 + cut as u32, c, F_PSH | F_ACK, &p[cut..]))]
                }
            },
            |it: &Item, sk: &mut Sink| {
                sk.count("frames", 3);
                let (pi, cut, b, junk) = plan[it.idx as usize];
                let mut stream: Vec<u8> = Vec::new();
                if junk {
                    stream.extend_from_slice(b"XX");
                }
                stream.extend_from_slice(&firsts[pi].bytes);
                let want = match crate::sig::dispatch(&sigs, &stream, false) {
                    crate::sig::Dispatch::Matched(p, _, _) => match p {
                        crate::sig::Proto::Http => "http",
                        crate::sig::Proto::Ssh => "ssh",
                        crate::sig::Proto::Ghost => "ghost",
                        crate::sig::Proto::Stun => "stun",
                        crate::sig::Proto::RpcTcp => "rpc-tcp",
                        crate::sig::Proto::RpcUdp => "rpc-udp",
                        crate::sig::Proto::Smb1 | crate::sig::Proto::Smb2 => "smb",
                    },
                    _ => "nobody",
                };
                let app = it.outs[3].reply.as_deref().and_then(crate::mask::app_payload).map(|(_, p)| p).unwrap_or_default();
                let got = if app.is_empty() { "nobody" } else { responder_of(&app) };
                if got != want {
                    sk.violation(Violation {
                        prop: "C10".into(),
                        key: format!("decision-depends-on-non-data-segment:{}:{}-instead-of:{}", between[b].0, got, want),
                        what: format!("'{}' {} with a {} segment in between: the last segment is answered by {} (the stream selects {})", firsts[pi].name, if junk { "after two junk bytes".to_string() } else { format!("cut after {} bytes", cut) }, between[b].0, got, want),
                        cfg: cfgs.clone(),
                        cmds: it.cmds.to_vec(),
                        idx: it.idx,
                        stage: "interleaved-non-data".into(),
                    });
                }
            },
            &mut rep.sink,
        );
        rep.stage("interleaved-non-data", "5 protocols' first requests x {cut after 1 / 2 / 3 bytes (inside the signature), whole behind two junk bytes} x 9 segments in between (bare ACK with 3 acknowledgement numbers, SYN, RST, RST|ACK, FIN|ACK, FIN, empty PSH|ACK): the responder the stream selects", plan.len() as u64, t0);
    }
    // the decision does not depend on the VALUE of the flow's cookie: keys under which the flow
    // 40000 -> 80 has the cookie 0xffffffff (valid acknowledgement 0), 0, 0xfffffffe, 1 (found
    // offline with the harness's own SipHash, confirmed against the real SYN-ACK here)
    {
        let t0 = std::time::Instant::now();
        let edge: [([u64; 2], u32); 4] = [([0xdcdce3a2, 0x5eed], 0xffff_ffff), ([0x45a0fb78, 0x5eed], 0), ([0x45a99a18, 0x5eed], 0xffff_fffe), ([0x32b774b09, 0x5eed], 1)];
        let firsts: Vec<&Payload> = pls.iter().filter(|p| ["http-get", "ssh-2", "smb2-negotiate", "rpc-tcp-getport", "ghost"].contains(&p.name)).collect();
        let mut n = 0u64;
        let mut confirmed = 0u64;
        for (key, want_cookie) in edge {
            let ecfg = Cfg::base().with_key(key);
            let f = flow(false, 40000, 80);
            let mut d = match Driver::spawn(&ecfg) {
                Ok(d) => d,
                Err(e) => {
                    rep.sink.machinery_errors.push(e);
                    continue;
                }
            };
            let syn = d.exec(&[Cmd::Reset, Cmd::Frame(f.tcp(5, 0, crate::wire::F_SYN, b""))]).map(|v| v[1].clone()).unwrap_or_default();
            if syn.reply.as_deref().and_then(synack_seq) != Some(want_cookie) {
                continue;
            }
            confirmed += 1;
            for p in &firsts {
                n += 1;
                let cmds = vec![Cmd::Reset, Cmd::Frame(f.tcp(1000, want_cookie.wrapping_add(1), crate::wire::F_PSH | crate::wire::F_ACK, &p.bytes))];
                let o = d.exec(&cmds).map(|v| v[1].clone()).unwrap_or_default();
                let app = o.reply.as_deref().and_then(crate::mask::app_payload).map(|(_, p)| p).unwrap_or_default();
                let got = if app.is_empty() { "nobody" } else { responder_of(&app) };
                let want = match crate::sig::dispatch(&sigs, &p.bytes, false) {
                    crate::sig::Dispatch::Matched(pr, _, _) => match pr {
                        crate::sig::Proto::Http => "http",
                        crate::sig::Proto::Ssh => "ssh",
                        crate::sig::Proto::Ghost => "ghost",
                        crate::sig::Proto::Stun => "stun",
                        crate::sig::Proto::RpcTcp => "rpc-tcp",
                        crate::sig::Proto::RpcUdp => "rpc-udp",
                        crate::sig::Proto::Smb1 | crate::sig::Proto::Smb2 => "smb",
                    },
                    _ => continue,
                };
                if got != want {
                    rep.sink.violation(Violation {
                        prop: "C10".into(),
                        key: format!("decision-depends-on-cookie-value:{}-instead-of:{}", got, want),
                        what: format!("'{}' on a flow whose SYN cookie is {:#010x} is answered by {} (its leading bytes select {})", p.name, want_cookie, got, want),
                        cfg: ecfg.clone(),
                        cmds,
                        idx: n,
                        stage: "edge-cookies".into(),
                    });
                }
            }
        }
        rep.sink.count("edge_cookie_keys_confirmed", confirmed);
        rep.stage("edge-cookies", "4 keys under which the flow 40000 -> 80 has the SYN cookie 0xffffffff / 0 / 0xfffffffe / 1 (confirmed against the real SYN-ACK) x 5 protocols' first requests: answered by the responder of the leading bytes", n, t0);
    }
    // the decision reads the payload bytes and nothing else of the segment: flag bits next to
    // PSH|ACK x urgent pointer x window x TCP options, two and three departures at once
    {
        let t0 = std::time::Instant::now();
        let firsts: Vec<&Payload> = pls.iter().filter(|p| ["http-get", "ssh-2", "smb2-negotiate", "rpc-tcp-getport", "ghost", "stun-classic-empty", "stun-classic-change-port", "dns-a"].contains(&p.name)).collect();
        let f = flow(false, 40000, 80);
        let ck = learn_cookies(&cfg, &[f.clone()]).unwrap_or_default();
        let c = ck.get(&key_of(&f)).copied().unwrap_or(0).wrapping_add(1);
        let extra: [u16; 9] = [0, crate::wire::F_URG, crate::wire::F_URG | 0x40, 0x80, crate::wire::F_URG | 0xc0, 0x100 | crate::wire::F_URG, crate::wire::F_FIN, crate::wire::F_FIN | crate::wire::F_URG, crate::wire::F_FIN | 0x40];
        let opt_sets: [&[u8]; 3] = [&[], &[1, 1, 1, 0], &[2, 4, 5, 0xb4, 1, 3, 3, 7]];
        let mut plan: Vec<(usize, u16, u16, u16, usize)> = Vec::new();
        for (pi, p) in firsts.iter().enumerate() {
            let n = p.bytes.len() as u16;
            let mut urgs: Vec<u16> = (0..=9).collect();
            urgs.extend([n - 1, n, n + 1, 0x8000, 0xffff]);
            for e in extra {
                for u in &urgs {
                    for w in [0u16, 1, 8192] {
                        for o in 0..opt_sets.len() {
                            plan.push((pi, e, *u, w, o));
                        }
                    }
                }
            }
        }
        let opts = RunOpts::new("segment-header-combinations").stateful().chunk(64).no_monitor();
        let cfgs = cfg.clone();
        engine::run(
            &cfg,
            plan.len() as u64,
            &opts,
            |i| {
                let (pi, e, u, w, o) = plan[i as usize];
                let mut seg = crate::wire::TcpSeg::new(f.cport, f.sport, 1000, c, crate::wire::F_PSH | crate::wire::F_ACK | e, &firsts[pi].bytes);
                seg.urg = u;
                seg.window = w;
                seg.options = opt_sets[o].to_vec();
                seg.doff = 5 + (opt_sets[o].len() / 4) as u8;
                vec![Cmd::Frame(f.tcp_seg(&seg))]
            },
            |it: &Item, sk: &mut Sink| {
                sk.count("frames", 1);
                let (pi, e, u, w, _o) = plan[it.idx as usize];
                let want = match crate::sig::dispatch(&sigs, &firsts[pi].bytes, false) {
                    crate::sig::Dispatch::Matched(p, _, _) => match p {
                        crate::sig::Proto::Http => "http",
                        crate::sig::Proto::Ssh => "ssh",
                        crate::sig::Proto::Ghost => "ghost",
                        crate::sig::Proto::Stun => "stun",
                        crate::sig::Proto::RpcTcp => "rpc-tcp",
                        crate::sig::Proto::RpcUdp => "rpc-udp",
                        crate::sig::Proto::Smb1 | crate::sig::Proto::Smb2 => "smb",
                    },
                    // a payload that completes no STREAM signature (a cookie-less STUN request, a
                    // DNS query): no responder, whatever the segment's other fields say
                    _ => "nobody",
                };
                let app = it.outs[1].reply.as_deref().and_then(crate::mask::app_payload).map(|(_, p)| p).unwrap_or_default();
                let got = if app.is_empty() { "nobody" } else { responder_of(&app) };
                if got != want {
                    sk.violation(Violation {
                        prop: "C10".into(),
                        key: format!("decision-depends-on-segment-header:{}-instead-of:{}", got, want),
                        what: format!("'{}' in a segment with extra flags {:#05x}, urgent pointer {}, window {} is answered by {} (its leading bytes select {})", firsts[pi].name, e, u, w, got, want),
                        cfg: cfgs.clone(),
                        cmds: it.cmds.to_vec(),
                        idx: it.idx,
                        stage: "segment-header-combinations".into(),
                    });
                }
            },
            &mut rep.sink,
        );
        rep.stage("segment-header-combinations", "5 protocols' first requests and 3 payloads that complete no stream signature (cookie-less STUN with and without CHANGE-REQUEST, DNS) x 9 flag sets next to PSH|ACK (URG, ECE, CWR, NS, FIN combinations) x 15 urgent pointers (0..9, around the payload length, 0x8000, 0xffff) x 3 windows x 3 TCP option sets: answered by the responder of the leading payload bytes", plan.len() as u64, t0);
    }
    // the decision does not depend on the CLIENT ADDRESS: every value of every byte of a unicast
    // client address (IPv4: 4 x 256, IPv6: 16 x 256; group / loopback / unspecified first bytes and
    // the responder's own address left out), 5 protocols' first requests behind [SYN, data]
    {
        let t0 = std::time::Instant::now();
        let firsts: Vec<&Payload> = pls.iter().filter(|p| ["http-get", "ssh-2", "smb2-negotiate", "rpc-tcp-getport", "ghost"].contains(&p.name)).collect();
        let mut srcs: Vec<Ip> = Vec::new();
        if let (Ip::V4(b), Ip::V6(b6)) = (cli4(), cli6()) {
            for pos in 0..4 {
                for val in 0..=255u8 {
                    let mut a = b;
                    a[pos] = val;
                    if a[0] == 0 || a[0] == 127 || a[0] >= 224 || Ip::V4(a) == srv4() {
                        continue;
                    }
                    srcs.push(Ip::V4(a));
                }
            }
            for pos in 0..16 {
                for val in 0..=255u8 {
                    let mut a = b6;
                    a[pos] = val;
                    if a[0] == 0xff || a[0] == 0 || Ip::V6(a) == srv6() {
                        continue;
                    }
                    srcs.push(Ip::V6(a));
                }
            }
        }
        srcs.retain(|a| !cfg.deny_ips.contains(a));
        let key = cfg.key;
        let dims = [srcs.len() as u64, firsts.len() as u64];
        let opts = RunOpts::new("dispatch-client-addresses").stateful().chunk(64).no_monitor();
        let cfgs = cfg.clone();
        engine::run(
            &cfg,
            engine::product(&dims),
            &opts,
            |i| {
                let d = engine::unrank(i, &dims);
                let a = srcs[d[0] as usize];
                let mut f = flow(!a.is_v4(), 40000, 80);
                f.cip = a;
                let c = crate::sip::cookie_guess(key, &f.cip, &f.sip, f.cport, f.sport);
                vec![Cmd::Frame(f.tcp(100, 0, crate::wire::F_SYN, b"")), Cmd::Frame(f.tcp(101, c.wrapping_add(1), crate::wire::F_PSH | crate::wire::F_ACK, &firsts[d[1] as usize].bytes))]
            },
            |it: &Item, sk: &mut Sink| {
                sk.count("frames", 2);
                let d = engine::unrank(it.idx, &dims);
                let want = match crate::sig::dispatch(&sigs, &firsts[d[1] as usize].bytes, false) {
                    crate::sig::Dispatch::Matched(p, _, _) => match p {
                        crate::sig::Proto::Http => "http",
                        crate::sig::Proto::Ssh => "ssh",
                        crate::sig::Proto::Ghost => "ghost",
                        crate::sig::Proto::Stun => "stun",
                        crate::sig::Proto::RpcTcp => "rpc-tcp",
                        crate::sig::Proto::RpcUdp => "rpc-udp",
                        crate::sig::Proto::Smb1 | crate::sig::Proto::Smb2 => "smb",
                    },
                    _ => "nobody",
                };
                let app = it.outs[2].reply.as_deref().and_then(crate::mask::app_payload).map(|(_, p)| p).unwrap_or_default();
                let got = if app.is_empty() { "nobody" } else { responder_of(&app) };
                if got != want {
                    sk.violation(Violation {
                        prop: "C10".into(),
                        key: format!("decision-depends-on-client-address:{}-instead-of:{}", got, want),
                        what: format!("'{}' from client address {} is answered by {} (its leading bytes select {}, as they do from any other address)", firsts[d[1] as usize].name, srcs[d[0] as usize], got, want),
                        cfg: cfgs.clone(),
                        cmds: it.cmds.to_vec(),
                        idx: it.idx,
                        stage: "dispatch-client-addresses".into(),
                    });
                }
            },
            &mut rep.sink,
        );
        rep.stage("dispatch-client-addresses", "5 protocols' first requests behind [SYN, data] from every value 0..255 of each byte of a unicast client address (IPv4 4 positions, IPv6 16 positions): answered by the responder of the leading payload bytes", engine::product(&dims), t0);
    }
    // near misses at the observable level: datagrams / first segments whose leading bytes complete
    // NO published signature (one literal byte of the signature altered; or, for the end-anchored
    // forms, trailing bytes after a complete match) must not be answered by a signature-dispatched
    // responder (a DNS answer is the only one allowed: the DNS fallback is not signature-dispatched)
    let t0 = std::time::Instant::now();
    let sigs2 = crate::sig::signatures();
    let mut near: Vec<(String, Vec<u8>)> = Vec::new();
    for pl in pls.iter() {
        let n = match crate::sig::dispatch(&sigs2, &pl.bytes, true) {
            crate::sig::Dispatch::Matched(_, _, n) => n,
            _ => continue,
        };
        let xors: Vec<u8> = if thorough { (1..=255u8).collect() } else { vec![0x01, 0x20, 0x80] };
        for i in 0..n.min(pl.bytes.len()) {
            for x in xors.iter().copied() {
                let mut v = pl.bytes.clone();
                v[i] ^= x;
                near.push((format!("{}:byte{}^{:02x}", pl.name, i, x), v));
            }
        }
        for t in [1usize, 2, 4, 8, 100] {
            let mut v = pl.bytes.clone();
            v.extend(std::iter::repeat(0u8).take(t));
            near.push((format!("{}:tail{}", pl.name, t), v.clone()));
            let mut w = pl.bytes.clone();
            w.extend(std::iter::repeat(0xa5u8).take(t));
            near.push((format!("{}:tailA5x{}", pl.name, t), w));
        }
    }
    let responder = |rep: &[u8]| -> &'static str { responder_of(rep) };
    let _unused = |rep: &[u8]| -> &'static str {
        if rep.starts_with(b"HTTP/1.") {
            "http"
        } else if rep.starts_with(b"SSH-") {
            "ssh"
        } else if rep.starts_with(b"Gh0st") {
            "ghost"
        } else if rep.len() >= 20 && rep[0] == 0x01 && rep[1] == 0x01 {
            "stun"
        } else if rep.len() >= 8 && (rep[4..8] == [0xff, b'S', b'M', b'B'] || rep[4..8] == [0xfe, b'S', b'M', b'B']) {
            "smb"
        } else if (rep.len() >= 12 && rep[4..8] == [0, 0, 0, 1] && rep[8..12] == [0, 0, 0, 0]) || (rep.len() >= 16 && rep[0] & 0x80 != 0 && rep[8..12] == [0, 0, 0, 1]) {
            "rpc"
        } else {
            "other"
        }
    };
    let ndims = [near.len() as u64, 2, 2];
    let opts = RunOpts::new("near-miss").stateful().chunk(64).no_monitor();
    let cfgn = cfg.clone();
    engine::run(
        &cfg,
        engine::product(&ndims),
        &opts,
        |i| {
            let d = engine::unrank(i, &ndims);
            let f = &flows[if d[2] == 0 { 0 } else { 3 }];
            let pl = &near[d[0] as usize].1;
            if d[1] == 0 {
                vec![Cmd::Frame(f.udp(pl))]
            } else {
                let c = cookies.get(&key_of(f)).copied().unwrap_or(0).wrapping_add(1);
                vec![Cmd::Frame(f.tcp(1000, c, crate::wire::F_PSH | crate::wire::F_ACK, pl))]
            }
        },
        |it: &Item, sk: &mut Sink| {
            sk.count("frames", 1);
            let d = engine::unrank(it.idx, &ndims);
            let (name, pl) = &near[d[0] as usize];
            let at_end = d[1] == 0;
            let disp = crate::sig::dispatch(&sigs2, pl, at_end);
            let dead = matches!(disp, crate::sig::Dispatch::Dead | crate::sig::Dispatch::Pending);
            if let crate::sig::Dispatch::Matched(p, _, _) = disp {
                // the altered bytes complete (another or the same) signature: only that
                // protocol's responder may answer
                let want = match p {
                    crate::sig::Proto::Http => "http",
                    crate::sig::Proto::Ssh => "ssh",
                    crate::sig::Proto::Ghost => "ghost",
                    crate::sig::Proto::Stun => "stun",
                    crate::sig::Proto::RpcTcp => "rpc-tcp",
                    crate::sig::Proto::RpcUdp => "rpc-udp",
                    crate::sig::Proto::Smb1 | crate::sig::Proto::Smb2 => "smb",
                };
                if let Some((_, app)) = it.outs[1].reply.as_deref().and_then(crate::mask::app_payload) {
                    if !app.is_empty() {
                        let got = responder(&app);
                        if got != want {
                            sk.violation(Violation {
                                prop: "C10".into(),
                                key: format!("answered-by:{}-instead-of:{}", got, want),
                                what: format!("payload '{}' ({}) completes the {} signature but is answered by the {} responder", name, crate::wire::hex(&pl[..pl.len().min(40)]), want, got),
                                cfg: cfgn.clone(),
                                cmds: it.cmds.to_vec(),
                                idx: it.idx,
                                stage: "near-miss".into(),
                            });
                        }
                    }
                }
            }
            if !dead {
                return;
            }
            if let Some((_, app)) = it.outs[1].reply.as_deref().and_then(crate::mask::app_payload) {
                if app.is_empty() {
                    return;
                }
                let r = responder(&app);
                sk.class(&format!("near-miss-answered-by:{}", r));
                if r != "other" {
                    sk.violation(Violation {
                        prop: "C10".into(),
                        key: format!("no-signature-answered-by:{}", r),
                        what: format!("payload '{}' ({}) completes no published signature but is answered by the {} responder: {}", name, crate::wire::hex(&pl[..pl.len().min(40)]), r, crate::wire::hex(&app[..app.len().min(40)])),
                        cfg: cfgn.clone(),
                        cmds: it.cmds.to_vec(),
                        idx: it.idx,
                        stage: "near-miss".into(),
                    });
                }
            }
        },
        &mut rep.sink,
    );
    rep.stage("near-miss", "every corpus request with one signature byte altered (quick: 3 alterations per position; thorough: all 255) or with trailing bytes, over UDP and as a first TCP segment, IPv4 and IPv6: no signature-dispatched responder may answer when the reference says no signature completes", engine::product(&ndims), t0);
    let _ = thorough;
}
