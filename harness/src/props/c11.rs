//! C11 — stream parsing is independent of TCP segmentation (HTTP, ONC-RPC over TCP).

use std::collections::{BTreeMap, HashMap, HashSet};
use std::sync::Mutex;

use crate::apprpc;
use crate::corpus::*;
use crate::driver::{Cfg, Cmd};
use crate::engine::{self, Item, Report, RunOpts, Sink, Violation};
use crate::mask::{app_payload, mask_app};
use crate::model::{FlowKey, Model};
use crate::wire::*;

pub fn streams(thorough: bool) -> Vec<(String, Vec<u8>)> {
    let mut v: Vec<(String, Vec<u8>)> = Vec::new();
    let verbs: Vec<&str> = if thorough { crate::sig::HTTP_VERBS.to_vec() } else { vec!["GET", "POST", "OPTIONS"] };
    for verb in verbs {
        for nh in 0..3 {
            for eol in ["\r\n", "\n"] {
                let mut s = format!("{} /p HTTP/1.1{}", verb, eol);
                if nh >= 1 {
                    s.push_str(&format!("Host: x{}", eol));
                }
                if nh >= 2 {
                    s.push_str(&format!("A:b{}", eol));
                }
                s.push_str(eol);
                v.push((format!("http-{}-{}h-{}", verb, nh, if eol == "\n" { "lf" } else { "crlf" }), s.into_bytes()));
            }
        }
    }
    v.push(("http-unknown-verb".into(), b"GXT /p HTTP/1.1\r\n\r\n".to_vec()));
    v.push(("http-bad-header".into(), b"GET /p HTTP/1.1\r\nHost x\r\n\r\n".to_vec()));
    v.push(("http-unterminated".into(), b"GET /p HTTP/1.1\r\nHost: x\r\n".to_vec()));
    let calls: Vec<(&str, u32, u32, u32)> = vec![
        ("nmap", 100000, 104316, 0),
        ("null", 100000, 2, 0),
        ("getport2", 100000, 2, 3),
        ("getaddr3", 100000, 3, 3),
        ("getaddr4", 100000, 4, 3),
        ("dump2", 100000, 2, 4),
        ("dump3", 100000, 3, 4),
        ("dump4", 100000, 4, 4),
        ("otherprog", 100003, 3, 1),
    ];
    for (name, prog, vers, proc_) in calls {
        for cl in [0usize, 4, 8] {
            for vl in [0usize, 4] {
                if !thorough && (cl == 8 || (vl == 4 && cl != 0)) {
                    continue;
                }
                let cred: Vec<u8> = (0..cl).map(|k| 0x41 + k as u8).collect();
                let verf: Vec<u8> = (0..vl).map(|k| 0x61 + k as u8).collect();
                let body = apprpc::build_call(0x61626364, 2, prog, vers, proc_, &cred, &verf);
                v.push((format!("rpc-{}-c{}-v{}", name, cl, vl), apprpc::with_record_mark(&body)));
            }
        }
    }
    // bytes after the request in the same stream: a body, a pipelined second request, upper-case junk
    for (n, tail) in [("body-lower", &b"hello=world"[..]), ("body-upper", &b"HELLO"[..]), ("pipelined", &b"GET /2 HTTP/1.1\r\n\r\n"[..]), ("crlf", &b"\r\n"[..]), ("nul", &b"\x00\xff"[..])] {
        let mut s = b"POST /p HTTP/1.1\r\nHost: x\r\n\r\n".to_vec();
        s.extend_from_slice(tail);
        v.push((format!("http-then-{}", n), s));
    }
    // a call carried by two and by three record fragments
    {
        let body = apprpc::build_call(0x61626364, 2, 100000, 2, 3, &[], &[]);
        v.push(("rpc-getport2-2frag".into(), apprpc::with_fragments(&body, &[10])));
        v.push(("rpc-getport2-3frag".into(), apprpc::with_fragments(&body, &[4, 30])));
    }
    // streams whose leading bytes complete no signature, followed by a complete valid request: never
    // answered, wherever the stream is cut
    for (n, head) in [("unknown-verb", &b"PROPFIND / HTTP/1.1\r\n\r\n"[..]), ("nine-bytes", &b"123456789"[..]), ("ff", &[0xffu8; 12][..])] {
        let mut s = head.to_vec();
        s.extend_from_slice(b"GET / HTTP/1.1\r\n\r\n");
        v.push((format!("dead-then-http-{}", n), s));
    }
    // AUTH_UNIX-sized credentials and a verifier
    {
        let cred: Vec<u8> = (0..20).map(|k| 0x41 + k as u8).collect();
        let verf: Vec<u8> = (0..8).map(|k| 0x61 + k as u8).collect();
        v.push(("rpc-getport2-c20-v8".into(), apprpc::with_record_mark(&apprpc::build_call(0x61626364, 2, 100000, 2, 3, &cred, &verf))));
    }
    // request lines WITHOUT a version (never answered, however they are cut)
    v.push(("http-versionless-crlf".into(), b"GET /index.html\r\n\r\n".to_vec()));
    v.push(("http-versionless-lf".into(), b"HEAD /\n\n".to_vec()));
    v.push(("http-versionless-header".into(), b"GET /a\r\nHost: x\r\n\r\n".to_vec()));
    v
}

/// all compositions with `ncuts` cuts: list of cut positions (strictly increasing, in 1..len)
fn cuts_of(len: usize, ncuts: usize) -> Vec<Vec<usize>> {
    match ncuts {
        0 => vec![vec![]],
        1 => (1..len).map(|a| vec![a]).collect(),
        2 => {
            let mut v = Vec::new();
            for a in 1..len {
                for b in a + 1..len {
                    v.push(vec![a, b]);
                }
            }
            v
        }
        _ => vec![(1..len).collect()],
    }
}

fn segments(f: &Flow, ack: u32, s: &[u8], cuts: &[usize], empty_at: Option<usize>, base: u32) -> Vec<Vec<u8>> {
    let mut v = Vec::new();
    let mut bounds = vec![0usize];
    bounds.extend_from_slice(cuts);
    bounds.push(s.len());
    for (k, w) in bounds.windows(2).enumerate() {
        if empty_at == Some(k) {
            v.push(f.tcp(base.wrapping_add(w[0] as u32), ack, F_PSH | F_ACK, b""));
        }
        v.push(f.tcp(base.wrapping_add(w[0] as u32), ack, F_PSH | F_ACK, &s[w[0]..w[1]]));
    }
    v
}

fn app_of(reply: Option<&[u8]>) -> Option<Vec<u8>> {
    reply.and_then(app_payload).map(|(_, p)| mask_app(&p))
}

pub fn run(rep: &mut Report, thorough: bool) {
    rep.rule = "request streams (HTTP: verbs x 0..2 headers x CRLF/LF + 3 that must not be answered; RPC/TCP: 9 calls x credential lengths {0,4,8} x verifier lengths {0,4}), each run unsegmented, with EVERY 1-cut, EVERY 2-cut (thorough; quick: every 2-cut of a subset), the finest segmentation, and with a zero-length PSH|ACK inserted at each boundary; each on a fresh validated flow; differential oracle against the unsegmented run (answered or not, which segment carries the reply = the one holding the trigger byte learned from the finest run, reply bytes with Date masked, only bare ACKs before) plus the reference model on every segment; then BFS over the control block with one-byte segments and merge-equivalence (state and replies after one segment xy == after x then y) in every reachable parser control state".into();
    rep.assumptions = vec![
        "parser-state BFS key = control fields of the control block (matcher state, protocol id, pending length, parser state/counters, RPC header words classified by the values the reply logic distinguishes); accumulators abstracted".into(),
        "segments after the completing one are not compared (statement speaks of the first request)".into(),
    ];
    let cfg = Cfg::base();
    let f = flow4(40000, 80);
    let cookies = match learn_cookies(&cfg, &[f.clone()]) {
        Ok(c) if c.len() == 1 => c,
        _ => {
            rep.sink.machinery_errors.push("cannot learn cookie".into());
            return;
        }
    };
    let ack = cookies[&key_of(&f)].wrapping_add(1);
    let ss = streams(thorough);
    // segmentation on a busy responder: 70 000 other connections between the segments of a request
    {
        let convs: Vec<(String, Vec<Vec<u8>>)> = crate::props::apps::busy_convs().into_iter().filter(|c| c.0.contains("segments") || c.0.contains("signature")).collect();
        crate::props::apps::busy_stage(rep, &cfg, "C11", "busy-responder", &convs, 70_000);
    }
    // pass 1: unsegmented and finest runs: reference reply and trigger byte
    let t0 = std::time::Instant::now();
    let refs: Mutex<BTreeMap<u64, (Option<Vec<u8>>, Option<usize>)>> = Mutex::new(BTreeMap::new());
    let opts = RunOpts::new("reference-runs").stateful().chunk(4).no_monitor();
    engine::run(
        &cfg,
        ss.len() as u64,
        &opts,
        |i| {
            let s = &ss[i as usize].1;
            let mut cmds: Vec<Cmd> = vec![Cmd::Frame(f.tcp(1000, ack, F_PSH | F_ACK, s)), Cmd::Reset];
            for fr in segments(&f, ack, s, &(1..s.len()).collect::<Vec<_>>(), None, 1000) {
                cmds.push(Cmd::Frame(fr));
            }
            cmds
        },
        |it: &Item, sk: &mut Sink| {
            let model = Model::new();
            engine::judge_item(&cfg, &model, &cookies, it, it.cmds.len(), "reference-runs", sk);
            sk.count("frames", it.cmds.len() as u64 - 2);
            let whole = app_of(it.outs[1].reply.as_deref()).filter(|p| !p.is_empty());
            let mut trig = None;
            for (k, o) in it.outs.iter().enumerate().skip(3) {
                if app_of(o.reply.as_deref()).map(|p| !p.is_empty()).unwrap_or(false) {
                    trig = Some(k - 3);
                    break;
                }
            }
            refs.lock().unwrap().insert(it.idx, (whole, trig));
        },
        &mut rep.sink,
    );
    let refs = refs.into_inner().unwrap();
    for (i, (whole, trig)) in &refs {
        let name = &ss[*i as usize].0;
        rep.sink.class(&format!("stream:{}:{}", if whole.is_some() { "answered" } else { "silent" }, name.split('-').next().unwrap_or("")));
        if whole.is_some() != trig.is_some() {
            rep.sink.violation(Violation {
                prop: "C11".into(),
                key: "finest-vs-whole".into(),
                what: format!("stream {}: unsegmented run answered={} but byte-by-byte run answered={}", name, whole.is_some(), trig.is_some()),
                cfg: cfg.clone(),
                cmds: segments(&f, ack, &ss[*i as usize].1, &(1..ss[*i as usize].1.len()).collect::<Vec<_>>(), None, 1000).into_iter().map(Cmd::Frame).collect(),
                idx: *i,
                stage: "reference-runs".into(),
            });
        }
    }
    rep.stage("reference-runs", "each stream unsegmented and byte by byte", ss.len() as u64, t0);
    // pass 2: compositions
    let t0 = std::time::Instant::now();
    let mut scen: Vec<(usize, Vec<usize>, Option<usize>, u32, u8)> = Vec::new();
    for (si, (_, s)) in ss.iter().enumerate() {
        for c in cuts_of(s.len(), 1) {
            scen.push((si, c.clone(), None, 1000, 0));
            // zero-length segment inserted at each boundary (before segment k)
            for k in 0..2 {
                scen.push((si, c.clone(), Some(k), 1000, 0));
            }
        }
        let two = thorough || si % 4 == 0;
        if two {
            for c in cuts_of(s.len(), 2) {
                scen.push((si, c.clone(), None, 1000, 0));
                if thorough {
                    for k in 0..3 {
                        scen.push((si, c.clone(), Some(k), 1000, 0));
                    }
                }
            }
        }
    }
    // the same 1-cuts with client sequence numbers that wrap past 2^32 inside the request (at its
    // 6th byte) and right at its first byte
    for (si, (_, s)) in ss.iter().enumerate() {
        if thorough || si % 3 == 0 {
            for c in cuts_of(s.len(), 1) {
                scen.push((si, c.clone(), None, 0xffff_ffff - 5, 0));
                scen.push((si, c, None, 0xffff_ffff, 0));
            }
        }
    }
    // the same 1-cuts in frames as a NIC delivers them: short frames zero-padded to the 60-byte
    // Ethernet minimum (segments of 1..5 bytes over IPv4), and every frame followed by a 7-byte
    // trailer: bytes behind the IP datagram are not part of the stream
    for (si, (_, s)) in ss.iter().enumerate() {
        if thorough || si % 2 == 0 {
            for c in cuts_of(s.len(), 1) {
                scen.push((si, c.clone(), None, 1000, 1));
                scen.push((si, c.clone(), None, 1000, 2));
                // header fields a stream does not consist of: a stale urgent-pointer field (URG
                // clear) equal to the stream length / to 5, and URG set with pointer 3
                scen.push((si, c.clone(), None, 1000, 3));
                scen.push((si, c.clone(), None, 1000, 4));
                scen.push((si, c.clone(), None, 1000, 5));
                // a client that closes right after its last write: FIN on the last data segment
                scen.push((si, c.clone(), None, 1000, 6));
                // a small / zero advertised window on every segment (the window is not stream data
                // and an answer is not paced by it)
                scen.push((si, c.clone(), None, 1000, 7));
                scen.push((si, c.clone(), None, 1000, 8));
                // TCP options on every segment (NOP NOP timestamp: 12 bytes; 40 bytes of NOPs) and
                // IPv4 options in front of every segment: headers are not stream data
                scen.push((si, c.clone(), None, 1000, 9));
                scen.push((si, c.clone(), None, 1000, 10));
                scen.push((si, c, None, 1000, 11));
            }
        }
    }
    let opts = RunOpts::new("compositions").stateful().chunk(16).no_monitor();
    engine::run(
        &cfg,
        scen.len() as u64,
        &opts,
        |i| {
            let (si, cuts, empty_at, base, pad) = &scen[i as usize];
            let mut frames = segments(&f, ack, &ss[*si].1, cuts, *empty_at, *base);
            if *pad == 6 {
                if let Some(last) = frames.last_mut() {
                    last[34 + 13] |= 0x01;
                    refresh_checksums(last);
                }
            }
            frames
                .into_iter()
                .map(|mut fr| {
                    if *pad == 1 && fr.len() < 60 {
                        fr.resize(60, 0);
                    } else if *pad == 2 {
                        fr.extend_from_slice(&[0xff; 7]);
                    } else if *pad == 7 || *pad == 8 {
                        let w: u16 = if *pad == 7 { 16 } else { 0 };
                        fr[34 + 14..34 + 16].copy_from_slice(&w.to_be_bytes());
                        refresh_checksums(&mut fr);
                    } else if *pad == 9 || *pad == 10 {
                        let o: Vec<u8> = if *pad == 9 { vec![1, 1, 8, 10, 0, 0, 0, 7, 0, 0, 0, 0] } else { vec![1; 40] };
                        let tl = u16::from_be_bytes([fr[16], fr[17]]) + o.len() as u16;
                        fr[16..18].copy_from_slice(&tl.to_be_bytes());
                        fr[34 + 12] = (((5 + o.len() / 4) as u8) << 4) | (fr[34 + 12] & 0x0f);
                        let tail = fr.split_off(54);
                        fr.extend_from_slice(&o);
                        fr.extend_from_slice(&tail);
                        refresh_checksums(&mut fr);
                    } else if *pad == 11 {
                        if let Some(g) = with_ipv4_options(&fr, &[1, 1, 1, 1]) {
                            fr = g;
                        }
                    } else if *pad >= 3 && *pad <= 5 {
                        // flow `f` is IPv4 without options: the TCP header starts at byte 34
                        let u: u16 = match *pad {
                            3 => ss[*si].1.len() as u16,
                            4 => 5,
                            _ => 3,
                        };
                        fr[34 + 18..34 + 20].copy_from_slice(&u.to_be_bytes());
                        if *pad == 5 {
                            fr[34 + 13] |= 0x20;
                        }
                        refresh_checksums(&mut fr);
                    }
                    Cmd::Frame(fr)
                })
                .collect()
        },
        |it: &Item, sk: &mut Sink| {
            let (si, cuts, empty_at, _base, _pad) = &scen[it.idx as usize];
            let model = Model::new();
            engine::judge_item(&cfg, &model, &cookies, it, it.cmds.len(), "compositions", sk);
            sk.count("frames", it.cmds.len() as u64 - 1);
            let (whole, trig) = &refs[&(*si as u64)];
            // which command carries the trigger byte?
            let mut bounds = vec![0usize];
            bounds.extend_from_slice(cuts);
            bounds.push(ss[*si].1.len());
            let mut cmd_of_seg: Vec<usize> = Vec::new();
            let mut k = 1; // after Reset
            for seg in 0..bounds.len() - 1 {
                if *empty_at == Some(seg) {
                    k += 1;
                }
                cmd_of_seg.push(k);
                k += 1;
            }
            let trig_cmd = trig.map(|t| {
                let seg = (0..bounds.len() - 1).find(|s| bounds[*s] <= t && t < bounds[*s + 1]).unwrap();
                cmd_of_seg[seg]
            });
            let mut bad: Option<String> = None;
            for (ci, o) in it.outs.iter().enumerate().skip(1) {
                let data = app_of(o.reply.as_deref());
                let has_data = data.as_ref().map(|p| !p.is_empty()).unwrap_or(false);
                match trig_cmd {
                    Some(tc) if ci == tc => {
                        if data != *whole {
                            bad = Some(format!("completing segment (command {}) carries {:?}, unsegmented run carries {:?}", ci, data.as_ref().map(|d| hex(d)), whole.as_ref().map(|d| hex(d))));
                        }
                    }
                    Some(tc) if ci > tc => {}
                    _ => {
                        if has_data {
                            bad = Some(format!("application data before the request is complete (command {})", ci));
                        } else if o.reply.is_none() {
                            bad = Some(format!("segment {} got no ACK at all", ci));
                        }
                    }
                }
                if bad.is_some() {
                    break;
                }
            }
            if let Some(w) = bad {
                sk.violation(Violation {
                    prop: "C11".into(),
                    key: format!("segmentation:{}", ss[*si].0.split('-').next().unwrap_or("")),
                    what: format!("stream {} cut at {:?} (empty segment before #{:?}): {}", ss[*si].0, cuts, empty_at, w),
                    cfg: cfg.clone(),
                    cmds: it.cmds.to_vec(),
                    idx: it.idx,
                    stage: "compositions".into(),
                });
            }
        },
        &mut rep.sink,
    );
    rep.transitions += scen.len() as u64;
    rep.stage("compositions", "streams x (every 1-cut [x zero-length insertion], every 2-cut of the selected streams, every 1-cut again in frames zero-padded to 60 bytes / followed by a 7-byte trailer / with a stale urgent-pointer field (stream length, 5) / with URG and pointer 3 / with FIN on the last segment / with an advertised window of 16 and of 0 / with 12 and 40 bytes of TCP options / behind IPv4 options, every 1-cut again with sequence numbers wrapping past 2^32 inside the request)", scen.len() as u64, t0);
    parser_bfs(rep, &cfg, &f, ack, &cookies, thorough);
}

/// Control-state key of a table dump with a single entry.
pub fn control_key(dump: &str) -> String {
    // fields: cookie smack proto pending pstate
    let mut out = String::new();
    let get = |name: &str| -> Option<&str> {
        let p = dump.find(name)?;
        let rest = &dump[p + name.len()..];
        let end = rest.find(|c: char| c == ' ' || c == ',' || c == ']').unwrap_or(rest.len());
        Some(&rest[..end])
    };
    out.push_str(&format!("smack={} proto={} pend={}", get("smack=").unwrap_or("?"), get("proto=").unwrap_or("?"), get("pending=").map(|h| h.len() / 2).unwrap_or(0)));
    if let Some(p) = dump.find("pstate=http:") {
        let h = &dump[p..];
        let g = |n: &str| -> String {
            let q = h.find(n).map(|q| &h[q + n.len()..]).unwrap_or("");
            q[..q.find(|c: char| c == ',' || c == ']').unwrap_or(q.len())].to_string()
        };
        out.push_str(&format!(" http state={} bis={} smack={} id={}", g("state="), g("bis="), g(",smack="), g("id=")));
    } else if let Some(p) = dump.find("pstate=rpc:") {
        let h = &dump[p..];
        let g = |n: &str| -> String {
            let q = h.find(n).map(|q| &h[q + n.len()..]).unwrap_or("");
            q[..q.find(|c: char| c == ',' || c == ']').unwrap_or(q.len())].to_string()
        };
        let cur: u32 = g("cur=").parse().unwrap_or(0);
        let state = g("state=");
        // a partially read word matters only as a prefix of the values the reply logic tests
        let cls = |name: &str, interesting: &[u32], reading: bool| -> String {
            let v: u32 = g(name).parse().unwrap_or(0);
            if reading {
                let shift = 8 * (4 - cur);
                if cur == 0 {
                    return "start".into();
                }
                if interesting.iter().any(|x| (x >> shift) == v) {
                    format!("p{}:{:x}", cur, v)
                } else {
                    "other".into()
                }
            } else if interesting.contains(&v) {
                format!("{:x}", v)
            } else {
                "other".into()
            }
        };
        let prog = cls("prog=", &[100000], state == "Program");
        let pv = cls("pv=", &[2, 3, 4], state == "ProgramVersion");
        let pr = cls("proc=", &[0, 3, 4], state == "Procedure");
        let dl_reading = state == "CredsLen" || state == "VerifLen";
        let dl = if dl_reading { cls("dl=", &[0, 4, 8], true) } else { g("dl=").parse::<u32>().map(|x| x.min(9).to_string()).unwrap_or_default() };
        out.push_str(&format!(" rpc state={} cur={} prog={} pv={} proc={} dl={}", state, cur, prog, pv, pr, dl));
    } else {
        out.push_str(" none");
    }
    out
}

fn parser_bfs(rep: &mut Report, cfg: &Cfg, f: &Flow, ack: u32, cookies: &HashMap<FlowKey, u32>, thorough: bool) {
    let t0 = std::time::Instant::now();
    let alphabet: Vec<u8> = if thorough {
        (0..=255u8).collect()
    } else {
        let mut a: Vec<u8> = b"GETPOSHADLCNIR /1.:\r\nxh".to_vec();
        a.extend_from_slice(&[0x00, 0x01, 0x02, 0x03, 0x04, 0x08, 0x80, 0x86, 0xa0, 0xee, 0xff]);
        a.sort();
        a.dedup();
        a
    };
    let merge_alpha: Vec<u8> = {
        let mut a: Vec<u8> = b"GET /H1.:\r\nx".to_vec();
        a.extend_from_slice(&[0x00, 0x01, 0x86, 0xa0, 0x04, 0xff]);
        a.sort();
        a.dedup();
        a
    };
    let max_depth = if thorough { 64 } else { 52 };
    let max_states = if thorough { 6000 } else { 2500 };
    let na = alphabet.len() as u64;
    let mut seen: HashSet<String> = HashSet::new();
    seen.insert("<empty>".into());
    let mut frontier: Vec<Vec<u8>> = vec![vec![]];
    let mut all_states: Vec<Vec<u8>> = vec![vec![]];
    let mut transitions = 0u64;
    let mut depth = 0;
    let seg = |off: usize, data: &[u8]| Cmd::Frame(f.tcp(1000 + off as u32, ack, F_PSH | F_ACK, data));
    while depth < max_depth && !frontier.is_empty() && all_states.len() < max_states {
        let total = frontier.len() as u64 * na;
        let results: Mutex<BTreeMap<u64, String>> = Mutex::new(BTreeMap::new());
        let opts = RunOpts::new("parser-bfs").stateful().chunk(32).no_monitor();
        let fr = &frontier;
        engine::run(
            cfg,
            total,
            &opts,
            |i| {
                let h = &fr[(i / na) as usize];
                let b = alphabet[(i % na) as usize];
                let mut cmds: Vec<Cmd> = h.iter().enumerate().map(|(k, x)| seg(k, &[*x])).collect();
                cmds.push(seg(h.len(), &[b]));
                cmds.push(Cmd::Dump);
                cmds
            },
            |it: &Item, sk: &mut Sink| {
                let model = Model::new();
                engine::judge_item(cfg, &model, cookies, it, it.cmds.len() - 1, "parser-bfs", sk);
                sk.count("frames", it.cmds.len() as u64 - 2);
                for (k, o) in it.outs.iter().enumerate() {
                    if o.panicked {
                        sk.violation(Violation {
                            prop: "C01".into(),
                            key: format!("panic:{}", engine::panic_site(&o.text)),
                            what: format!("reply() panicked on a one-byte segment history: {}", o.text),
                            cfg: cfg.clone(),
                            cmds: it.cmds[..=k].to_vec(),
                            idx: it.idx,
                            stage: "parser-bfs".into(),
                        });
                    }
                }
                let dump = &it.outs[it.outs.len() - 1].text;
                results.lock().unwrap().insert(it.idx, control_key(dump));
            },
            &mut rep.sink,
        );
        transitions += total;
        let mut next = Vec::new();
        for (idx, key) in results.into_inner().unwrap() {
            if seen.insert(key) {
                let mut h = frontier[(idx / na) as usize].clone();
                h.push(alphabet[(idx % na) as usize]);
                all_states.push(h.clone());
                next.push(h);
            }
        }
        frontier = next;
        depth += 1;
    }
    let fix = frontier.is_empty();
    if !fix {
        rep.caps_hit.push(format!("parser-bfs: stopped at depth {} / {} states with {} unexpanded", depth, all_states.len(), frontier.len()));
    }
    rep.states += all_states.len() as u64;
    rep.transitions += transitions;
    rep.stages.push(serde_json::json!({"stage": "parser-bfs", "space": format!("one-byte segments over an alphabet of {} bytes, key = control fields of the control block", alphabet.len()), "states": all_states.len(), "transitions": transitions, "depth": depth, "fixpoint": fix, "wall_s": t0.elapsed().as_secs_f64()}));
    eprintln!("[C11] parser-bfs: {} states, {} transitions, depth {}, fixpoint {} in {:.1}s", all_states.len(), transitions, depth, fix, t0.elapsed().as_secs_f64());
    // merge-equivalence in every reached control state
    let t0 = std::time::Instant::now();
    let mut words: Vec<Vec<u8>> = Vec::new();
    for a in &merge_alpha {
        for b in &merge_alpha {
            words.push(vec![*a, *b]);
            if thorough {
                for c in &merge_alpha {
                    words.push(vec![*a, *b, *c]);
                }
            }
        }
    }
    let nw = words.len() as u64;
    let total = all_states.len() as u64 * nw;
    let opts = RunOpts::new("merge-equivalence").stateful().chunk(32).no_monitor();
    let st = &all_states;
    engine::run(
        cfg,
        total,
        &opts,
        |i| {
            let h = &st[(i / nw) as usize];
            let w = &words[(i % nw) as usize];
            let mut cmds: Vec<Cmd> = h.iter().enumerate().map(|(k, x)| seg(k, &[*x])).collect();
            for (k, x) in w.iter().enumerate() {
                cmds.push(seg(h.len() + k, &[*x]));
            }
            cmds.push(Cmd::Dump);
            cmds.push(Cmd::Reset);
            cmds.extend(h.iter().enumerate().map(|(k, x)| seg(k, &[*x])));
            cmds.push(seg(h.len(), w));
            cmds.push(Cmd::Dump);
            cmds
        },
        |it: &Item, sk: &mut Sink| {
            let h = &st[(it.idx / nw) as usize];
            let w = &words[(it.idx % nw) as usize];
            sk.count("frames", it.cmds.len() as u64 - 4);
            let a_dump = 1 + h.len() + w.len();
            let split_data: Vec<u8> = (1 + h.len()..a_dump).filter_map(|k| app_of(it.outs[k].reply.as_deref())).flatten().collect();
            let b_dump = it.outs.len() - 1;
            let merged_data: Vec<u8> = app_of(it.outs[b_dump - 1].reply.as_deref()).unwrap_or_default();
            // after the first answered request later segments are answered again (unspecified):
            // compare only when at most one of the split segments carried data
            let nrep = (1 + h.len()..a_dump).filter(|k| app_of(it.outs[*k].reply.as_deref()).map(|p| !p.is_empty()).unwrap_or(false)).count();
            let hist_answered = (1..1 + h.len()).any(|k| app_of(it.outs[k].reply.as_deref()).map(|p| !p.is_empty()).unwrap_or(false));
            if hist_answered {
                return;
            }
            let d1 = &it.outs[a_dump].text;
            let d2 = &it.outs[b_dump].text;
            let mut bad = None;
            if nrep <= 1 && split_data != merged_data {
                bad = Some(format!("replies differ: split {} / merged {}", hex(&split_data), hex(&merged_data)));
            } else if nrep == 0 && d1 != d2 {
                bad = Some(format!("control block differs: split [{}] / merged [{}]", d1, d2));
            }
            if let Some(wt) = bad {
                sk.violation(Violation {
                    prop: "C11".into(),
                    key: "merge-equivalence".into(),
                    what: format!("after one-byte history {} the segment {} behaves differently from its bytes sent separately: {}", hex(h), hex(w), wt),
                    cfg: cfg.clone(),
                    cmds: it.cmds.to_vec(),
                    idx: it.idx,
                    stage: "merge-equivalence".into(),
                });
            }
        },
        &mut rep.sink,
    );
    rep.transitions += total;
    rep.stage("merge-equivalence", "every reached control state x every word of length 2 (thorough: 2 and 3) over the merge alphabet: one segment vs one segment per byte", total, t0);
}
