//! C20 — the event log is a faithful, balanced account of every frame (real ConsoleLogger /
//! LogfmtLogger attached through the driver; one record per frame delimits its events).

use std::collections::HashMap;

use crate::corpus::*;
use crate::deviate;
use crate::driver::{Cfg, Cmd, Level, LoggerKind, Out};
use crate::engine::{self, Item, Report, RunOpts, Sink, Violation};
use crate::model::authorised_macs;
use crate::wire::*;

#[derive(Clone, Debug, PartialEq)]
pub struct Event {
    pub proto: String,
    pub verb: String,
    /// field name -> value (console fields are named by position)
    pub fields: HashMap<String, String>,
}

const CLIENT_KEYS: [&str; 7] = ["mac_src", "mac_dst", "ip_src", "ip_dst", "transport", "port_src", "port_dst"];

fn arity(proto: &str) -> Option<usize> {
    Some(match proto {
        "arp" => 3 + 5,
        "eth" | "ipv4" | "ipv6" | "udp" => 3 + 7 + 1,
        "icmpv4" | "icmpv6" => 3 + 7 + 2,
        "tcp" => 3 + 7 + 3,
        _ => return None,
    })
}

pub fn parse_console(line: &str) -> Result<Event, String> {
    let f: Vec<&str> = line.split('\t').collect();
    if f.len() < 3 {
        return Err(format!("too few fields: {:?}", line));
    }
    let ts_ok = f[0].split('.').count() == 2 && f[0].chars().all(|c| c.is_ascii_digit() || c == '.');
    if !ts_ok {
        return Err(format!("bad timestamp {:?}", f[0]));
    }
    let proto = f[1].to_string();
    let verb = f[2].to_string();
    let want = arity(&proto).ok_or_else(|| format!("unknown protocol {:?}", proto))?;
    // a line cut short has fewer fields; additional trailing columns are not a defect
    if f.len() < want {
        return Err(format!("{} {} line has {} fields, expected at least {}: {:?}", proto, verb, f.len(), want, line));
    }
    let mut fields = HashMap::new();
    if proto == "arp" {
        // recv/drop: sender_hw target_hw sender_proto target_proto op ; send: target_hw sender_hw target_proto sender_proto op
        for (k, n) in ["a", "b", "c", "d", "op"].iter().enumerate() {
            fields.insert(n.to_string(), f[3 + k].to_string());
        }
    } else {
        for (k, n) in CLIENT_KEYS.iter().enumerate() {
            fields.insert(n.to_string(), f[3 + k].to_string());
        }
    }
    Ok(Event { proto, verb, fields })
}

pub fn parse_logfmt(line: &str) -> Result<Event, String> {
    let mut fields = HashMap::new();
    let mut order = Vec::new();
    for tok in line.split(' ').filter(|t| !t.is_empty()) {
        let (k, v) = tok.split_once('=').ok_or_else(|| format!("token without '=': {:?} in {:?}", tok, line))?;
        if k.is_empty() || !k.chars().all(|c| c.is_ascii_lowercase() || c.is_ascii_digit() || c == '_') {
            return Err(format!("bad key {:?} in {:?}", k, line));
        }
        if fields.insert(k.to_string(), v.to_string()).is_some() {
            return Err(format!("duplicate key {:?} in {:?}", k, line));
        }
        order.push(k.to_string());
    }
    // (any key is accepted: only the key=value syntax and the leading ts/proto/verb are required)
    if order.len() < 3 || order[0] != "ts" || order[1] != "proto" || order[2] != "verb" {
        return Err(format!("line does not start with ts= proto= verb=: {:?}", line));
    }
    let proto = fields["proto"].clone();
    let verb = fields["verb"].clone();
    if arity(&proto).is_none() {
        return Err(format!("unknown protocol {:?}", proto));
    }
    if proto == "arp" {
        // normalise to the console naming: recv/drop print sender first, send prints target first
        let (a, b, c, d) = if verb == "send" { ("mac_dst", "mac_src", "ip_dst", "ip_src") } else { ("mac_src", "mac_dst", "ip_src", "ip_dst") };
        for (n, k) in [("a", a), ("b", b), ("c", c), ("d", d)] {
            let v = fields.get(k).cloned().ok_or_else(|| format!("arp line without {}: {:?}", k, line))?;
            fields.insert(n.to_string(), v);
        }
    }
    Ok(Event { proto, verb, fields })
}

/// Which layers must the frame reach (reference path)?
pub fn expected_layers(cfg: &Cfg, frame: &[u8]) -> Option<Vec<&'static str>> {
    let e = parse_eth(frame)?;
    let mut v = vec!["eth"];
    if !authorised_macs(cfg).contains(&e.dst) {
        return Some(v);
    }
    let in_self = |ip: &Ip| cfg.self_ips.is_empty() || cfg.self_ips.contains(ip);
    match e.et {
        ET_ARP => {
            if e.payload.len() >= 28 {
                v.push("arp");
            }
        }
        ET_IP4 => {
            if let Some(ip) = parse_ipv4(e.payload) {
                v.push("ipv4");
                if in_self(&ip.dst) && !cfg.deny_ips.contains(&ip.src) {
                    match ip.proto {
                        P_ICMP if ip.payload.len() >= 4 => v.push("icmpv4"),
                        P_TCP if ip.payload.len() >= 20 => v.push("tcp"),
                        P_UDP if ip.payload.len() >= 8 => v.push("udp"),
                        _ => {}
                    }
                }
            }
        }
        ET_IP6 => {
            if let Some(ip) = parse_ipv6(e.payload) {
                v.push("ipv6");
                if (in_self(&ip.dst) || ip.proto == P_ICMP6) && !cfg.deny_ips.contains(&ip.src) {
                    match ip.proto {
                        P_ICMP6 if ip.payload.len() >= 4 => v.push("icmpv6"),
                        P_TCP if ip.payload.len() >= 20 => v.push("tcp"),
                        P_UDP if ip.payload.len() >= 8 => v.push("udp"),
                        _ => {}
                    }
                }
            }
        }
        _ => {}
    }
    Some(v)
}

/// Check the events of one frame.  Returns (key, description) of the first problem.
pub fn check_frame(cfg: &Cfg, frame: &[u8], out: &Out) -> Option<(String, String)> {
    if out.panicked {
        return None; // C01's business
    }
    if !out.partial.is_empty() {
        return Some(("partial-line".into(), format!("bytes between the last event and the end of the frame: {:?}", out.partial)));
    }
    let mut evs: Vec<Event> = Vec::new();
    for l in &out.log {
        let r = match cfg.logger {
            LoggerKind::Console => parse_console(l),
            LoggerKind::Logfmt => parse_logfmt(l),
            LoggerKind::None => return Some(("unexpected-output".into(), format!("output without a logger: {:?}", l))),
        };
        match r {
            Ok(e) => evs.push(e),
            Err(w) => return Some(("malformed-line".into(), w)),
        }
    }
    if cfg.logger == LoggerKind::None {
        return None;
    }
    let layers = match expected_layers(cfg, frame) {
        Some(l) => l,
        None => {
            // shorter than an Ethernet header: nothing can be logged about it
            return if evs.is_empty() { None } else { Some(("events-for-runt".into(), format!("{} events for a frame shorter than an Ethernet header", evs.len()))) };
        }
    };
    // expected shape: recv(l0) recv(l1) .. recv(lk) term(lk) .. term(l1) term(l0)
    let n = layers.len();
    let shape: Vec<String> = evs.iter().map(|e| format!("{} {}", e.proto, e.verb)).collect();
    if evs.len() != 2 * n {
        return Some((format!("balance:{}", layers.last().unwrap()), format!("expected one recv and one terminal event for each of {:?}, got {:?}", layers, shape)));
    }
    for (k, l) in layers.iter().enumerate() {
        let r = &evs[k];
        let t = &evs[2 * n - 1 - k];
        if r.proto != *l || r.verb != "recv" || t.proto != *l || (t.verb != "send" && t.verb != "drop") {
            return Some((format!("nesting:{}", l), format!("events not nested from Ethernet inwards for {:?}: {:?}", layers, shape)));
        }
    }
    let answered = out.reply.is_some();
    for k in 0..n {
        let t = &evs[2 * n - 1 - k];
        let want = if answered { "send" } else { "drop" };
        if t.verb != want {
            return Some((format!("terminal:{}", layers[k]), format!("{} terminal event is '{}' but a reply frame was {}emitted: {:?}", layers[k], t.verb, if answered { "" } else { "not " }, shape)));
        }
    }
    // addresses and ports
    let e = parse_eth(frame).unwrap();
    let ip = match e.et {
        ET_IP4 => parse_ipv4(e.payload),
        ET_IP6 => parse_ipv6(e.payload),
        _ => None,
    };
    let ports: Option<(u16, u16)> = ip.as_ref().and_then(|ip| match ip.proto {
        P_TCP => parse_tcp(ip.payload).map(|t| (t.sport, t.dport)),
        P_UDP => parse_udp(ip.payload).map(|u| (u.sport, u.dport)),
        _ => None,
    });
    for ev in &evs {
        if ev.proto == "arp" {
            if let Some(a) = Arp::parse(e.payload) {
                let want: [String; 4] = if ev.verb == "send" {
                    [mac_str(&a.sha), mac_str(&cfg.mac), Ip::V4(a.spa).to_string(), Ip::V4(a.tpa).to_string()]
                } else {
                    [mac_str(&a.sha), mac_str(&a.tha), Ip::V4(a.spa).to_string(), Ip::V4(a.tpa).to_string()]
                };
                for (k, n) in ["a", "b", "c", "d"].iter().enumerate() {
                    if ev.fields.get(*n) != Some(&want[k]) {
                        return Some(("arp-fields".into(), format!("arp {} prints {:?} for field {}, frame has {}", ev.verb, ev.fields.get(*n), k, want[k])));
                    }
                }
            }
            continue;
        }
        let chk = |name: &str, want: String| -> Option<(String, String)> {
            match ev.fields.get(name) {
                Some(v) if !v.is_empty() && *v != want => Some((format!("field:{}", name), format!("{} {} prints {}={} but the frame has {}", ev.proto, ev.verb, name, v, want))),
                _ => None,
            }
        };
        if let Some(x) = chk("mac_src", mac_str(&e.src)) {
            return Some(x);
        }
        if let Some(x) = chk("mac_dst", mac_str(&e.dst)) {
            return Some(x);
        }
        if let Some(ip) = &ip {
            if let Some(x) = chk("ip_src", ip.src.to_string()) {
                return Some(x);
            }
            if let Some(x) = chk("ip_dst", ip.dst.to_string()) {
                return Some(x);
            }
            // layers from L3 inwards must print the addresses
            if ev.proto != "eth" && (ev.fields.get("ip_src").map(|s| s.is_empty()).unwrap_or(true) || ev.fields.get("ip_dst").map(|s| s.is_empty()).unwrap_or(true)) {
                return Some(("field:ip-missing".into(), format!("{} {} prints no IP addresses", ev.proto, ev.verb)));
            }
        }
        if let Some((sp, dp)) = ports {
            if let Some(x) = chk("port_src", sp.to_string()) {
                return Some(x);
            }
            let pd = ev.fields.get("port_dst").cloned().unwrap_or_default();
            let ok = pd.is_empty() || pd == dp.to_string() || (ev.verb == "send" && pd == dp.wrapping_add(1).to_string());
            if !ok {
                return Some(("field:port_dst".into(), format!("{} {} prints port_dst={} but the frame has {}", ev.proto, ev.verb, pd, dp)));
            }
            if (ev.proto == "tcp" || ev.proto == "udp") && (ev.fields.get("port_src").map(|s| s.is_empty()).unwrap_or(true) || pd.is_empty()) {
                return Some(("field:port-missing".into(), format!("{} {} prints no ports", ev.proto, ev.verb)));
            }
        } else {
            // a frame that carries no TCP / UDP header has no ports to print (whatever a payload of
            // it - an ICMP error's quoted datagram - may contain)
            for name in ["port_src", "port_dst"] {
                if let Some(v) = ev.fields.get(name) {
                    if !v.is_empty() {
                        return Some(("field:port-of-portless-frame".into(), format!("{} {} prints {}={} but the frame carries no TCP / UDP header", ev.proto, ev.verb, name, v)));
                    }
                }
            }
        }
    }
    None
}

pub fn frames_for(cookies: &HashMap<crate::model::FlowKey, u32>, thorough: bool) -> Vec<(String, Vec<Vec<u8>>, Vec<u8>)> {
    // (name, prelude, frame)
    let mut v: Vec<(String, Vec<Vec<u8>>, Vec<u8>)> = Vec::new();
    let base = base_frames(cookies);
    for b in &base {
        v.push((b.name.clone(), b.prelude.clone(), b.frame.clone()));
        // T: every truncation (stride 1 inside the first 120 bytes, then 7)
        let n = b.frame.len();
        let mut k = 0;
        while k < n {
            v.push((format!("{}:trunc{}", b.name, k), b.prelude.clone(), b.frame[..k].to_vec()));
            k += if k < 120 || thorough { 1 } else { 7 };
        }
        // L: header length fields, protocol selectors
        for f in deviate::header_fields(&b.frame) {
            for val in deviate::field_values(&f) {
                let mut fr = b.frame.clone();
                deviate::set_field(&mut fr, &f, val);
                v.push((format!("{}:{}={}", b.name, f.name, val), b.prelude.clone(), fr));
            }
        }
        if thorough {
            for f in deviate::app_fields(&b.name, &b.frame) {
                for val in deviate::field_values(&f) {
                    let mut fr = b.frame.clone();
                    deviate::set_field(&mut fr, &f, val);
                    v.push((format!("{}:{}={}", b.name, f.name, val), b.prelude.clone(), fr));
                }
            }
        }
    }
    // selectors: ICMP type/code, IP protocol, foreign MAC, denied source, foreign destination
    for t in 0..=255u8 {
        for c in [0u8, 1] {
            v.push((format!("icmp4-{}-{}", t, c), vec![], flow4(1, 1).ip_frame(P_ICMP, &icmp4(t, c, &[0; 8]))));
            let mut rest = vec![0u8; 4];
            rest.extend_from_slice(&srv6().bytes());
            v.push((format!("icmp6-{}-{}", t, c), vec![], flow6(1, 1).ip_frame(P_ICMP6, &icmp6(&cli6(), &srv6(), t, c, &rest))));
        }
        v.push((format!("ip4-proto-{}", t), vec![], flow4(1, 1).ip_frame(t, &[0; 24])));
        v.push((format!("ip6-nh-{}", t), vec![], flow6(1, 1).ip_frame(t, &[0; 24])));
    }
    for op in [0u16, 1, 2, 3, 0xffff] {
        for tgt in [srv4(), Ip::V4([10, 9, 9, 9])] {
            let t4 = match tgt { Ip::V4(b) => b, _ => unreachable!() };
            let mut a = Arp::request(MAC_CLI, [10, 0, 0, 9], t4);
            a.op = op;
            v.push((format!("arp-op{}-{}", op, tgt), vec![], eth(&[0xff; 6], &MAC_CLI, ET_ARP, &a.bytes())));
        }
    }
    for (n, dmac) in [("foreign-mac", [2u8, 9, 9, 9, 9, 9]), ("bcast", [0xff; 6])] {
        for v6 in [false, true] {
            let mut f = flow(v6, 40000, 80);
            f.smac = dmac;
            v.push((format!("{}-{}", n, v6), vec![], f.udp(&stun_magic(&[], &ID12))));
            v.push((format!("{}-syn-{}", n, v6), vec![], f.tcp(1, 0, F_SYN, b"")));
        }
    }
    for v6 in [false, true] {
        let mut f = flow(v6, 40000, 80);
        f.cip = if v6 { deny6() } else { deny4() };
        v.push((format!("denied-{}", v6), vec![], f.tcp(1, 0, F_SYN, b"")));
        v.push((format!("denied-echo-{}", v6), vec![], f.icmp_echo(1, 1, b"x")));
        let mut g = flow(v6, 40000, 80);
        g.sip = if v6 { Ip::parse("2001:db8::77") } else { Ip::V4([10, 0, 0, 77]) };
        v.push((format!("foreign-dst-{}", v6), vec![], g.tcp(1, 0, F_SYN, b"")));
        v.push((format!("foreign-dst-echo-{}", v6), vec![], g.icmp_echo(1, 1, b"x")));
        v.push((format!("foreign-dst-udp-{}", v6), vec![], g.udp(b"GET / HTTP/1.1\r\n\r\n")));
        // both filters at once: denied source AND foreign destination
        let mut h = g.clone();
        h.cip = if v6 { deny6() } else { deny4() };
        v.push((format!("denied-and-foreign-syn-{}", v6), vec![], h.tcp(1, 0, F_SYN, b"")));
        v.push((format!("denied-and-foreign-echo-{}", v6), vec![], h.icmp_echo(1, 1, b"x")));
        v.push((format!("denied-and-foreign-udp-{}", v6), vec![], h.udp(&stun_magic(&[], &ID12))));
    }
    // source MAC alphabet (own MAC, broadcast, multicast, zero) on frames that are answered
    for (n, smac) in [("src-own-mac", crate::driver::MAC_SRV), ("src-bcast", [0xff; 6]), ("src-mcast", [0x01, 0, 0x5e, 0, 0, 1]), ("src-zero", [0; 6])] {
        for v6 in [false, true] {
            let mut f = flow(v6, 40000, 80);
            f.cmac = smac;
            v.push((format!("{}-echo-{}", n, v6), vec![], f.icmp_echo(1, 1, b"x")));
            v.push((format!("{}-syn-{}", n, v6), vec![], f.tcp(1, 0, F_SYN, b"")));
            v.push((format!("{}-stun-{}", n, v6), vec![], f.udp(&stun_magic(&[], &ID12))));
        }
        v.push((format!("{}-arp", n), vec![], eth(&[0xff; 6], &smac, ET_ARP, &Arp::request(smac, [10, 0, 0, 9], [10, 0, 0, 1]).bytes())));
        v.push((format!("{}-ns", n), vec![], eth(&crate::driver::MAC_SRV, &smac, ET_IP6, &nd_ns(&cli6(), &srv6(), &srv6(), &slla(&smac), 0))));
    }
    // STUN CHANGE-REQUEST flag combinations (the logged destination port is the frame's, or the
    // reply's own source port on send events)
    for fl in [0u8, 2, 4, 6, 0xff] {
        for v6 in [false, true] {
            v.push((format!("stun-change-{}-{}", fl, v6), vec![], flow(v6, 40000, 3478).udp(&stun_classic(&stun_attr(3, &[0, 0, 0, fl]), &ID16))));
        }
        v.push((format!("stun-change-{}-port65535", fl), vec![], flow4(40000, 65535).udp(&stun_classic(&stun_attr(3, &[0, 0, 0, fl]), &ID16))));
    }
    // printed forms of every length: IPv6 addresses that do not compress, 5-digit ports
    {
        let mut f = flow6(54321, 65432);
        f.cip = Ip::parse("2001:db8:1234:5678:9abc:def0:1357:2468");
        f.sip = Ip::parse("2001:db8:ffff:eeee:dddd:cccc:bbbb:aaaa");
        v.push(("long-v6-syn".into(), vec![], f.tcp(4294967295, 4294967295, F_SYN, b"")));
        v.push(("long-v6-data".into(), vec![], f.tcp(4294967295, 4294967295, F_PSH | F_ACK, b"GET / HTTP/1.1\r\n\r\n")));
        v.push(("long-v6-finack".into(), vec![], f.tcp(4294967295, 4294967295, F_FIN | F_ACK, b"")));
        v.push(("long-v6-stun".into(), vec![], f.udp(&stun_magic(&[], &ID12))));
        v.push(("long-v6-udp-garbage".into(), vec![], f.udp(b"zzzz")));
        v.push(("long-v6-echo".into(), vec![], f.icmp_echo(65535, 65535, b"x")));
        let mut g = flow4(54321, 65432);
        g.cip = Ip::V4([255, 255, 255, 254]);
        g.sip = Ip::V4([192, 168, 100, 200]);
        v.push(("long-v4-syn".into(), vec![], g.tcp(4294967295, 4294967295, F_SYN, b"")));
        v.push(("long-v4-stun".into(), vec![], g.udp(&stun_magic(&[], &ID12))));
    }
    // "land" frames: source endpoint == destination endpoint (address and port), and equal ports
    // with different addresses
    for v6 in [false, true] {
        let mut f = flow(v6, 3478, 3478);
        v.push((format!("equal-ports-stun-{}", v6), vec![], f.udp(&stun_magic(&[], &ID12))));
        f.cip = f.sip;
        v.push((format!("land-stun-{}", v6), vec![], f.udp(&stun_magic(&[], &ID12))));
        v.push((format!("land-udp-garbage-{}", v6), vec![], f.udp(b"zz")));
        v.push((format!("land-syn-{}", v6), vec![], f.tcp(1, 0, F_SYN, b"")));
        v.push((format!("land-echo-{}", v6), vec![], f.icmp_echo(1, 1, b"x")));
    }
    // the L2-L4 pair set (ARP whose sender hardware address differs from the Ethernet source, ND
    // whose link-layer option names another MAC, sibling destinations, replies beyond 1500 bytes)
    for pfr in crate::props::pairs::l2l4_frames() {
        v.push((format!("l2l4:{}", pfr.name), vec![], pfr.frame));
    }
    // ICMP errors of every kind quoting a datagram of the responder, the client or a third host
    // (nothing of the quote may show in the events of the frame)
    for pfr in crate::props::pairs::icmp_error_frames() {
        v.push((pfr.name, vec![], pfr.frame));
    }
    // address forms: the printed addresses are the frame's own, whatever their form (IPv4-mapped /
    // IPv4-compatible IPv6, embedded denied IPv4 address, link-local, loopback, unspecified,
    // multicast and broadcast sources)
    {
        let s6: Vec<Ip> = ["::ffff:10.0.0.9", "::ffff:10.66.6.6", "::10.0.0.9", "fe80::9", "::1", "::", "ff02::9", "2001:db8::a00:9", "64:ff9b::a00:9", "2002:a00:9::1"].iter().map(|a| Ip::parse(a)).collect();
        let s4: Vec<Ip> = vec![Ip::V4([0, 0, 0, 0]), Ip::V4([127, 0, 0, 1]), Ip::V4([255, 255, 255, 255]), Ip::V4([224, 0, 0, 9]), Ip::V4([169, 254, 0, 9]), Ip::V4([10, 0, 0, 1])];
        for (v6, srcs) in [(true, &s6), (false, &s4)] {
            for (k, sa) in srcs.iter().enumerate() {
                let mut f = flow(v6, 40000, 80);
                f.cip = *sa;
                v.push((format!("src-form-{}-{}-syn", v6, k), vec![], f.tcp(1, 0, F_SYN, b"")));
                v.push((format!("src-form-{}-{}-echo", v6, k), vec![], f.icmp_echo(1, 1, b"x")));
                v.push((format!("src-form-{}-{}-stun", v6, k), vec![], f.udp(&stun_magic(&[], &ID12))));
                let mut g = flow(v6, 40000, 80);
                g.sip = *sa;
                v.push((format!("dst-form-{}-{}-syn", v6, k), vec![], g.tcp(1, 0, F_SYN, b"")));
                v.push((format!("dst-form-{}-{}-echo", v6, k), vec![], g.icmp_echo(1, 1, b"x")));
            }
        }
    }
    // replies of every size class: echo requests whose reply reaches and exceeds a 1500-byte MTU
    for n in [1400usize, 1471, 1472, 1473, 1480, 1500, 2000, 4000, 9000] {
        for v6 in [false, true] {
            let data: Vec<u8> = (0..n).map(|k| k as u8).collect();
            v.push((format!("echo-{}-bytes-{}", n, v6), vec![], flow(v6, 1, 1).icmp_echo(7, 9, &data)));
        }
    }
    // ND-NS sent to the solicited-node group / all-nodes (destination != target)
    for (n, dip, dmac) in [("ns-solicited-node", Ip::parse("ff02::1:ff00:1"), [0x33u8, 0x33, 0xff, 0, 0, 1]), ("ns-all-nodes", Ip::parse("ff02::1"), [0x33, 0x33, 0, 0, 0, 1])] {
        v.push((n.to_string(), vec![], eth(&dmac, &MAC_CLI, ET_IP6, &nd_ns(&cli6(), &dip, &srv6(), &slla(&MAC_CLI), 0))));
        v.push((format!("{}-echo", n), vec![], eth(&dmac, &MAC_CLI, ET_IP6, &{
            let mut f = flow6(1, 1);
            f.sip = dip;
            let fr = f.icmp_echo(1, 1, b"x");
            fr[14..].to_vec()
        })));
    }
    // ND-NS: foreign target, non-zero code
    for (n, tgt, code) in [("ns-foreign", Ip::parse("2001:db8::77"), 0u8), ("ns-code1", srv6(), 1), ("ns-ok", srv6(), 0)] {
        v.push((n.to_string(), vec![], eth(&crate::driver::MAC_SRV, &MAC_CLI, ET_IP6, &nd_ns(&cli6(), &srv6(), &tgt, &slla(&MAC_CLI), code))));
    }
    v
}

pub fn run(rep: &mut Report, thorough: bool) {
    rep.rule = "the base corpus with every truncation, every length-field / protocol-selector value of the L2-L4 headers (thorough: also of the application payloads), all ICMP / ICMPv6 types with code 0 and 1, all 256 IP protocols / next headers, ARP operations, foreign MAC, denied source, foreign destination, ND foreign target and non-zero code; under both log formats, with and without address lists; the real logger's lines for each frame are parsed (console: fixed tab arity per protocol; logfmt: key=value tokens with known keys) and compared with the reference event trace: for each layer reached exactly one recv then exactly one terminal event, nested from Ethernet inwards, terminal = send iff a reply frame came back, printed addresses and ports = the frame's; ADDED LATER: source-MAC alphabet, replies beyond 1500 bytes, maximal printed forms (uncompressible IPv6 addresses, 5-digit ports), and every sequence of length <= 2 (thorough 3) over the TCP alphabet of one flow plus noise with the events of every frame checked".into();
    rep.assumptions = vec![
        "events are delimited per frame by the driver's record lines (hook H1)".into(),
        "a layer is 'reached' when the layer below accepted the frame and the layer's minimal header is present".into(),
        "send events after a STUN change-port request may print destination port + 1".into(),
    ];
    for logger in [LoggerKind::Console, LoggerKind::Logfmt] {
        for lists in [false, true] {
            let mut cfg = Cfg::base().with_log(logger, Level::Off);
            if lists {
                cfg = cfg.with_self(&self_ips()).with_deny(&deny_ips()).with_log(logger, Level::Trace);
            }
            let tag = format!("{:?}-{}", logger, if lists { "lists" } else { "plain" }).to_lowercase();
            let cookies = learn_cookies(&Cfg::base(), &[flow4(40000, 80), flow6(40000, 80)]).unwrap_or_default();
            let frames = frames_for(&cookies, thorough);
            let t0 = std::time::Instant::now();
            let opts = RunOpts::new(&format!("events-{}", tag)).stateful().chunk(64).no_monitor();
            let cfgc = cfg.clone();
            engine::run(
                &cfg,
                frames.len() as u64,
                &opts,
                |i| {
                    let (_, pre, f) = &frames[i as usize];
                    let mut c: Vec<Cmd> = pre.iter().map(|x| Cmd::Frame(x.clone())).collect();
                    c.push(Cmd::Frame(f.clone()));
                    c
                },
                |it: &Item, sk: &mut Sink| {
                    for (k, (c, o)) in it.cmds.iter().zip(it.outs.iter()).enumerate() {
                        if let Cmd::Frame(f) = c {
                            sk.count("frames", 1);
                            sk.count("log_lines", o.log.len() as u64);
                            if o.panicked {
                                sk.violation(Violation { prop: "C01".into(), key: format!("panic:{}", engine::panic_site(&o.text)), what: o.text.clone(), cfg: cfgc.clone(), cmds: it.cmds[..=k].to_vec(), idx: it.idx, stage: "events".into() });
                                continue;
                            }
                            let shape: Vec<String> = o.log.iter().filter_map(|l| if cfgc.logger == LoggerKind::Console { parse_console(l).ok() } else { parse_logfmt(l).ok() }).map(|e| format!("{}:{}", e.proto, e.verb)).collect();
                            sk.class(&shape.join(","));
                            if let Some((key, what)) = check_frame(&cfgc, f, o) {
                                sk.violation(Violation {
                                    prop: "C20".into(),
                                    key,
                                    what: format!("frame '{}': {}", frames[it.idx as usize].0, what),
                                    cfg: cfgc.clone(),
                                    cmds: it.cmds[..=k].to_vec(),
                                    idx: it.idx,
                                    stage: format!("events-{}", tag),
                                });
                            }
                        }
                    }
                },
                &mut rep.sink,
            );
            rep.stage(&format!("events-{}", tag), "corpus + truncations + header-field values + selectors, events of every frame parsed and compared with the reference trace", frames.len() as u64, t0);
            // soak: thousands of connections and frames through ONE responder process (beyond the
            // 1024 / 4096-entry marks of the connection table and every 8-bit frame counter), the
            // events of every frame checked
            if lists || logger == LoggerKind::Console {
                let t0 = std::time::Instant::now();
                let nfl = if thorough { 20_000 } else { 4_500 };
                let fl = crate::props::c07::many_flow_set(&Cfg::base(), nfl, 80, rep);
                let mut cmds: Vec<Cmd> = Vec::new();
                for (k, (f, g)) in fl.iter().enumerate() {
                    cmds.push(Cmd::Frame(f.tcp(1, 0, F_SYN, b"")));
                    cmds.push(Cmd::Frame(f.tcp(2, g.wrapping_add(1), F_PSH | F_ACK, if k % 3 == 0 { b"GET / HTTP/1.0\r\n\r\n" } else { b"x" })));
                    if k % 4 == 0 {
                        cmds.push(Cmd::Frame(flow(k % 8 == 0, 1, 1).icmp_echo(k as u16, 1, b"soak")));
                    }
                    if k % 16 == 1 {
                        cmds.push(Cmd::Frame(f.tcp(3, g.wrapping_add(9), F_PSH | F_ACK, b"y")));
                        cmds.push(Cmd::Frame(f.tcp(4, g.wrapping_add(1), F_FIN | F_ACK, b"")));
                    }
                }
                let total = cmds.len() as u64;
                let sstage = format!("event-soak-{}", tag);
                let opts = RunOpts::new(&sstage).stateful().chunk(1).no_monitor();
                let cfgs = cfg.clone();
                engine::run(
                    &cfg,
                    1,
                    &opts,
                    |_| cmds.clone(),
                    |it: &Item, sk: &mut Sink| {
                        for (k, (c, o)) in it.cmds.iter().zip(it.outs.iter()).enumerate() {
                            if let Cmd::Frame(f) = c {
                                sk.count("frames", 1);
                                if o.panicked {
                                    sk.violation(Violation { prop: "C01".into(), key: format!("panic:{}", engine::panic_site(&o.text)), what: o.text.clone(), cfg: cfgs.clone(), cmds: it.cmds[..=k].to_vec(), idx: k as u64, stage: "event-soak".into() });
                                    break;
                                }
                                if let Some((key, what)) = check_frame(&cfgs, f, o) {
                                    sk.violation(Violation { prop: "C20".into(), key, what: format!("frame {} of one long-running process: {}", k, what), cfg: cfgs.clone(), cmds: it.cmds[..=k].to_vec(), idx: k as u64, stage: "event-soak".into() });
                                    break;
                                }
                            }
                        }
                    },
                    &mut rep.sink,
                );
                rep.stage(&sstage, &format!("{} connections (SYN, first data segment; every 16th also a wrong-ack segment and a FIN|ACK) interleaved with echo requests through one responder process, events of every frame checked", fl.len()), total, t0);
            }
            // histories: every sequence of length <= L over the TCP alphabet of one flow (SYN, data
            // with right / wrong acknowledgement numbers, partial and complete requests of several
            // protocols, FIN|ACK, RST, ...) and the noise frames; the events of EVERY frame of the
            // sequence are checked (the balance must not depend on the connection state)
            if lists || thorough {
                let t0 = std::time::Instant::now();
                let fa = flow4(40000, 80);
                let ca = cookies.get(&key_of(&fa)).copied().unwrap_or(0);
                let mut alpha: Vec<Vec<u8>> = crate::props::c07::tcp_events("A", &fa, ca, true).into_iter().map(|e| e.frame).collect();
                alpha.extend(crate::props::c07::noise_events().into_iter().map(|e| e.frame));
                let na = alpha.len() as u64;
                let depth: u32 = if thorough { 3 } else { 2 };
                let total: u64 = (1..=depth).map(|l| na.pow(l)).sum();
                let hstage = format!("event-histories-{}", tag);
                let opts = RunOpts::new(&hstage).stateful().chunk(64).no_monitor();
                let cfgh = cfg.clone();
                engine::run(
                    &cfg,
                    total,
                    &opts,
                    |mut i| {
                        let mut l = 1;
                        while i >= na.pow(l) {
                            i -= na.pow(l);
                            l += 1;
                        }
                        let mut v = Vec::new();
                        for _ in 0..l {
                            v.push(Cmd::Frame(alpha[(i % na) as usize].clone()));
                            i /= na;
                        }
                        v
                    },
                    |it: &Item, sk: &mut Sink| {
                        for (k, (c, o)) in it.cmds.iter().zip(it.outs.iter()).enumerate() {
                            if let Cmd::Frame(f) = c {
                                sk.count("frames", 1);
                                if o.panicked {
                                    sk.violation(Violation { prop: "C01".into(), key: format!("panic:{}", engine::panic_site(&o.text)), what: o.text.clone(), cfg: cfgh.clone(), cmds: it.cmds[..=k].to_vec(), idx: it.idx, stage: "event-histories".into() });
                                    continue;
                                }
                                if let Some((key, what)) = check_frame(&cfgh, f, o) {
                                    sk.violation(Violation { prop: "C20".into(), key, what: format!("frame {} of a history: {}", k, what), cfg: cfgh.clone(), cmds: it.cmds[..=k].to_vec(), idx: it.idx, stage: "event-histories".into() });
                                }
                            }
                        }
                    },
                    &mut rep.sink,
                );
                rep.stage(&hstage, &format!("every sequence of length 1..{} over {} frames (TCP alphabet of one flow + noise), events of every frame checked", depth, na), total, t0);
            }
        }
    }
    // the logger must not print anything when none is configured
    rep.states = rep.sink.classes.len() as u64;
}
