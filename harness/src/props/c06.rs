//! C06 — SYN policy mimics Linux; SYN-ACK acks seq+1 with a deterministic cookie.

use std::collections::HashMap;

use crate::corpus::*;
use crate::driver::{Cfg, Cmd, MAC_SRV};
use crate::engine::{self, product, unrank, Report, Violation};
use crate::props::{cfg_plain, sweep_frames};
use crate::sip::cookie_guess;
use crate::wire::*;

const SEQS: [u32; 6] = [0, 1, 0x7fffffff, 0x80000000, 0xfffffffe, 0xffffffff];

fn addr_pairs(v6: bool) -> Vec<(Ip, Ip)> {
    if v6 {
        vec![
            (cli6(), srv6()), (cli6(), srv6b()), (cli6b(), srv6()), (cli6b(), srv6b()),
            (Ip::parse("2001:db8::9"), Ip::parse("2001:db8::1")), (Ip::parse("2001:db8::a"), srv6()), (Ip::parse("2001:db8:1::9"), srv6()), (srv6(), srv6()),
        ]
    } else {
        vec![
            (cli4(), srv4()), (cli4(), srv4b()), (cli4b(), srv4()), (cli4b(), srv4b()),
            (Ip::V4([10, 0, 0, 10]), srv4()), (Ip::V4([10, 0, 1, 9]), srv4()), (Ip::V4([11, 0, 0, 9]), srv4()), (srv4(), srv4()),
        ]
    }
}

pub fn run(rep: &mut Report, thorough: bool) {
    rep.rule = "all 512 values of the 9 TCP flag bits x 8 reserved-bit values x payload {none, 1 byte, HTTP request} x 6 edge sequence numbers x {v4,v6}; both 16-bit halves of the sequence number swept over all 65536 values; cookie function: determinism under changes of MAC / seq / flags / window / payload / retransmission, sensitivity to each of (src, dst, sport, dport, key) over 2^16 port values and address pairs, collision count compared with the 2^-32 expectation; ADDED LATER: BFS of SYNs after connection histories, depth-2 pair histories over an L2-L4 frame set (the SYN-ACK of a SYN equals the one a fresh process gives), all four list combinations".into();
    rep.assumptions = vec![
        "the cookie is learned from SYN-ACKs; agreement with the harness's own SipHash-2-4 is reported as information, not as a verdict".into(),
        "collision bound for N tuples: observed <= 4*N^2/2^33 + 8".into(),
    ];
    let payloads: [&[u8]; 3] = [b"", b"x", b"GET / HTTP/1.1\r\n\r\n"];
    let keys: Vec<[u64; 2]> = vec![[0, 0], [0x0123456789abcdef, 0xfedcba9876543210], [1, 0]];
    let mut cfgs: Vec<Cfg> = crate::props::cfg_variants().into_iter().map(|x| x.1).collect();
    for k in &keys[1..] {
        cfgs.push(cfg_plain().with_key(*k));
    }
    for (ci, cfg) in cfgs.iter().enumerate() {
        let tag = format!("cfg{}", ci);
        if rep.secondary && ci >= 2 {
            continue;
        }
        if ci < 2 {
            crate::props::pairs::pair_histories_owned(rep, cfg, &format!("pair-histories-{}", tag), &crate::props::pairs::l2l4_frames(), Some(("C06", crate::props::pairs::is_syn, "synack-depends-on-history")));
        }
        // flags x reserved x payload x seq x version
        let dims = [512u64, 8, 3, SEQS.len() as u64, 2];
        sweep_frames(rep, cfg, &format!("flags-{}", tag), "flags 0..511 x reserved 0..7 x payload (3) x seq (6 edge values) x {v4,v6}", product(&dims), |i| {
            let d = unrank(i, &dims);
            let f = flow(d[4] == 1, 40000, 80);
            let mut seg = TcpSeg::new(f.cport, f.sport, SEQS[d[3] as usize], 0x11223344, d[0] as u16, payloads[d[2] as usize]);
            seg.reserved = d[1] as u8;
            f.tcp_seg(&seg)
        });
        if ci == 0 {
            crate::props::c07::source_mac_stage(cfg, rep, "C06");
        }
        // SYNs as a NIC delivers them: a bare IPv4 SYN is 54 bytes, below the 60-byte Ethernet
        // minimum, so it arrives zero-padded; any frame may carry a trailer behind the IP datagram
        {
            let fl: [u16; 6] = [F_SYN, F_SYN | F_ECE, F_SYN | F_PSH | F_URG, F_SYN | F_CWR, F_SYN | F_ACK, F_SYN | F_CWR | F_ECE];
            let tr: Vec<usize> = (1..=18).chain([46, 100]).collect();
            let dims = [fl.len() as u64, tr.len() as u64, 2, 2, 2];
            sweep_frames(rep, cfg, &format!("syn-link-trailer-{}", tag), "6 flag sets x trailer length 1..18, 46, 100 x trailer byte {00, ff} x payload {none, 4 bytes} x {v4,v6}", product(&dims), |i| {
                let d = unrank(i, &dims);
                let f = flow(d[4] == 1, 40000, 80);
                let mut fr = f.tcp(0x01020304, 0, fl[d[0] as usize], if d[3] == 1 { b"data" } else { b"" });
                fr.extend(std::iter::repeat(if d[2] == 1 { 0xffu8 } else { 0 }).take(tr[d[1] as usize]));
                fr
            });
        }
        // the other fixed fields of the segment: urgent pointer x window x checksum value next to
        // every flag set (a SYN|URG whose urgent pointer lies beyond its payload is still a SYN)
        {
            let urgs: [u16; 8] = [0, 1, 2, 3, 4, 5, 0x8000, 0xffff];
            let wins: [u16; 4] = [0, 1, 8192, 0xffff];
            let dims = [512u64, urgs.len() as u64, wins.len() as u64, 3, 2];
            sweep_frames(rep, cfg, &format!("flags-urgent-window-{}", tag), "flags 0..511 x urgent pointer (8) x window (4) x payload (3) x {v4,v6}", product(&dims), |i| {
                let d = unrank(i, &dims);
                let f = flow(d[4] == 1, 40000, 80);
                let mut seg = TcpSeg::new(f.cport, f.sport, 0x01020304, 0x11223344, d[0] as u16, payloads[d[3] as usize]);
                seg.urg = urgs[d[1] as usize];
                seg.window = wins[d[2] as usize];
                f.tcp_seg(&seg)
            });
        }
        // address forms: the policy and the arithmetic hold for every source / destination spelling
        {
            let c4: Vec<Ip> = vec![cli4(), Ip::V4([0, 0, 0, 0]), Ip::V4([255, 255, 255, 255]), Ip::V4([224, 0, 0, 1]), Ip::V4([127, 0, 0, 1]), srv4()];
            let c6: Vec<Ip> = vec![cli6(), Ip::parse("::"), Ip::parse("::1"), Ip::parse("ff02::1"), Ip::parse("::ffff:10.0.0.9"), Ip::parse("::10.0.0.9"), Ip::parse("fe80::1"), srv6(), Ip::parse("::ffff:0.0.0.0"), Ip::parse("2002:a00:9::1")];
            let s6: Vec<Ip> = vec![srv6(), srv6b(), Ip::parse("::ffff:10.0.0.1"), Ip::parse("::1")];
            let fl: [u16; 4] = [F_SYN, F_SYN | F_ECE, F_SYN | F_PSH | F_URG, F_SYN | F_ACK];
            let n4 = c4.len() as u64 * 2;
            let n6 = (c6.len() * s6.len()) as u64;
            sweep_frames(rep, cfg, &format!("syn-address-forms-{}", tag), "SYN flag sets (4) x {6 IPv4 sources x 2 destinations, 10 IPv6 sources x 4 destinations incl. IPv4-mapped / IPv4-compatible / loopback forms} x ports {0, 80, 65535}", (n4 + n6) * 4 * 3, |i| {
                let d = unrank(i, &[n4 + n6, 4, 3]);
                let port = [0u16, 80, 65535][d[2] as usize];
                let mut f = if d[0] < n4 { flow4(40000, port) } else { flow6(40000, port) };
                if d[0] < n4 {
                    f.cip = c4[(d[0] / 2) as usize];
                    f.sip = if d[0] % 2 == 0 { srv4() } else { srv4b() };
                } else {
                    let k = (d[0] - n4) as usize;
                    f.cip = c6[k / s6.len()];
                    f.sip = s6[k % s6.len()];
                }
                if port == 0 {
                    f.cport = 0;
                }
                f.tcp(0xffff_ffff, 0, fl[d[1] as usize], b"")
            });
        }
        // every destination MAC the link layer accepts: the SYN policy does not depend on it
        {
            let auth: Vec<Mac> = crate::model::authorised_macs(cfg).into_iter().collect();
            let mut auth = auth;
            auth.sort();
            let n = auth.len() as u64;
            sweep_frames(rep, cfg, &format!("syn-dst-macs-{}", tag), "every authorised destination MAC (own, broadcast, all-nodes, multicast MACs derived from the handled addresses) x {v4,v6} x flags {SYN, SYN|ECE|PSH, SYN|ACK, SYN|RST}", n * 2 * 4, |i| {
                let d = unrank(i, &[n, 2, 4]);
                let mut f = flow(d[1] == 1, 40000, 80);
                f.smac = auth[d[0] as usize];
                f.tcp(0xffff_fff0, 0, [F_SYN, F_SYN | F_ECE | F_PSH, F_SYN | F_ACK, F_SYN | F_RST][d[2] as usize], b"")
            });
        }
        // SYNs behind IPv4 options (IHL 6..15): the policy does not depend on the IP header length
        {
            let dims = [10u64, 512, 2];
            sweep_frames(rep, cfg, &format!("flags-ip-options-{}", tag), "IHL 6..15 (NOP options) x flags 0..511 x payload {none, 1 byte}", product(&dims), |i| {
                let d = unrank(i, &dims);
                let ihl = 6 + d[0] as u8;
                let f = flow4(40000, 80);
                let (c4, s4) = match (f.cip, f.sip) {
                    (Ip::V4(a), Ip::V4(b)) => (a, b),
                    _ => unreachable!(),
                };
                let l4 = TcpSeg::new(40000, 80, 0xfffffffe, 0, d[1] as u16, if d[2] == 0 { b"" } else { b"x" }).bytes(&f.cip, &f.sip);
                eth(&MAC_SRV, &MAC_CLI, ET_IP4, &ipv4_raw(c4, s4, P_TCP, &l4, ihl, None, &vec![1u8; (ihl as usize - 5) * 4], 64, 0x4000, 7))
            });
        }
        if ci < 2 || thorough {
            sweep_frames(rep, cfg, &format!("seq-halves-{}", tag), "sequence number: low half and high half each over all 65536 values x {v4,v6} x flags {SYN, SYN|ECE|PSH}", 65536 * 2 * 2 * 2, |i| {
                let d = unrank(i, &[2, 2, 2, 65536]);
                let seq = if d[0] == 0 { 0xffff0000 | d[3] as u32 } else { ((d[3] as u32) << 16) | 0xffff };
                let fl = if d[2] == 0 { F_SYN } else { F_SYN | F_ECE | F_PSH };
                flow(d[1] == 1, 40000, 80).tcp(seq, 0, fl, b"")
            });
        }
    }
    // histories: the SYN rule holds whatever happened before (BFS over the real connection table
    // with SYN probes, valid data, FIN|ACK, RST on two flows; every transition judged)
    {
        use crate::bfs::{self, BfsOpts, Event};
        use crate::props::c07::{setup, tcp_events};
        match setup(cfg_plain(), 2) {
            Ok(s) => {
                let mut events: Vec<Event> = Vec::new();
                for (tagf, f) in &s.flows {
                    let c = s.cookies[&key_of(f)];
                    for e in tcp_events(tagf, f, c, false) {
                        let n = e.name.split_once(':').map(|x| x.1.to_string()).unwrap_or_default();
                        if ["syn", "data-http-ack=cookie+1", "data-Z", "data-empty", "finack-0x3e8-", "rst", "ack", "data-http-half1"].iter().any(|k| n.starts_with(k)) {
                            events.push(e);
                        }
                    }
                    events.push(Event { name: format!("{}:syn-psh-urg-ece", tagf), frame: f.tcp(0xffffffff, 5, F_SYN | F_PSH | F_URG | F_ECE, b"x"), flow: Some(key_of(f)), is_data: false });
                    events.push(Event { name: format!("{}:syn-cwr-ece", tagf), frame: f.tcp(9, 0, F_SYN | F_CWR | F_ECE, b""), flow: Some(key_of(f)), is_data: false });
                    events.push(Event { name: format!("{}:syn-ack", tagf), frame: f.tcp(9, c.wrapping_add(1), F_SYN | F_ACK, b""), flow: Some(key_of(f)), is_data: false });
                }
                let o = BfsOpts { stage: "bfs-syn-after-history".into(), max_depth: if thorough { 6 } else { 4 }, max_states: 20000, abstract_acc: true, differential: false };
                bfs::bfs(&s.cfg, &events, &s.cookies, &o, rep);
            }
            Err(e) => rep.sink.machinery_errors.push(e),
        }
    }
    // cookie function analysis (learned cookies only)
    for (ci, cfg) in [cfg_plain(), cfg_plain().with_key(keys[1])].iter().enumerate() {
        let tag = format!("key{}", ci);
        let t0 = std::time::Instant::now();
        // tuples: all source ports x 4 destination ports, and all destination ports x 4 source ports,
        // on 8 address pairs (thorough) or 2 (quick), both IP versions
        let npairs: usize = if thorough { 8 } else { 2 };
        let mut tuples: Vec<(Ip, Ip, u16, u16)> = Vec::new();
        for v6 in [false, true] {
            let ap = addr_pairs(v6);
            for p in 0..npairs {
                for sw in 0..(if thorough { 8 } else { 2 }) {
                    let s = if thorough { sw } else { [0u64, 4][sw as usize] };
                    for i in 0..65536u64 {
                        let (sp, dp) = crate::props::c03::port_value(s, i);
                        tuples.push((ap[p].0, ap[p].1, sp, dp));
                    }
                }
            }
        }
        tuples.sort();
        tuples.dedup();
        let cmds: Vec<Cmd> = tuples
            .iter()
            .map(|(c, s, sp, dp)| {
                let f = Flow { cmac: MAC_CLI, smac: MAC_SRV, cip: *c, sip: *s, cport: *sp, sport: *dp };
                Cmd::Frame(f.tcp(1, 0, F_SYN, b""))
            })
            .collect();
        let outs = engine::map_cmds(cfg, &cmds, &format!("cookie-tuples-{}", tag), true, &mut rep.sink);
        if outs.len() != cmds.len() {
            rep.sink.machinery_errors.push("cookie sweep incomplete".into());
            return;
        }
        let mut by_cookie: HashMap<u32, Vec<usize>> = HashMap::new();
        let mut cookie_of: Vec<Option<u32>> = Vec::with_capacity(outs.len());
        let mut agree = 0u64;
        for (k, o) in outs.iter().enumerate() {
            let c = o.reply.as_deref().and_then(synack_seq);
            cookie_of.push(c);
            if let Some(c) = c {
                by_cookie.entry(c).or_default().push(k);
                let t = &tuples[k];
                if cookie_guess(cfg.key, &t.0, &t.1, t.2, t.3) == c {
                    agree += 1;
                }
            }
        }
        let n = tuples.len() as u64;
        let collisions: u64 = by_cookie.values().map(|v| (v.len() as u64) * (v.len() as u64 - 1) / 2).sum();
        let bound = 4 * n * n / (1u64 << 33) + 8;
        rep.sink.count(&format!("cookie_tuples_{}", tag), n);
        rep.sink.count(&format!("cookie_collisions_{}", tag), collisions);
        rep.sink.count(&format!("cookie_siphash_agreement_{}", tag), agree);
        if collisions > bound {
            // sensitivity failure: some input does not reach the cookie
            let (c, v) = by_cookie.iter().filter(|(_, v)| v.len() > 1).min_by_key(|(_, v)| v[0]).unwrap();
            rep.sink.violation(Violation {
                prop: "C06".into(),
                key: "cookie-insensitive".into(),
                what: format!("{} colliding pairs among {} tuples (bound {}): e.g. cookie {:#x} for {:?} and {:?}", collisions, n, bound, c, tuples[v[0]], tuples[v[1]]),
                cfg: cfg.clone(),
                cmds: vec![cmds[v[0]].clone(), cmds[v[1]].clone()],
                idx: v[0] as u64,
                stage: format!("cookie-tuples-{}", tag),
            });
        }
        // sensitivity to the key: the same tuples under the other key must differ (up to 2^-32)
        rep.extra.insert(format!("cookies_{}", tag), serde_json::json!({"tuples": n, "collisions": collisions, "bound": bound, "agree_with_own_siphash": agree}));
        if ci == 1 {
            // compare with key 0 on a sample of the same tuples: done below via determinism probe
        }
        // determinism: the same tuple with different MACs, seq, flags, window, TTL, payload, repeated
        let probe: Vec<usize> = (0..tuples.len()).step_by((tuples.len() / 4096).max(1)).collect();
        let mut cmds2: Vec<Cmd> = Vec::new();
        let variants = 6;
        for &k in &probe {
            let t = &tuples[k];
            for v in 0..variants {
                let mut f = Flow { cmac: MAC_CLI, smac: MAC_SRV, cip: t.0, sip: t.1, cport: t.2, sport: t.3 };
                let mut seg = TcpSeg::new(t.2, t.3, 1, 0, F_SYN, b"");
                match v {
                    0 => {}
                    1 => f.cmac = MAC_CLI2,
                    2 => seg.seq = 0xffffffff,
                    3 => seg.flags = F_SYN | F_PSH | F_URG | F_CWR,
                    4 => {
                        seg.window = 1;
                        seg.urg = 77;
                    }
                    _ => seg.payload = b"hello".to_vec(),
                }
                cmds2.push(Cmd::Frame(f.tcp_seg(&seg)));
            }
        }
        let outs2 = engine::map_cmds(cfg, &cmds2, &format!("cookie-determinism-{}", tag), true, &mut rep.sink);
        for (pi, &k) in probe.iter().enumerate() {
            for v in 0..variants {
                let idx = pi * variants + v;
                let c = outs2.get(idx).and_then(|o| o.reply.as_deref()).and_then(synack_seq);
                if c != cookie_of[k] {
                    rep.sink.violation(Violation {
                        prop: "C06".into(),
                        key: "cookie-depends-on-other-input".into(),
                        what: format!("cookie {:?} for tuple {:?} changed to {:?} when only MAC/seq/flags/window/payload changed (variant {})", cookie_of[k], tuples[k], c, v),
                        cfg: cfg.clone(),
                        cmds: vec![cmds[k].clone(), cmds2[idx].clone()],
                        idx: idx as u64,
                        stage: format!("cookie-determinism-{}", tag),
                    });
                }
            }
        }
        rep.stage(&format!("cookie-{}", tag), "SYN over all source ports x fixed destination ports and conversely x address pairs x {v4,v6}; determinism probes x 6 variants", n + cmds2.len() as u64, t0);
        // round 21: EVERY address bit reaches the cookie, in every address class (a base address per
        // class x {source, destination} x each single bit flipped; the flipped tuple's cookie must
        // differ from the base's - an equality has probability 2^-32 per pair, ~1e-6 over the stage)
        {
            let t0 = std::time::Instant::now();
            let bases6 = ["2001:db8::9", "fe80::1", "fe80::211:22ff:fe33:4455", "febf:ffff:ffff:ffff::1", "fec0::1", "fc00::1", "ff02::1", "::1", "::", "::ffff:10.0.0.9", "::10.0.0.9", "2002:a00:9::1", "64:ff9b::a00:9", "ffff:ffff:ffff:ffff:ffff:ffff:ffff:ffff"];
            let bases4 = ["10.0.0.9", "0.0.0.0", "255.255.255.255", "127.0.0.1", "169.254.1.1", "224.0.0.1", "192.168.255.255"];
            let mut plan: Vec<(Ip, Ip, String)> = Vec::new(); // (client, server, label); entries come in (base, flipped) order
            let flip = |ip: &Ip, bit: usize| -> Ip {
                match ip {
                    Ip::V4(a) => {
                        let mut b = *a;
                        b[bit / 8] ^= 0x80 >> (bit % 8);
                        Ip::V4(b)
                    }
                    Ip::V6(a) => {
                        let mut b = *a;
                        b[bit / 8] ^= 0x80 >> (bit % 8);
                        Ip::V6(b)
                    }
                }
            };
            for (v6, bases) in [(false, &bases4[..]), (true, &bases6[..])] {
                let nbits = if v6 { 128 } else { 32 };
                let other = if v6 { srv6() } else { srv4() };
                let otherc = if v6 { cli6() } else { cli4() };
                for b in bases {
                    let base = Ip::parse(b);
                    for role in 0..2 {
                        for bit in 0..nbits {
                            let fl = flip(&base, bit);
                            if role == 0 {
                                plan.push((base, other, format!("source {}", b)));
                                plan.push((fl, other, format!("source {} with bit {} flipped", b, bit)));
                            } else {
                                plan.push((otherc, base, format!("destination {}", b)));
                                plan.push((otherc, fl, format!("destination {} with bit {} flipped", b, bit)));
                            }
                        }
                    }
                }
            }
            let cmds3: Vec<Cmd> = plan.iter().map(|(c, s, _)| Cmd::Frame(Flow { cmac: MAC_CLI, smac: MAC_SRV, cip: *c, sip: *s, cport: 40000, sport: 443 }.tcp(1, 0, F_SYN, b""))).collect();
            let outs3 = engine::map_cmds(cfg, &cmds3, &format!("cookie-address-bits-{}", tag), true, &mut rep.sink);
            let mut compared = 0u64;
            if outs3.len() == cmds3.len() {
                for k in (0..plan.len()).step_by(2) {
                    let a = outs3[k].reply.as_deref().and_then(synack_seq);
                    let b = outs3[k + 1].reply.as_deref().and_then(synack_seq);
                    if let (Some(a), Some(b)) = (a, b) {
                        compared += 1;
                        if a == b {
                            rep.sink.violation(Violation {
                                prop: "C06".into(),
                                key: "cookie-insensitive-to-address-bit".into(),
                                what: format!("the SYN-ACK cookie {:#x} is the same for {} and for {} (same ports, same key)", a, plan[k].2, plan[k + 1].2),
                                cfg: cfg.clone(),
                                cmds: vec![cmds3[k].clone(), cmds3[k + 1].clone()],
                                idx: k as u64,
                                stage: format!("cookie-address-bits-{}", tag),
                            });
                        }
                    }
                }
            } else {
                rep.sink.machinery_errors.push("cookie address-bit sweep incomplete".into());
            }
            rep.sink.count(&format!("cookie_address_bit_pairs_compared_{}", tag), compared);
            rep.stage(&format!("cookie-address-bits-{}", tag), "7 IPv4 + 14 IPv6 base addresses of every class (global, link-local with and without reserved bits, site-local, ULA, multicast, loopback, unspecified, IPv4-mapped / -compatible, 6to4, NAT64, all-ones) x {as source, as destination} x every single address bit flipped: the cookie must change", cmds3.len() as u64, t0);
        }
    }
    // key sensitivity: same tuples, two keys
    {
        let f = flow4(40000, 80);
        let cmds: Vec<Cmd> = (0..65536u32).map(|p| Cmd::Frame(flow4(p as u16, 80).tcp(1, 0, F_SYN, b""))).collect();
        let _ = f;
        let a = engine::map_cmds(&cfg_plain(), &cmds, "key-sens-a", false, &mut rep.sink);
        let b = engine::map_cmds(&cfg_plain().with_key(keys[2]), &cmds, "key-sens-b", false, &mut rep.sink);
        let same = a.iter().zip(b.iter()).filter(|(x, y)| x.reply.as_deref().and_then(synack_seq) == y.reply.as_deref().and_then(synack_seq)).count();
        rep.sink.count("key_sensitivity_equal_cookies", same as u64);
        if same > 8 {
            rep.sink.violation(Violation {
                prop: "C06".into(),
                key: "cookie-ignores-key".into(),
                what: format!("{} of 65536 tuples have the same cookie under keys [0,0] and [1,0]", same),
                cfg: cfg_plain().with_key(keys[2]),
                cmds: vec![cmds[0].clone()],
                idx: 0,
                stage: "key-sensitivity".into(),
            });
        }
    }
    rep.states = rep.sink.classes.len() as u64;
}
