//! C13-C18 — application protocols: sweeps over request grammars / field products, every
//! request sent through the real UDP path or a fresh validated TCP flow, every reply judged by
//! the independent reference recognisers and decoders (app*.rs).

use std::collections::HashMap;

use crate::appdns;
use crate::apprpc;
use crate::appsmb::{self, Smb1Hdr, Smb2Hdr};
use crate::corpus::*;
use crate::driver::{Cfg, Cmd};
use crate::engine::{self, product, unrank, Item, Report, RunOpts, Sink};
use crate::model::{FlowKey, Model};
use crate::props::{cfg_lists, cfg_plain};
use crate::wire::*;

#[derive(Clone, Copy, Debug, PartialEq, Eq)]
pub struct Path {
    pub tcp: bool,
    pub v6: bool,
    /// index into PORT_PAIRS
    pub ports: usize,
}

pub const PORT_PAIRS: [(u16, u16); 2] = [(40000, 80), (51234, 3478)];

pub fn all_paths() -> Vec<Path> {
    let mut v = Vec::new();
    for tcp in [false, true] {
        for v6 in [false, true] {
            for ports in 0..PORT_PAIRS.len() {
                v.push(Path { tcp, v6, ports });
            }
        }
    }
    v
}

pub struct AppEnv {
    pub cfg: Cfg,
    pub cookies: HashMap<FlowKey, u32>,
}

impl AppEnv {
    pub fn new(cfg: Cfg) -> Result<AppEnv, String> {
        let mut fl = Vec::new();
        for v6 in [false, true] {
            for (a, b) in PORT_PAIRS {
                fl.push(flow(v6, a, b));
            }
        }
        let cookies = learn_cookies(&cfg, &fl)?;
        if cookies.len() != fl.len() {
            return Err("cannot learn cookies".into());
        }
        Ok(AppEnv { cfg, cookies })
    }
    pub fn cmds(&self, p: Path, payload: &[u8]) -> Vec<Cmd> {
        let (a, b) = PORT_PAIRS[p.ports];
        let f = flow(p.v6, a, b);
        if p.tcp {
            let c = self.cookies[&key_of(&f)].wrapping_add(1);
            vec![Cmd::Frame(f.tcp(1000, c, F_PSH | F_ACK, payload))]
        } else {
            vec![Cmd::Frame(f.udp(payload))]
        }
    }
}

/// Sweep: item i -> (path, payload); judged by the reference model.
pub fn sweep_app<G>(rep: &mut Report, env: &AppEnv, stage: &str, space: &str, total: u64, gen: G)
where
    G: Fn(u64) -> (Path, Vec<u8>) + Sync,
{
    let t0 = std::time::Instant::now();
    let opts = RunOpts::new(stage).stateful().chunk(256).no_monitor();
    engine::run(
        &env.cfg,
        total,
        &opts,
        |i| {
            let (p, pl) = gen(i);
            env.cmds(p, &pl)
        },
        |it: &Item, sk: &mut Sink| {
            let model = Model::new();
            engine::judge_item(&env.cfg, &model, &env.cookies, it, it.cmds.len(), stage, sk);
            sk.count("frames", 1);
            if it.outs[1].panicked {
                sk.violation(crate::engine::Violation {
                    prop: "C01".into(),
                    key: format!("panic:{}", engine::panic_site(&it.outs[1].text)),
                    what: format!("reply() panicked: {}", it.outs[1].text),
                    cfg: env.cfg.clone(),
                    cmds: it.cmds.to_vec(),
                    idx: it.idx,
                    stage: stage.to_string(),
                });
            }
            if it.outs[1].reply.is_some() {
                sk.count("replies", 1);
            }
        },
        &mut rep.sink,
    );
    rep.stage(stage, space, total, t0);
}

/// Sweep of TCP conversations: item i -> (path, list of segment payloads), all on one fresh
/// validated flow; every segment judged by the reference stream model.
pub fn sweep_conv<G>(rep: &mut Report, env: &AppEnv, stage: &str, space: &str, total: u64, gen: G)
where
    G: Fn(u64) -> (Path, Vec<Vec<u8>>) + Sync,
{
    sweep_conv_isn(rep, env, stage, space, total, |i| {
        let (p, segs) = gen(i);
        (p, segs, 1000)
    })
}

/// The same with the client's initial sequence number chosen per conversation.
pub fn sweep_conv_isn<G>(rep: &mut Report, env: &AppEnv, stage: &str, space: &str, total: u64, gen: G)
where
    G: Fn(u64) -> (Path, Vec<Vec<u8>>, u32) + Sync,
{
    let t0 = std::time::Instant::now();
    let opts = RunOpts::new(stage).stateful().chunk(128).no_monitor();
    engine::run(
        &env.cfg,
        total,
        &opts,
        |i| {
            let (p, segs, isn) = gen(i);
            let (a, b) = PORT_PAIRS[p.ports];
            let f = flow(p.v6, a, b);
            let c = env.cookies[&key_of(&f)].wrapping_add(1);
            let mut off = 0u32;
            let mut cmds = Vec::new();
            for sg in segs {
                let mut fr = f.tcp(isn.wrapping_add(off), c, F_PSH | F_ACK, &sg);
                // every fourth conversation as a NIC delivers it: frames below the 60-byte Ethernet
                // minimum zero-padded (bytes behind the IP datagram are not part of the stream)
                if i % 4 == 3 && fr.len() < 60 {
                    fr.resize(60, 0);
                }
                cmds.push(Cmd::Frame(fr));
                off = off.wrapping_add(sg.len() as u32);
            }
            cmds
        },
        |it: &Item, sk: &mut Sink| {
            let model = Model::new();
            engine::judge_item(&env.cfg, &model, &env.cookies, it, it.cmds.len(), stage, sk);
            sk.count("frames", it.cmds.len() as u64 - 1);
            for (k, o) in it.outs.iter().enumerate() {
                if o.panicked {
                    sk.violation(crate::engine::Violation { prop: "C01".into(), key: format!("panic:{}", engine::panic_site(&o.text)), what: format!("reply() panicked: {}", o.text), cfg: env.cfg.clone(), cmds: it.cmds[..=k].to_vec(), idx: it.idx, stage: stage.to_string() });
                }
            }
        },
        &mut rep.sink,
    );
    rep.stage(stage, space, total, t0);
}

/// Segmentation of complete requests on one TCP connection: every 1-cut at every offset and
/// every 2-cut with both cuts inside the first `head` bytes (the longest signature is 28 bytes
/// but all literal bytes sit in the first 12), each segment judged by the reference stream model.
pub fn cuts_stage(rep: &mut Report, env: &AppEnv, stage: &str, pls: &[Vec<u8>], head: usize) {
    let mut plan: Vec<(usize, usize, usize)> = Vec::new();
    for (pi, p) in pls.iter().enumerate() {
        for a in 1..p.len() {
            plan.push((pi, a, 0));
        }
        let h = head.min(p.len().saturating_sub(1));
        for a in 1..=h {
            for b in a + 1..=h {
                plan.push((pi, a, b));
            }
        }
    }
    let space = format!("{} complete requests x (every 1-cut at every offset + every 2-cut inside the first {} bytes) x {{v4,v6}} x {{initial sequence number 1000, sequence numbers wrapping past 2^32 exactly at the first cut}}", pls.len(), head);
    sweep_conv_isn(rep, env, stage, &space, plan.len() as u64 * 4, |i| {
        let (pi, a, b) = plan[(i / 4) as usize];
        let p = &pls[pi];
        let segs = if b == 0 { vec![p[..a].to_vec(), p[a..].to_vec()] } else { vec![p[..a].to_vec(), p[a..b].to_vec(), p[b..].to_vec()] };
        let isn = if (i / 2) % 2 == 1 { 0u32.wrapping_sub(a as u32) } else { 1000 };
        (Path { tcp: true, v6: i % 2 == 1, ports: (i % 2) as usize }, segs, isn)
    });
}

/// Long connections: `n` messages (cycled from `msgs`) on one TCP connection, every one judged
/// by the reference stream model (counters, buffers and per-connection state must not wear out).
pub fn long_conv_stage(rep: &mut Report, env: &AppEnv, stage: &str, first: Option<Vec<u8>>, msgs: &[Vec<u8>], n: usize) {
    let space = format!("{} messages (cycling through {} shapes) on one TCP connection x {{v4,v6}}", n, msgs.len());
    sweep_conv(rep, env, stage, &space, 2, |i| {
        let mut v: Vec<Vec<u8>> = Vec::new();
        if let Some(f) = &first {
            v.push(f.clone());
        }
        for k in 0..n {
            v.push(msgs[k % msgs.len()].clone());
        }
        (Path { tcp: true, v6: i == 1, ports: i as usize }, v)
    });
}

/// Two-byte neighbourhood (thorough tiers): every adjacent byte pair of each base message set to
/// all 65536 values, over the given paths; judged by the reference model like every other sweep.
pub fn pair_faults_stage(rep: &mut Report, env: &AppEnv, stage: &str, bases: &[Vec<u8>], paths: &[Path]) {
    let mut offs = vec![0u64];
    for b in bases {
        offs.push(offs.last().unwrap() + (b.len().saturating_sub(1) as u64) * 65536);
    }
    let np = paths.len() as u64;
    let total = *offs.last().unwrap();
    let space = format!("{} messages x every adjacent byte pair x all 65536 values x {} paths", bases.len(), np);
    sweep_app(rep, env, stage, &space, total * np, |i| {
        let j = i / np;
        let k = offs.partition_point(|o| *o <= j) - 1;
        let r = j - offs[k];
        let mut m = bases[k].clone();
        let pos = (r / 65536) as usize;
        m[pos] = (r >> 8) as u8;
        m[pos + 1] = r as u8;
        (paths[(i % np) as usize], m)
    });
}

fn envs(rep: &mut Report) -> Vec<AppEnv> {
    let mut v = Vec::new();
    // lists + every log-macro argument evaluated (behaviour must not depend on verbosity)
    let mut cfgs = vec![cfg_plain(), cfg_lists()];
    if rep.tier == "thorough" {
        cfgs.push(cfg_lists().with_log(crate::driver::LoggerKind::None, crate::driver::Level::Off).with_profile(crate::driver::Profile::Release));
    }
    for c in cfgs {
        match AppEnv::new(c) {
            Ok(e) => v.push(e),
            Err(e) => rep.sink.machinery_errors.push(e),
        }
    }
    v
}

/* ------------------------------------------------------------------ C13 HTTP */

pub fn http_requests() -> Vec<Vec<u8>> {
    let long = |n: usize| [b"/".to_vec(), vec![b'x'; n - 1]].concat();
    let targets: Vec<Vec<u8>> = vec![b"/".to_vec(), b"/a".to_vec(), long(201), b"/\xff\xfe".to_vec(), b"/a?b=c".to_vec(), long(255), long(256), long(1023), long(1024), long(1025), long(1300)];
    let versions = ["1.1", "1.0", "2.0", "10.11"];
    let hdrs: Vec<Vec<u8>> = vec![b"Host: x".to_vec(), b"A:b".to_vec(), [b"X: ".to_vec(), vec![b'y'; 100]].concat(), b"Content-Length: 5".to_vec()];
    let mut hlists: Vec<Vec<usize>> = vec![vec![]];
    for a in 0..hdrs.len() {
        hlists.push(vec![a]);
        for b in 0..hdrs.len() {
            hlists.push(vec![a, b]);
        }
    }
    let mut v = Vec::new();
    for verb in crate::sig::HTTP_VERBS {
        for t in &targets {
            for ver in versions {
                for hl in &hlists {
                    for eolmode in 0..3 {
                        for body in [false, true] {
                            let mut r = Vec::new();
                            let mut line = 0;
                            let mut eol = |r: &mut Vec<u8>| {
                                let crlf = match eolmode {
                                    0 => true,
                                    1 => false,
                                    _ => line % 2 == 0,
                                };
                                line += 1;
                                if crlf {
                                    r.extend_from_slice(b"\r\n");
                                } else {
                                    r.push(b'\n');
                                }
                            };
                            r.extend_from_slice(verb.as_bytes());
                            r.push(b' ');
                            r.extend_from_slice(t);
                            r.extend_from_slice(b" HTTP/");
                            r.extend_from_slice(ver.as_bytes());
                            eol(&mut r);
                            for h in hl {
                                r.extend_from_slice(&hdrs[*h]);
                                eol(&mut r);
                            }
                            eol(&mut r);
                            if body {
                                r.extend_from_slice(b"hello");
                            }
                            v.push(r);
                        }
                    }
                }
            }
        }
    }
    v
}

pub fn http_core() -> Vec<Vec<u8>> {
    let mut v = Vec::new();
    for verb in crate::sig::HTTP_VERBS {
        for t in ["/", "/a?b=c"] {
            for hs in [vec![], vec!["Host: x"], vec!["Host: x", "A:b"]] {
                for eol in ["\r\n", "\n"] {
                    for ver in ["1.1", "1.0"] {
                        let mut s = format!("{} {} HTTP/{}{}", verb, t, ver, eol);
                        for h in &hs {
                            s.push_str(h);
                            s.push_str(eol);
                        }
                        s.push_str(eol);
                        v.push(s.into_bytes());
                    }
                }
            }
        }
    }
    v
}

pub const FAULT_ALPHABET: [u8; 11] = [b' ', b'\r', b'\n', b':', b'/', b'.', b'A', b'a', b'0', 0x00, 0xff];

/// k-th single-fault variant of `r`: deletions, substitutions, insertions, proper prefixes
pub fn fault_count(r: &[u8]) -> u64 {
    let n = r.len() as u64;
    n + n * FAULT_ALPHABET.len() as u64 + (n + 1) * FAULT_ALPHABET.len() as u64 + n
}

pub fn fault(r: &[u8], k: u64) -> Vec<u8> {
    let n = r.len() as u64;
    let a = FAULT_ALPHABET.len() as u64;
    let mut v = r.to_vec();
    if k < n {
        v.remove(k as usize);
    } else if k < n + n * a {
        let k = k - n;
        v[(k / a) as usize] = FAULT_ALPHABET[(k % a) as usize];
    } else if k < n + n * a + (n + 1) * a {
        let k = k - n - n * a;
        v.insert((k / a) as usize, FAULT_ALPHABET[(k % a) as usize]);
    } else {
        let k = k - n - n * a - (n + 1) * a;
        v.truncate(k as usize);
    }
    v
}

/// Every byte value at every position of a few short requests (which bytes are accepted where is
/// decided by the statement's grammar, not by a character class or a sampled alphabet).
pub fn all_bytes_stage(rep: &mut Report, env: &AppEnv, stage: &str, bases: &[Vec<u8>], tcp: bool, udp: bool) {
    let mut plan: Vec<(usize, usize)> = Vec::new();
    for (b, base) in bases.iter().enumerate() {
        for p in 0..base.len() {
            plan.push((b, p));
        }
    }
    let mut paths: Vec<Path> = Vec::new();
    if udp {
        paths.push(Path { tcp: false, v6: false, ports: 0 });
    }
    if tcp {
        paths.push(Path { tcp: true, v6: true, ports: 1 });
    }
    let np = paths.len() as u64;
    sweep_app(rep, env, stage, &format!("{} requests x every position x all 256 byte values x {} path(s)", bases.len(), np), plan.len() as u64 * 256 * np, |i| {
        let d = unrank(i, &[plan.len() as u64, 256, np]);
        let (b, p) = plan[d[0] as usize];
        let mut r = bases[b].clone();
        r[p] = d[1] as u8;
        (paths[d[2] as usize], r)
    });
}

/// Source-address alphabet: one request from every FORM of client address (ordinary, .255 and .0
/// host addresses of wider subnets, limited broadcast, unspecified, multicast, loopback,
/// link-local, the responder's own address, IPv4-mapped / -compatible / NAT64 IPv6 forms), as a
/// datagram and / or behind [SYN, data]; judged by the reference model (which applies the deny
/// list and nothing else to source addresses).
pub fn source_alphabet_stage(rep: &mut Report, env: &AppEnv, stage: &str, payload: &[u8], tcp: bool, udp: bool) {
    let t0 = std::time::Instant::now();
    let s4: Vec<Ip> = vec![cli4(), cli4b(), Ip::V4([0, 0, 0, 0]), Ip::V4([255, 255, 255, 255]), Ip::V4([10, 0, 1, 255]), Ip::V4([10, 0, 0, 255]), Ip::V4([10, 0, 1, 0]), Ip::V4([224, 0, 0, 9]), Ip::V4([127, 0, 0, 1]), Ip::V4([169, 254, 1, 1]), srv4(), Ip::V4([192, 0, 2, 255]), Ip::V4([1, 255, 255, 255])];
    let s6: Vec<Ip> = ["2001:db8::9", "2001:db8::a", "::ffff:10.0.0.9", "::10.0.0.9", "::", "::1", "fe80::9", "ff02::9", "2001:db8::1", "2001:db8::ff", "64:ff9b::a00:9", "2001:db8::ffff:ffff:ffff:ffff", "::ffff:10.0.1.255"].iter().map(|a| Ip::parse(a)).collect();
    // and every value of every byte of the client address (the others as in the usual client's)
    let mut s4 = s4;
    let mut s6 = s6;
    let nforms = s4.len() + s6.len();
    if let Ip::V4(b) = cli4() {
        for pos in 0..4 {
            for val in 0..=255u8 {
                let mut a = b;
                a[pos] = val;
                s4.push(Ip::V4(a));
            }
        }
    }
    if let Ip::V6(b) = cli6() {
        for pos in 0..16 {
            for val in 0..=255u8 {
                let mut a = b;
                a[pos] = val;
                s6.push(Ip::V6(a));
            }
        }
    }
    let _ = nforms;
    let n = (s4.len() + s6.len()) as u64;
    let key = env.cfg.key;
    let modes: Vec<bool> = [(udp, false), (tcp, true)].iter().filter(|m| m.0).map(|m| m.1).collect();
    let nm = modes.len() as u64;
    let opts = RunOpts::new(stage).stateful().chunk(64);
    engine::run(
        &env.cfg,
        n * nm,
        &opts,
        |i| {
            let k = (i / nm) as usize;
            let v6 = k >= s4.len();
            let mut f = flow(v6, 40000, 3478);
            f.cip = if v6 { s6[k - s4.len()] } else { s4[k] };
            if modes[(i % nm) as usize] {
                let c = crate::sip::cookie_guess(key, &f.cip, &f.sip, f.cport, f.sport);
                vec![Cmd::Frame(f.tcp(100, 0, F_SYN, b"")), Cmd::Frame(f.tcp(101, c.wrapping_add(1), F_PSH | F_ACK, payload))]
            } else {
                vec![Cmd::Frame(f.udp(payload))]
            }
        },
        |_it: &Item, _s: &mut Sink| {},
        &mut rep.sink,
    );
    rep.stage(stage, "one request from 13 IPv4 and 13 IPv6 forms of client address (.255 / .0 host addresses, broadcast, unspecified, multicast, loopback, link-local, the responder's own, IPv4-mapped / -compatible / NAT64) and from every value 0..255 of each of the 4 / 16 bytes of the client address, as datagram and / or behind [SYN, data], monitored", n * nm, t0);
}

/// Datagrams whose source port EQUALS their destination port (53 -> 53, 5353 -> 5353, every N ->
/// N) and whose source address is a neighbour of the destination: an ordinary request.
pub fn equal_ports_stage(rep: &mut Report, env: &AppEnv, stage: &str, payload: &[u8]) {
    let t0 = std::time::Instant::now();
    let opts = RunOpts::new(stage);
    engine::run(
        &env.cfg,
        65536 * 2,
        &opts,
        |i| vec![Cmd::Frame(flow(i >= 65536, i as u16, i as u16).udp(payload))],
        |_it: &Item, _s: &mut Sink| {},
        &mut rep.sink,
    );
    rep.stage(stage, "one request as a datagram from port N to port N, all 65536 N x {v4,v6} (monitor)", 65536 * 2, t0);
}

/// Busy responder: the first segment of each conversation, then `nfill` OTHER connections (each
/// one valid first data segment: junk / a complete HTTP request / a partial one / an SSH banner)
/// through the same process, then the rest of each conversation with the acknowledgement number
/// advanced past the replies received so far, as a real client does.  Every reply must equal the
/// one the same conversation gets from an idle process (table caps, pruning, wear-out).
pub fn busy_stage(rep: &mut Report, cfg: &Cfg, prop: &'static str, stage: &str, convs: &[(String, Vec<Vec<u8>>)], nfill: usize) {
    let t0 = std::time::Instant::now();
    let flows: Vec<Flow> = (0..convs.len()).map(|j| flow(j % 2 == 1, 41000 + j as u16, 80)).collect();
    // the same conversations once more on flows that only START when the table is already busy
    let late: Vec<Flow> = (0..convs.len()).map(|j| flow(j % 2 == 0, 43000 + j as u16, 80)).collect();
    let both: Vec<Flow> = flows.iter().chain(late.iter()).cloned().collect();
    let ck = match learn_cookies(cfg, &both) {
        Ok(c) if c.len() == both.len() => c,
        _ => {
            rep.extra.insert(format!("{}_skipped", stage), serde_json::json!("cookies of the conversation flows could not be learned"));
            return;
        }
    };
    // idle-process runs: expected canonical replies and reply lengths
    let canon = |r: Option<&[u8]>| crate::props::c19::canon_for("", r, true);
    let mut want: Vec<Vec<String>> = Vec::new();
    let mut want_late: Vec<Vec<String>> = Vec::new();
    let mut acks: Vec<Vec<u32>> = Vec::new();
    {
        let mut d = match crate::driver::Driver::spawn(cfg) {
            Ok(d) => d,
            Err(e) => {
                rep.sink.machinery_errors.push(e);
                return;
            }
        };
        for (j, (_, segs)) in convs.iter().enumerate() {
            let f = &flows[j];
            let c = ck[&key_of(f)].wrapping_add(1);
            let mut cmds = vec![Cmd::Reset];
            let mut off = 0u32;
            for sg in segs {
                cmds.push(Cmd::Frame(f.tcp(1000u32.wrapping_add(off), c, F_PSH | F_ACK, sg)));
                off = off.wrapping_add(sg.len() as u32);
            }
            let outs = d.exec(&cmds).unwrap_or_default();
            let mut w = Vec::new();
            let mut a = vec![c];
            let mut got = 0u32;
            for o in outs.iter().skip(1) {
                w.push(canon(o.reply.as_deref()));
                got = got.wrapping_add(o.reply.as_deref().and_then(crate::mask::app_payload).map(|(_, p)| p.len() as u32).unwrap_or(0));
                a.push(c.wrapping_add(got));
            }
            want.push(w);
            acks.push(a);
            // the same conversation on its late flow (replies may carry the client's endpoint)
            let f = &late[j];
            let c = ck[&key_of(f)].wrapping_add(1);
            let mut cmds = vec![Cmd::Reset];
            let mut off = 0u32;
            for sg in segs {
                cmds.push(Cmd::Frame(f.tcp(1000u32.wrapping_add(off), c, F_PSH | F_ACK, sg)));
                off = off.wrapping_add(sg.len() as u32);
            }
            let outs = d.exec(&cmds).unwrap_or_default();
            want_late.push(outs.iter().skip(1).map(|o| canon(o.reply.as_deref())).collect());
        }
    }
    let fill = crate::props::c07::many_flow_set(cfg, nfill, 8000, rep);
    if fill.len() < nfill / 2 {
        rep.extra.insert(format!("{}_skipped", stage), serde_json::json!(format!("only {} of {} filler cookies could be learned", fill.len(), nfill)));
        return;
    }
    let mut cmds: Vec<Cmd> = Vec::new();
    let mut pos: Vec<Vec<usize>> = vec![Vec::new(); convs.len()];
    for (j, (_, segs)) in convs.iter().enumerate() {
        pos[j].push(cmds.len());
        cmds.push(Cmd::Frame(flows[j].tcp(1000, acks[j][0], F_PSH | F_ACK, &segs[0])));
    }
    for (k, (f, g)) in fill.iter().enumerate() {
        let pl: &[u8] = match k % 4 {
            0 => b"x",
            1 => b"GET /busy HTTP/1.1\r\nHost: x\r\n\r\n",
            2 => b"GET ",
            _ => b"SSH-2.0-busy\r\n",
        };
        cmds.push(Cmd::Frame(f.tcp(1, g.wrapping_add(1), F_PSH | F_ACK, pl)));
    }
    for (j, (_, segs)) in convs.iter().enumerate() {
        let mut off = segs[0].len() as u32;
        for (k, sg) in segs.iter().enumerate().skip(1) {
            pos[j].push(cmds.len());
            cmds.push(Cmd::Frame(flows[j].tcp(1000u32.wrapping_add(off), acks[j][k], F_PSH | F_ACK, sg)));
            off = off.wrapping_add(sg.len() as u32);
        }
    }
    let mut late_pos: Vec<Vec<usize>> = vec![Vec::new(); convs.len()];
    for (j, (_, segs)) in convs.iter().enumerate() {
        let c = ck[&key_of(&late[j])].wrapping_add(1);
        let mut off = 0u32;
        for (k, sg) in segs.iter().enumerate() {
            late_pos[j].push(cmds.len());
            cmds.push(Cmd::Frame(late[j].tcp(1000u32.wrapping_add(off), c.wrapping_add(acks[j][k].wrapping_sub(acks[j][0])), F_PSH | F_ACK, sg)));
            off = off.wrapping_add(sg.len() as u32);
        }
    }
    let total = cmds.len() as u64;
    let opts = RunOpts::new(stage).stateful().chunk(1).no_monitor();
    let cfgc = cfg.clone();
    engine::run(
        cfg,
        1,
        &opts,
        |_| cmds.clone(),
        |it: &Item, sk: &mut Sink| {
            sk.count("frames", total);
            for (j, (name, _)) in convs.iter().enumerate() {
                for (k, p) in late_pos[j].iter().enumerate() {
                    let got = canon(it.outs[1 + p].reply.as_deref());
                    if got != want_late[j][k] {
                        sk.violation(crate::engine::Violation {
                            prop: prop.into(),
                            key: format!("busy-responder-late:{}", name),
                            what: format!("conversation '{}' started after {} other connections, segment {}: the reply is {} instead of {} (idle process)", name, fill.len(), k + 1, &got[..got.len().min(80)], &want_late[j][k][..want_late[j][k].len().min(80)]),
                            cfg: cfgc.clone(),
                            cmds: it.cmds[..=1 + p].to_vec(),
                            idx: j as u64,
                            stage: stage.to_string(),
                        });
                        break;
                    }
                }
            }
            for (j, (name, _)) in convs.iter().enumerate() {
                for (k, p) in pos[j].iter().enumerate() {
                    let got = canon(it.outs[1 + p].reply.as_deref());
                    if got != want[j][k] {
                        sk.violation(crate::engine::Violation {
                            prop: prop.into(),
                            key: format!("busy-responder:{}", name),
                            what: format!("conversation '{}', segment {}: with {} other connections between its first and its later segments the reply is {} instead of {} (idle process)", name, k + 1, fill.len(), &got[..got.len().min(80)], &want[j][k][..want[j][k].len().min(80)]),
                            cfg: cfgc.clone(),
                            cmds: it.cmds[..=1 + p].to_vec(),
                            idx: j as u64,
                            stage: stage.to_string(),
                        });
                        break;
                    }
                }
            }
        },
        &mut rep.sink,
    );
    rep.stage(stage, &format!("{} conversations: first segment, then {} other connections (junk / complete HTTP / partial HTTP / SSH banner) through the same process, then the remaining segments with acknowledgement numbers advanced past the replies: every reply equals the idle-process reply", convs.len(), fill.len()), total, t0);
}

/// Sibling connections: one client endpoint (address, port) talks to TWO local addresses on the
/// same destination port (the second handled address, an address in the same /64 / the same /24,
/// the IPv4-mapped twin).  Connection A carries the first segment of one conversation; connection
/// B then carries ANOTHER conversation in full.  Every reply on B must equal the one B gets from an
/// idle process (connections are told apart by all four tuple members, all of their bits).
pub fn sibling_conv_stage(rep: &mut Report, cfg: &Cfg, prop: &'static str, stage: &str, convs: &[(String, Vec<Vec<u8>>)]) {
    let t0 = std::time::Instant::now();
    let canon = |r: Option<&[u8]>| crate::props::c19::canon_for("", r, true);
    let pairs: Vec<(Ip, Ip)> = vec![
        (srv6(), srv6b()),
        (Ip::parse("2001:db8:0:2::a"), Ip::parse("2001:db8:0:2::b")),
        (Ip::parse("2001:db8:0:2:1::1"), Ip::parse("2001:db8:0:2:2::1")),
        (Ip::parse("2001:db8::1"), Ip::parse("2001:db8:0:1::1")),
        (srv4(), srv4b()),
        (Ip::V4([10, 0, 0, 1]), Ip::V4([10, 0, 1, 1])),
        (Ip::V4([10, 0, 0, 1]), Ip::V4([10, 0, 0, 2])),
    ];
    let mut flows: Vec<(Flow, Flow)> = Vec::new();
    for (a, b) in &pairs {
        let mut fa = flow(!a.is_v4(), 40000, 80);
        fa.sip = *a;
        let mut fb = fa.clone();
        fb.sip = *b;
        flows.push((fa, fb));
    }
    // connections between the SAME two addresses whose port pairs are neighbours (source port +-1,
    // destination port + 256 k): every ordered pair of a 3 x 3 grid, per IP version
    let naddr_pairs = flows.len();
    let grid: Vec<(u16, u16)> = [39999u16, 40000, 40001].iter().flat_map(|s| [80u16, 336, 592].iter().map(move |d| (*s, *d))).collect();
    for v6 in [false, true] {
        for a in &grid {
            for b in &grid {
                if a != b {
                    flows.push((flow(v6, a.0, a.1), flow(v6, b.0, b.1)));
                }
            }
        }
    }
    let all: Vec<Flow> = flows.iter().flat_map(|p| [p.0.clone(), p.1.clone()]).collect();
    let ck = learn_cookies(cfg, &all).unwrap_or_default();
    let mut d = match crate::driver::Driver::spawn(cfg) {
        Ok(d) => d,
        Err(e) => {
            rep.sink.machinery_errors.push(e);
            return;
        }
    };
    let conv_cmds = |f: &Flow, segs: &[Vec<u8>]| -> Vec<Cmd> {
        let c = ck.get(&key_of(f)).copied().unwrap_or(0).wrapping_add(1);
        let mut off = 0u32;
        let mut v = Vec::new();
        for sg in segs {
            v.push(Cmd::Frame(f.tcp(1000u32.wrapping_add(off), c, F_PSH | F_ACK, sg)));
            off = off.wrapping_add(sg.len() as u32);
        }
        v
    };
    let mut n = 0u64;
    for (pi, (fa, fb)) in flows.iter().enumerate() {
        if !ck.contains_key(&key_of(fa)) || !ck.contains_key(&key_of(fb)) {
            continue;
        }
        for (y, (yname, ysegs)) in convs.iter().enumerate() {
            // (port neighbours: every fourth conversation, rotating with the pair)
            if pi >= naddr_pairs && (y + pi) % 4 != 0 {
                continue;
            }
            // B alone
            let mut alone = vec![Cmd::Reset];
            alone.extend(conv_cmds(fb, ysegs));
            let want: Vec<String> = d.exec(&alone).unwrap_or_default().iter().skip(1).map(|o| canon(o.reply.as_deref())).collect();
            for x in [(y + 1) % convs.len(), (y + 5) % convs.len()] {
                let (xname, xsegs) = &convs[x];
                let mut cmds = vec![Cmd::Reset];
                cmds.extend(conv_cmds(fa, &xsegs[..1]));
                cmds.extend(conv_cmds(fb, ysegs));
                let outs = d.exec(&cmds).unwrap_or_default();
                n += cmds.len() as u64 - 1;
                for k in 0..ysegs.len() {
                    let got = canon(outs.get(2 + k).and_then(|o| o.reply.as_deref()));
                    if Some(&got) != want.get(k) {
                        rep.sink.violation(crate::engine::Violation {
                            prop: prop.into(),
                            key: format!("sibling-connection:{}", yname),
                            what: format!("conversation '{}' to {} ports {}>{} (segment {}): after the same client sent the first segment of '{}' to {} ports {}>{} the reply is {} instead of {} (idle process)", yname, fb.sip, fb.cport, fb.sport, k + 1, xname, fa.sip, fa.cport, fa.sport, &got[..got.len().min(80)], want.get(k).map(|w| &w[..w.len().min(80)]).unwrap_or("-")),
                            cfg: cfg.clone(),
                            cmds: cmds[..=2 + k].to_vec(),
                            idx: n,
                            stage: stage.to_string(),
                        });
                        break;
                    }
                }
            }
        }
    }
    rep.sink.count("frames", n);
    rep.stage(stage, &format!("7 pairs of local addresses (second handled address, same /64 with other interface identifiers, other /64, same and other /24) x {} conversations on B x 2 first segments on A, one client endpoint; and 144 ordered pairs of connections between the same two addresses with neighbouring port pairs (source 39999..40001 x destination 80 / 336 / 592, per IP version) x every fourth conversation: B answered as by an idle process", convs.len()), n, t0);
}

/// Conversations on a flow whose SYN cookie is an edge value (0xffffffff / 0 / 0xfffffffe / 1, by
/// choice of key; confirmed against the real SYN-ACK): the client's acknowledgement numbers wrap
/// through 0 as it acknowledges the replies.  Every reply must equal the one the same conversation
/// gets when the acknowledgement number is held at cookie + 1.
pub fn edge_conv_stage(rep: &mut Report, prop: &'static str, stage: &str, convs: &[(String, Vec<Vec<u8>>)]) {
    let t0 = std::time::Instant::now();
    let edge: [([u64; 2], u32); 4] = [([0xdcdce3a2, 0x5eed], 0xffff_ffff), ([0x45a0fb78, 0x5eed], 0), ([0x45a99a18, 0x5eed], 0xffff_fffe), ([0x32b774b09, 0x5eed], 1)];
    let canon = |r: Option<&[u8]>| crate::props::c19::canon_for("", r, true);
    let f = flow4(40000, 80);
    let mut n = 0u64;
    let mut confirmed = 0u64;
    for (key, cookie) in edge {
        let ecfg = Cfg::base().with_key(key);
        let mut d = match crate::driver::Driver::spawn(&ecfg) {
            Ok(d) => d,
            Err(e) => {
                rep.sink.machinery_errors.push(e);
                continue;
            }
        };
        let syn = d.exec(&[Cmd::Reset, Cmd::Frame(f.tcp(5, 0, F_SYN, b""))]).map(|v| v[1].clone()).unwrap_or_default();
        if syn.reply.as_deref().and_then(synack_seq) != Some(cookie) {
            continue;
        }
        confirmed += 1;
        let c = cookie.wrapping_add(1);
        for (name, segs) in convs {
            // held acknowledgement number: expected replies and their lengths
            let mut cmds = vec![Cmd::Reset];
            let mut off = 0u32;
            for sg in segs {
                cmds.push(Cmd::Frame(f.tcp(1000u32.wrapping_add(off), c, F_PSH | F_ACK, sg)));
                off = off.wrapping_add(sg.len() as u32);
            }
            let held = d.exec(&cmds).unwrap_or_default();
            // advancing acknowledgement number
            let mut cmds2 = vec![Cmd::Reset];
            let mut off = 0u32;
            let mut got = 0u32;
            for (k, sg) in segs.iter().enumerate() {
                cmds2.push(Cmd::Frame(f.tcp(1000u32.wrapping_add(off), c.wrapping_add(got), F_PSH | F_ACK, sg)));
                off = off.wrapping_add(sg.len() as u32);
                got = got.wrapping_add(held.get(1 + k).and_then(|o| o.reply.as_deref()).and_then(crate::mask::app_payload).map(|(_, p)| p.len() as u32).unwrap_or(0));
            }
            let adv = d.exec(&cmds2).unwrap_or_default();
            n += segs.len() as u64 * 2;
            for k in 0..segs.len() {
                let a = canon(held.get(1 + k).and_then(|o| o.reply.as_deref()));
                let b = canon(adv.get(1 + k).and_then(|o| o.reply.as_deref()));
                if a != b {
                    rep.sink.violation(crate::engine::Violation {
                        prop: prop.into(),
                        key: format!("edge-cookie-conversation:{}", name),
                        what: format!("conversation '{}' on a flow whose SYN cookie is {:#010x}, segment {}: with the acknowledgement number advanced past the replies the answer is {} instead of {}", name, cookie, k + 1, &b[..b.len().min(80)], &a[..a.len().min(80)]),
                        cfg: ecfg.clone(),
                        cmds: cmds2[..=1 + k].to_vec(),
                        idx: n,
                        stage: stage.to_string(),
                    });
                    break;
                }
            }
        }
    }
    rep.sink.count("edge_cookie_keys_confirmed", confirmed);
    rep.stage(stage, &format!("{} conversations x 4 keys under which the flow's SYN cookie is 0xffffffff / 0 / 0xfffffffe / 1: acknowledgement numbers held at cookie + 1 vs advanced past the replies (wrapping through 0)", convs.len()), n, t0);
}

/// The conversations of the busy-responder stages (name, segments).
pub fn busy_convs() -> Vec<(String, Vec<Vec<u8>>)> {
    let http = b"GET /b HTTP/1.1\r\nHost: x\r\n\r\n".to_vec();
    let rpc = apprpc::with_record_mark(&apprpc::build_call(0x61626364, 2, 100000, 2, 3, &[], &[0, 0, 0, 0x6f, 0, 0, 0, 2, 0, 0, 0, 6, 0, 0, 0, 0]));
    let dump = apprpc::with_record_mark(&apprpc::build_call(0x61626365, 2, 100000, 4, 4, &[], &[]));
    let pad = stun_attr(0x8022, &[b'x'; 252]);
    let stun_big = stun_magic(&[pad.clone(), stun_attr(3, &[0, 0, 0, 2])].concat(), &ID12);
    let mut v: Vec<(String, Vec<Vec<u8>>)> = vec![
        ("http-two-segments".into(), vec![http[..9].to_vec(), http[9..].to_vec()]),
        ("http-cut-in-signature".into(), vec![http[..2].to_vec(), http[2..].to_vec()]),
        ("http-keep-alive".into(), vec![http.clone(), http.clone()]),
        ("ssh-cut-in-signature".into(), vec![b"SSH-".to_vec(), b"2.0-x\r\n".to_vec()]),
        ("ssh-two-banners".into(), vec![b"SSH-2.0-a\r\n".to_vec(), b"SSH-2.0-b\r\n".to_vec()]),
        ("ghost-two-messages".into(), vec![ghost_request(), ghost_request()]),
        ("rpc-two-segments".into(), vec![rpc[..20].to_vec(), rpc[20..].to_vec()]),
        ("rpc-two-calls".into(), vec![rpc.clone(), dump.clone()]),
        ("smb1-negotiate-session".into(), vec![appsmb::smb1_negotiate(&Smb1Hdr::new(0x72), &["NT LM 0.12"]), appsmb::smb1_session_setup(&Smb1Hdr::new(0x73), &[7; 8])]),
        ("smb2-negotiate-session".into(), vec![appsmb::smb2_negotiate(&Smb2Hdr::new(0), &[0x0202, 0x0311], &[5; 16]), appsmb::smb2_session_setup(&Smb2Hdr::new(1), &[7; 8])]),
        ("stun-two-requests".into(), vec![stun_big.clone(), stun_magic(&[], &ID12)]),
        ("junk-then-junk".into(), vec![b"zz".to_vec(), b"zzzz".to_vec()]),
    ];
    v.push(("http-three-segments".into(), vec![http[..4].to_vec(), http[4..20].to_vec(), http[20..].to_vec()]));
    v
}

/// Every 16-bit word position (both alignments) of a few requests x a value set: quick = 0..511,
/// every multiple of 256 and every multiple of 256 plus 255, the 22 edge values, each in both
/// byte orders; thorough = all 65536 values.  Thresholds on a length / size / count field that
/// nobody varies show up here.
pub fn all_words_stage(rep: &mut Report, env: &AppEnv, stage: &str, bases: &[Vec<u8>], tcp: bool, thorough: bool) {
    let mut vals: Vec<u16> = if thorough { (0..=0xffffu32).map(|v| v as u16).collect() } else { (0..512u16).collect() };
    if !thorough {
        for k in 0..256u16 {
            vals.push(k << 8);
            vals.push((k << 8) | 0xff);
        }
        vals.extend(crate::deviate::EDGE16.iter().map(|v| *v as u16));
        let sw: Vec<u16> = vals.iter().map(|v| v.swap_bytes()).collect();
        vals.extend(sw);
        vals.sort();
        vals.dedup();
    }
    let mut plan: Vec<(usize, usize)> = Vec::new();
    for (b, base) in bases.iter().enumerate() {
        for p in 0..base.len().saturating_sub(1) {
            plan.push((b, p));
        }
    }
    let path = if tcp { Path { tcp: true, v6: false, ports: 0 } } else { Path { tcp: false, v6: true, ports: 1 } };
    let nv = vals.len() as u64;
    sweep_app(rep, env, stage, &format!("{} requests x every 16-bit word position (both alignments) x {} values", bases.len(), nv), plan.len() as u64 * nv, |i| {
        let d = unrank(i, &[plan.len() as u64, nv]);
        let (b, p) = plan[d[0] as usize];
        let mut r = bases[b].clone();
        let v = vals[d[1] as usize];
        r[p] = (v >> 8) as u8;
        r[p + 1] = v as u8;
        (path, r)
    });
}

/// The envelope of a request does not shape the answer: one complete request over {TCP, UDP} x
/// {v4, v6} with every single departure of one L3 / L4 header field (all 256 values of 1-byte
/// fields, edge values of wider ones), once as is and once with the checksums recomputed the
/// way a sender would; every frame judged by the reference model (which knows which departures
/// make the frame unanswerable).
pub fn envelope_stage(rep: &mut Report, env: &AppEnv, stage: &str, req: &[u8], tcp: bool, udp: bool) {
    let t0 = std::time::Instant::now();
    let mut bases: Vec<Vec<u8>> = Vec::new();
    for v6 in [false, true] {
        let (a, b) = PORT_PAIRS[v6 as usize];
        let f = flow(v6, a, b);
        if tcp {
            let c = env.cookies[&key_of(&f)].wrapping_add(1);
            bases.push(f.tcp(1000, c, F_PSH | F_ACK, req));
        }
        if udp {
            bases.push(f.udp(req));
        }
    }
    let mut plan: Vec<(usize, crate::deviate::Field, u32)> = Vec::new();
    for (bi, b) in bases.iter().enumerate() {
        for fd in crate::deviate::header_fields(b) {
            let mut vals = crate::deviate::field_values(&fd);
            if fd.name == "tcp.window" || fd.name == "tcp.urgent" {
                vals.extend(0..64u32);
                vals.sort();
                vals.dedup();
            }
            for v in vals {
                plan.push((bi, fd.clone(), v));
            }
        }
    }
    // structural departures: the same frame behind 8 well-formed IPv4 option areas
    let mut structural: Vec<Vec<u8>> = Vec::new();
    for b in &bases {
        for o in ipv4_option_sets() {
            if let Some(fr) = with_ipv4_options(b, &o) {
                structural.push(fr);
            }
        }
    }
    let nplan = plan.len() as u64 * 2;
    let total = nplan + structural.len() as u64;
    let opts = RunOpts::new(stage).stateful().chunk(128).no_monitor();
    engine::run(
        &env.cfg,
        total,
        &opts,
        |i| {
            if i >= nplan {
                return vec![Cmd::Frame(structural[(i - nplan) as usize].clone())];
            }
            let (bi, fd, v) = &plan[(i / 2) as usize];
            let mut fr = bases[*bi].clone();
            crate::deviate::set_field(&mut fr, fd, *v);
            if i % 2 == 1 && !fd.name.ends_with("checksum") {
                refresh_checksums(&mut fr);
            }
            vec![Cmd::Frame(fr)]
        },
        |it: &Item, sk: &mut Sink| {
            let model = Model::new();
            engine::judge_item(&env.cfg, &model, &env.cookies, it, it.cmds.len(), stage, sk);
            sk.count("frames", 1);
        },
        &mut rep.sink,
    );
    rep.stage(stage, "one complete request over {TCP, UDP as applicable} x {v4,v6} x every single departure of one IP / TCP / UDP header field (all values of 1-byte fields, 22 / 16 edge values of wider ones, windows and urgent pointers 0..63) x {as is, checksums recomputed}; and behind 8 well-formed IPv4 option areas (NOPs of 4 / 8 / 40 bytes, router alert, timestamp, record route, end-of-list)", total, t0);
}

/// The peer's advertised window (and urgent pointer) do not shape the answer: one complete
/// request on a fresh validated flow with every window 0..nwin-1, 8 larger ones x urgent pointers.
pub fn window_stage(rep: &mut Report, env: &AppEnv, stage: &str, req: &[u8], nwin: u64) {
    let t0 = std::time::Instant::now();
    let opts = RunOpts::new(stage).stateful().chunk(128).no_monitor();
    let f4 = flow(false, PORT_PAIRS[0].0, PORT_PAIRS[0].1);
    let c4 = env.cookies[&key_of(&f4)].wrapping_add(1);
    engine::run(
        &env.cfg,
        nwin + 64 + 256 + 8,
        &opts,
        |i| {
            let mut seg = TcpSeg::new(f4.cport, f4.sport, 1000, c4, F_PSH | F_ACK, req);
            if i < nwin {
                seg.window = i as u16;
            } else if i >= nwin + 64 + 256 {
                // the request in a segment that also carries FIN (one-shot clients), with the other
                // flag bits next to it
                let k = i - nwin - 64 - 256;
                seg.flags |= F_FIN | [0u16, F_URG, 0x40, 0x80, 0x100, F_URG | 0x40, 0xc0, F_URG | 0x100][k as usize];
            } else if i >= nwin + 64 {
                // URG set, urgent pointer 0..127 (i.e. pointing at every byte of a short request), with
                // and without ECE next to it
                let k = i - nwin - 64;
                seg.urg = (k % 128) as u16;
                seg.flags |= F_URG | if k >= 128 { 0x40 } else { 0 };
            } else {
                seg.window = [1024u16, 1460, 4096, 8192, 16384, 32768, 65534, 65535][(i % 8) as usize];
                seg.urg = [0u16, 1, 5, 100, 1000, 65535, 17, 2][((i - nwin) / 8) as usize];
                if (i - nwin) / 8 >= 4 {
                    seg.flags |= F_URG;
                }
            }
            vec![Cmd::Frame(f4.tcp_seg(&seg))]
        },
        |it: &Item, sk: &mut Sink| {
            let model = Model::new();
            engine::judge_item(&env.cfg, &model, &env.cookies, it, it.cmds.len(), stage, sk);
            sk.count("frames", 1);
        },
        &mut rep.sink,
    );
    rep.stage(stage, &format!("a complete request with every advertised window 0..{} and 8 larger ones x urgent pointer values / URG flag; URG (and URG|ECE) with every urgent pointer 0..127; PSH|ACK|FIN with 8 sets of further flag bits", nwin - 1), nwin + 64 + 256 + 8, t0);
}

pub fn run_c13(rep: &mut Report, thorough: bool) {
    rep.rule = "request grammar product (9 methods x 11 targets incl. non-UTF-8 and lengths 1..1300 (the longest still fits one segment) x 4 versions x header lists of length 0..2 over 4 headers x 3 line-end modes x with/without body) and, for a core subset, EVERY single-byte deletion, every substitution and insertion from an 11-symbol alphabet at every position, and every proper prefix; over UDP and a fresh validated TCP flow, 2 port pairs, both IP versions; each judged by the independent recogniser of the statement's grammar and the response validator (status line, WWW-Authenticate, Content-Length == body bytes); ADDED LATER: every 1-cut (and 2-cuts in the head; thorough: all 2-cuts) of core requests over TCP, keep-alive (second and third request on a connection), 300-request connections, depth-2 pair histories of whole / truncated / corrupted datagrams, thorough: all 65536 values of every adjacent byte pair of 3 requests".into();
    rep.assumptions = vec!["abstentions (lenient corners the statement does not settle): empty version numerals, a CR not followed by LF, request-target containing CR/LF, header line starting with ':'".into()];
    let reqs = http_requests();
    let core = http_core();
    for env in envs(rep) {
        let tag = if env.cfg.self_ips.is_empty() { "plain" } else if env.cfg.level == crate::driver::Level::Trace { "lists-trace-dev" } else { "lists" };
        let paths = all_paths();
        let np: u64 = if thorough { paths.len() as u64 } else { 4 };
        let sel = |k: u64| if thorough { paths[k as usize] } else { [Path { tcp: false, v6: false, ports: 0 }, Path { tcp: true, v6: true, ports: 1 }, Path { tcp: false, v6: true, ports: 1 }, Path { tcp: true, v6: false, ports: 0 }][k as usize] };
        let stride: u64 = 1;
        let n = reqs.len() as u64 / stride;
        sweep_app(rep, &env, &format!("http-grammar-{}", tag), "request grammar product x transport/IP/port paths", n * np, |i| (sel(i % np), reqs[((i / np) * stride + (i % stride)) as usize % reqs.len()].clone()));
        // request-target length: every length 1..1400 (all fit one segment / datagram)
        sweep_app(rep, &env, &format!("http-target-length-{}", tag), "GET with a request-target of every length 1..1400 (fill: ASCII, 0xff, 2-byte UTF-8 at both alignments) x {UDP, TCP}", 1400 * 2 * 4, |i| {
            let fillk = (i / 2800) as usize;
            let i = i % 2800;
            let n = (i / 2 + 1) as usize;
            let mut r = b"GET /".to_vec();
            let mut body: Vec<u8> = match fillk {
                0 => vec![b'y'; n],
                1 => vec![0xff; n],
                2 => [0xc3u8, 0xa9].iter().cycle().take(n).cloned().collect(),
                _ => [b'a'].iter().chain([0xc3u8, 0xa9].iter().cycle()).take(n).cloned().collect(),
            };
            body.truncate(n - 1);
            r.extend(body);
            r.extend_from_slice(b" HTTP/1.1\r\nHost: x\r\n\r\n");
            (if i % 2 == 0 { Path { tcp: false, v6: false, ports: 0 } } else { Path { tcp: true, v6: true, ports: 1 } }, r)
        });
        sweep_app(rep, &env, &format!("http-header-length-{}", tag), "one header whose value (even i) or name (odd i) has every length 0..1350 x {UDP, TCP}", 1351 * 2 * 2, |i| {
            let d = unrank(i, &[1351, 2, 2]);
            let n = d[0] as usize;
            let mut r = b"POST /f HTTP/1.0\n".to_vec();
            if d[1] == 0 {
                r.extend_from_slice(b"V:");
                r.extend(std::iter::repeat(b'v').take(n));
            } else {
                r.extend(std::iter::repeat(b'N').take(n + 1));
                r.extend_from_slice(b": x");
            }
            r.extend_from_slice(b"\n\n");
            (if d[2] == 0 { Path { tcp: false, v6: true, ports: 1 } } else { Path { tcp: true, v6: false, ports: 0 } }, r)
        });
        // round 21: requests far longer than one segment.  A request-target / header value / header
        // name / number of header lines of every length 2^k - 1, 2^k, 2^k + 1 (k = 10..16) and the
        // multiples of 1000 up to 20 000, sent as a stream of 1400-byte segments on one connection:
        // only the segment that completes the request is answered, with the 401
        {
            let mut lens: Vec<usize> = Vec::new();
            for k in 10..=16u32 {
                for d in [-1i64, 0, 1] {
                    lens.push(((1i64 << k) + d) as usize);
                }
            }
            for m in 2..=20 {
                lens.push(m * 1000);
            }
            lens.sort();
            lens.dedup();
            let nl = lens.len() as u64;
            sweep_conv(rep, &env, &format!("http-long-streams-{}", tag), "4 growing fields (request-target, header value, header name, number of header lines) x 40 lengths (2^k - 1, 2^k, 2^k + 1 for k = 10..16; multiples of 1000 up to 20000) x {v4,v6}, as 1400-byte segments of one connection", nl * 4 * 2, |i| {
                let d = unrank(i, &[nl, 4, 2]);
                let n = lens[d[0] as usize];
                let mut r: Vec<u8> = Vec::new();
                match d[1] {
                    0 => {
                        r.extend_from_slice(b"GET /");
                        r.extend(std::iter::repeat(b't').take(n - 1));
                        r.extend_from_slice(b" HTTP/1.1\r\nHost: x\r\n\r\n");
                    }
                    1 => {
                        r.extend_from_slice(b"POST /f HTTP/1.0\r\nV: ");
                        r.extend(std::iter::repeat(b'v').take(n));
                        r.extend_from_slice(b"\r\n\r\n");
                    }
                    2 => {
                        r.extend_from_slice(b"HEAD / HTTP/1.1\n");
                        r.extend(std::iter::repeat(b'N').take(n));
                        r.extend_from_slice(b": x\n\n");
                    }
                    _ => {
                        r.extend_from_slice(b"GET /h HTTP/1.1\r\n");
                        while r.len() < n {
                            r.extend_from_slice(b"A: b\r\n");
                        }
                        r.extend_from_slice(b"\r\n");
                    }
                }
                let segs: Vec<Vec<u8>> = r.chunks(1400).map(|c| c.to_vec()).collect();
                (Path { tcp: true, v6: d[2] == 1, ports: d[2] as usize }, segs)
            });
        }
        // every byte value at every position of three short requests (which bytes end a method, a
        // target, a version, a header line is decided by the grammar, not by a character class)
        {
            let bases: [&[u8]; 3] = [b"GET /ab HTTP/1.1\r\nH: v\r\n\r\n", b"POST /p?q HTTP/1.0\nA:b\n\nxy", b"OPTIONS * HTTP/1.1\r\n\r\n"];
            let mut plan: Vec<(usize, usize)> = Vec::new();
            for (b, base) in bases.iter().enumerate() {
                for p in 0..base.len() {
                    plan.push((b, p));
                }
            }
            sweep_app(rep, &env, &format!("http-all-byte-values-{}", tag), "3 short requests x every position x all 256 byte values x {UDP v4, TCP v6}", plan.len() as u64 * 256 * 2, |i| {
                let d = unrank(i, &[plan.len() as u64, 256, 2]);
                let (b, p) = plan[d[0] as usize];
                let mut r = bases[b].to_vec();
                r[p] = d[1] as u8;
                (if d[2] == 0 { Path { tcp: false, v6: false, ports: 0 } } else { Path { tcp: true, v6: true, ports: 1 } }, r)
            });
        }
        // single faults
        let ncore: usize = if thorough { core.len() } else { 24 };
        let cstep = core.len() / ncore;
        let mut offs: Vec<u64> = vec![0];
        for k in 0..ncore {
            offs.push(offs[k] + fault_count(&core[k * cstep]));
        }
        let total = *offs.last().unwrap();
        let np2: u64 = if thorough { 4 } else { 2 };
        let sel2 = |k: u64| [Path { tcp: false, v6: false, ports: 0 }, Path { tcp: true, v6: false, ports: 0 }, Path { tcp: false, v6: true, ports: 1 }, Path { tcp: true, v6: true, ports: 1 }][k as usize];
        sweep_app(rep, &env, &format!("http-faults-{}", tag), "core requests x every single-byte deletion / substitution / insertion (11-symbol alphabet) / proper prefix x {UDP, TCP}", total * np2, |i| {
            let j = i / np2;
            let k = offs.partition_point(|o| *o <= j) - 1;
            (sel2(i % np2), fault(&core[k * cstep], j - offs[k]))
        });
        // segmentation: the core requests cut at every offset (and twice inside the first 16 bytes)
        {
            let nc = if thorough { core.len() } else { 12 };
            let st = core.len() / nc;
            let sel: Vec<Vec<u8>> = (0..nc).map(|k| core[k * st + (k % st.max(1))].clone()).collect();
            cuts_stage(rep, &env, &format!("http-cuts-{}", tag), &sel, 16);
        }
        crate::props::pairs::pair_histories(rep, &env.cfg, &format!("http-pair-histories-{}", tag), &crate::props::pairs::datagram_variants("http", &[b"GET /a HTTP/1.1\r\nHost: x\r\n\r\n".to_vec(), b"POST / HTTP/1.0\n\n".to_vec(), b"HEAD /h HTTP/1.1\r\nA:b\r\nC: d\r\n\r\n".to_vec()]));
        long_conv_stage(rep, &env, &format!("http-long-connection-{}", tag), None, &core[..24.min(core.len())], if thorough { 1500 } else { 300 });
        // the peer's advertised window (and urgent pointer) do not shape the answer
        window_stage(rep, &env, &format!("http-window-{}", tag), b"GET /w HTTP/1.1\r\nHost: x\r\n\r\n", 1024);
        source_alphabet_stage(rep, &env, &format!("http-sources-{}", tag), b"GET /s HTTP/1.1\r\nHost: x\r\n\r\n", true, true);
        envelope_stage(rep, &env, &format!("http-envelope-{}", tag), b"GET /e HTTP/1.1\r\nHost: x\r\n\r\n", true, true);
        if env.cfg.self_ips.is_empty() || thorough {
            let convs: Vec<(String, Vec<Vec<u8>>)> = busy_convs().into_iter().filter(|c| ["http"].iter().any(|p| c.0.starts_with(p))).collect();
            busy_stage(rep, &env.cfg, "C13", &format!("http-busy-responder-{}", tag), &convs, 70_000);
            if env.cfg.self_ips.is_empty() {
                edge_conv_stage(rep, "C13", "http-edge-cookie-conversations", &convs);
                sibling_conv_stage(rep, &env.cfg, "C13", "http-sibling-connections", &busy_convs());
            }
        }
        // a request that FAILED stays failed: a malformed first segment (valid method and signature,
        // then a header line without colon / a bad version / a bare LF in the request line / an
        // over-long method), then a complete valid request in the next segment: the stream as a
        // whole is not a request
        {
            let bad: Vec<Vec<u8>> = vec![
                b"GET /a HTTP/1.1\r\nno colon here\r\n".to_vec(),
                b"GET /a HTTP/1.1\r\n: empty name\r\n".to_vec(),
                b"GET /a HTTX/1.1\r\n".to_vec(),
                b"GET /a HTTP/1.x\r\n".to_vec(),
                b"GET  /a HTTP/1.1\r\n".to_vec(),
                b"GET /a\r\n".to_vec(),
                b"POST /a HTTP/1.0\nbad header\n".to_vec(),
                b"OPTIONS\r\n".to_vec(),
            ];
            let good: Vec<Vec<u8>> = vec![b"GET /b HTTP/1.1\r\nHost: x\r\n\r\n".to_vec(), b"HEAD / HTTP/1.0\n\n".to_vec(), b"\r\nGET /c HTTP/1.1\r\n\r\n".to_vec()];
            let dims = [bad.len() as u64, good.len() as u64, 2];
            sweep_conv(rep, &env, &format!("http-failed-then-request-{}", tag), "8 malformed first segments (valid signature) x 3 complete requests as second segment x {v4,v6}", product(&dims), |i| {
                let d = unrank(i, &dims);
                (Path { tcp: true, v6: d[2] == 1, ports: d[2] as usize }, vec![bad[d[0] as usize].clone(), good[d[1] as usize].clone()])
            });
        }
        // keep-alive: a second and third complete request on a connection whose earlier requests
        // were answered
        {
            let nc = core.len() as u64;
            sweep_conv(rep, &env, &format!("http-keep-alive-{}", tag), "core request, then every core request as second message, then a third (same connection) x {v4,v6}", nc * 6 * 2, |i| {
                let d = unrank(i, &[nc, 6, 2]);
                let first = core[(d[1] as usize * 7) % core.len()].clone();
                let third = core[(d[1] as usize * 11 + 3) % core.len()].clone();
                (Path { tcp: true, v6: d[2] == 1, ports: d[2] as usize }, vec![first, core[d[0] as usize].clone(), third])
            });
        }
        if thorough {
            let bases: Vec<Vec<u8>> = vec![b"GET / HTTP/1.1\r\n\r\n".to_vec(), b"POST /a HTTP/1.0\nH: v\n\n".to_vec(), b"OPTIONS /x HTTP/1.1\r\nHost: a\r\nB:c\r\n\r\n".to_vec()];
            pair_faults_stage(rep, &env, &format!("http-pair-faults-{}", tag), &bases, &[Path { tcp: false, v6: false, ports: 0 }, Path { tcp: true, v6: true, ports: 1 }]);
            // every 2-cut of the core requests
            let mut plan: Vec<(usize, usize, usize)> = Vec::new();
            for (ci, c) in core.iter().enumerate().step_by(3) {
                for a in 1..c.len() {
                    for b in a + 1..c.len() {
                        plan.push((ci, a, b));
                    }
                }
            }
            sweep_conv(rep, &env, &format!("http-all-2-cuts-{}", tag), "every third core request x every pair of cut positions (3 segments) over TCP", plan.len() as u64, |i| {
                let (ci, a, b) = plan[i as usize];
                let c = &core[ci];
                (Path { tcp: true, v6: i % 2 == 1, ports: (i % 2) as usize }, vec![c[..a].to_vec(), c[a..b].to_vec(), c[b..].to_vec()])
            });
        }
        if thorough && env.cfg.self_ips.is_empty() {
            // two faults: every pair of single faults for three short requests
            let bases: Vec<Vec<u8>> = vec![b"GET / HTTP/1.1\r\n\r\n".to_vec(), b"PUT /a HTTP/1.0\nA:b\n\n".to_vec(), b"HEAD /x HTTP/1.1\r\nH: v\r\n\r\n".to_vec()];
            for (bi, b) in bases.iter().enumerate() {
                let n1 = fault_count(b);
                // the second fault is applied to the result of the first; its count depends on the
                // length of the intermediate string, which differs from |b| by at most 1 except for
                // prefixes: use the minimum count that is valid for every intermediate (prefix faults
                // are excluded from the first position)
                let first_n = n1 - b.len() as u64; // without the proper prefixes
                let second_n = fault_count(&b[..b.len() - 1]);
                sweep_app(rep, &env, &format!("http-two-faults-{}-{}", bi, tag), "every pair (first fault: deletion / substitution / insertion; second fault: any single fault of the result) for a short request x {UDP, TCP}", first_n * second_n * 2, |i| {
                    let d = unrank(i, &[first_n, second_n, 2]);
                    let f1 = fault(b, d[0]);
                    let k2 = d[1] % fault_count(&f1);
                    let f2 = fault(&f1, k2);
                    (if d[2] == 0 { Path { tcp: false, v6: false, ports: 0 } } else { Path { tcp: true, v6: true, ports: 1 } }, f2)
                });
            }
        }
    }
    rep.states = rep.sink.classes.len() as u64;
}

/* ------------------------------------------------------------------ C14 DNS */

fn label_layouts() -> Vec<Vec<Vec<u8>>> {
    let mut v: Vec<Vec<Vec<u8>>> = Vec::new();
    for fill in [b'a', b'-', b'0', 0xffu8] {
        v.push(vec![]);
        v.push(vec![vec![fill; 1]]);
        v.push(vec![vec![fill; 63]]);
        v.push(vec![vec![fill; 3], vec![b'c', b'o', b'm']]);
        v.push(vec![vec![fill; 1], vec![fill; 2], vec![fill; 3], vec![fill; 4]]);
        v.push((0..127).map(|_| vec![fill; 1]).collect());
        v.push(vec![vec![fill; 63], vec![fill; 63], vec![fill; 63], vec![fill; 61]]);
    }
    v
}

pub fn run_c14(rep: &mut Report, thorough: bool) {
    rep.rule = "DNS queries over UDP: id all 65536; flag word all 65536 (QR=0 half must be answered with opcode and RD echoed, QR=1 half must be silent); all 65536 qtypes with class IN and all 65536 qclasses with type A (only (1,1) answered); question counts 1..4 (thorough 1..8) over 28 label layouts (root, 1x1, 1x63, 2 labels, 4 labels, 127x1 = 255 bytes, 4 labels = 255 bytes; label bytes a - 0 ff); mixed lists with one non-IN/A question at each position; every proper prefix of each message; 6 destination addresses; judged by the independent decoder (id, opcode, RD, QR, question echo, counts, one IN/A answer per question with RDATA = destination, full parse without trailing bytes); ADDED LATER: the same query bytes to 6 destinations back to back, pair histories of datagram variants, thorough: label-length grids, every name length, all label bytes, all length octets, qtype x qclass and id x flags products (16.7 M each), all byte-pair values of 2 queries".into();
    rep.assumptions = vec!["abstentions: compression pointers / zero bytes inside labels / label length > 63 in queries; queries carrying records (EDNS); zero questions; trailing bytes; DNS over IPv6 (statement: UDP/IPv4)".into()];
    let layouts = label_layouts();
    let p4 = Path { tcp: false, v6: false, ports: 0 };
    let p6 = Path { tcp: false, v6: true, ports: 1 };
    for env in envs(rep) {
        let tag = if env.cfg.self_ips.is_empty() { "plain" } else if env.cfg.level == crate::driver::Level::Trace { "lists-trace-dev" } else { "lists" };
        let q1 = vec![(dns_labels("www.example.com"), 1u16, 1u16)];
        sweep_app(rep, &env, &format!("dns-id-{}", tag), "id 0..65535", 65536, |i| (p4, appdns::build_query(i as u16, 0x0100, &q1)));
        sweep_app(rep, &env, &format!("dns-flags-{}", tag), "flag word 0..65535 x {1,2} questions", 65536 * 2, |i| {
            let qs = if i >= 65536 { vec![q1[0].clone(), (dns_labels("b"), 1, 1)] } else { q1.clone() };
            (p4, appdns::build_query(0x7777, i as u16, &qs))
        });
        sweep_app(rep, &env, &format!("dns-qtype-{}", tag), "qtype 0..65535 with class IN", 65536, |i| (p4, appdns::build_query(1, 0, &[(dns_labels("a.b"), i as u16, 1)])));
        sweep_app(rep, &env, &format!("dns-qclass-{}", tag), "qclass 0..65535 with type A", 65536, |i| (p4, appdns::build_query(1, 0, &[(dns_labels("a.b"), 1, i as u16)])));
        // question counts x layouts (same layout repeated, and rotated)
        let maxq: u64 = if thorough { 8 } else { 4 };
        let dims = [layouts.len() as u64, maxq, 2, 2];
        sweep_app(rep, &env, &format!("dns-layouts-{}", tag), "label layouts x question count x {same, rotated layouts} x {IPv4, IPv6}", product(&dims), |i| {
            let d = unrank(i, &dims);
            let n = d[1] + 1;
            let qs: Vec<(Vec<Vec<u8>>, u16, u16)> = (0..n).map(|k| (layouts[((d[0] + if d[2] == 1 { k } else { 0 }) as usize) % layouts.len()].clone(), 1u16, 1u16)).collect();
            (if d[3] == 0 { p4 } else { p6 }, appdns::build_query(0x0102, 0x0100, &qs))
        });
        // mixed lists: one non-IN/A question at each position
        let dims = [4u64, 4, 4];
        sweep_app(rep, &env, &format!("dns-mixed-{}", tag), "lists of 1..4 questions with one non-IN/A question at each position x 4 kinds (TXT/CH, AAAA/IN, A/CH, ANY/ANY)", product(&dims), |i| {
            let d = unrank(i, &dims);
            let n = d[0] + 1;
            let bad = [(16u16, 3u16), (28, 1), (1, 3), (255, 255)][d[2] as usize];
            let qs: Vec<(Vec<Vec<u8>>, u16, u16)> = (0..n).map(|k| if k == d[1] % n { (dns_labels("x.y"), bad.0, bad.1) } else { (dns_labels("x.y"), 1, 1) }).collect();
            (p4, appdns::build_query(9, 0, &qs))
        });
        // every proper prefix of each of a set of messages
        let msgs: Vec<Vec<u8>> = vec![
            appdns::build_query(5, 0x0100, &q1),
            appdns::build_query(5, 0, &[(dns_labels("a.b"), 1, 1), (dns_labels("c"), 1, 1), (vec![], 1, 1)]),
            appdns::build_query(5, 0, &[(layouts[5].clone(), 1, 1)]),
        ];
        let mut offs = vec![0u64];
        for m in &msgs {
            offs.push(offs.last().unwrap() + m.len() as u64);
        }
        sweep_app(rep, &env, &format!("dns-prefixes-{}", tag), "every proper prefix of 3 queries", *offs.last().unwrap(), |i| {
            let k = offs.partition_point(|o| *o <= i) - 1;
            (p4, msgs[k][..(i - offs[k]) as usize].to_vec())
        });
        // queries whose first bytes look like the head of another protocol's signature (id 0x0001 with
        // flag words 0x0000 / 0x0008 ... = a STUN header; ids / flags that read as RPC, SMB, SSH,
        // HTTP heads) with names of every short length: the DNS fallback still answers them unless a
        // signature is COMPLETE
        {
            let ids: [u16; 10] = [0x0000, 0x0001, 0x0002, 0x0101, 0x8000, 0x4745, 0x5353, 0x4768, 0x0000, 0xff53];
            let fls: [u16; 8] = [0x0000, 0x0008, 0x0100, 0x0001, 0x0010, 0x5420, 0x482d, 0x3073];
            let dims = [ids.len() as u64, fls.len() as u64, 16, 2];
            sweep_app(rep, &env, &format!("dns-signature-lookalikes-{}", tag), "10 ids x 8 flag words that read as the head of another protocol's signature x name lengths 0..15 x {1, 2} questions", product(&dims), |i| {
                let d = unrank(i, &dims);
                let name: Vec<Vec<u8>> = if d[2] == 0 { vec![] } else { vec![vec![b'n'; d[2] as usize]] };
                let qs: Vec<(Vec<Vec<u8>>, u16, u16)> = (0..=d[3]).map(|_| (name.clone(), 1u16, 1u16)).collect();
                (p4, appdns::build_query(ids[d[0] as usize], fls[d[1] as usize] & 0x7fff, &qs))
            });
        }
        // label content: every byte value at the first / middle / last position of a label (the owner
        // name of the answer is the queried name byte for byte, whatever its bytes)
        sweep_app(rep, &env, &format!("dns-label-bytes-q-{}", tag), "every byte value 0..255 at 3 positions of a 5-byte label x {first, second} question", 256 * 3 * 2, |i| {
            let d = unrank(i, &[256, 3, 2]);
            let mut l = b"hello".to_vec();
            l[[0usize, 2, 4][d[1] as usize]] = d[0] as u8;
            let special = (vec![l, b"oRg".to_vec()], 1u16, 1u16);
            let plain = (dns_labels("a.b"), 1u16, 1u16);
            let qs = if d[2] == 0 { vec![special, plain] } else { vec![plain, special] };
            (p4, appdns::build_query(0x0e0f, 0x0100, &qs))
        });
        crate::props::pairs::pair_histories(rep, &env.cfg, &format!("dns-pair-histories-{}", tag), &crate::props::pairs::datagram_variants("dns", &[appdns::build_query(5, 0x0100, &q1), appdns::build_query(6, 0, &[(dns_labels("a.b"), 1, 1), (dns_labels("c"), 1, 1)]), appdns::build_query(7, 0x0100, &[(dns_labels("version.bind"), 16, 3)])]));
        source_alphabet_stage(rep, &env, &format!("dns-sources-{}", tag), &appdns::build_query(5, 0x0100, &q1), false, true);
        equal_ports_stage(rep, &env, &format!("dns-equal-ports-{}", tag), &appdns::build_query(5, 0x0100, &q1));
        envelope_stage(rep, &env, &format!("dns-envelope-{}", tag), &appdns::build_query(5, 0x0100, &q1), false, true);
        if env.cfg.self_ips.is_empty() || thorough {
            all_words_stage(rep, &env, &format!("dns-all-words-{}", tag), &[appdns::build_query(5, 0x0100, &[(dns_labels("ab.c"), 1, 1)])], false, thorough);
        }
        all_bytes_stage(rep, &env, &format!("dns-all-byte-values-{}", tag), &[appdns::build_query(5, 0x0100, &[(dns_labels("ab.c"), 1, 1)]), appdns::build_query(0x1234, 0, &[(dns_labels("x"), 1, 1), (dns_labels("y"), 1, 1)])], false, true);
        // destination addresses
        let t0 = std::time::Instant::now();
        let dsts: Vec<Ip> = vec![srv4(), srv4b(), Ip::V4([0, 0, 0, 0]), Ip::V4([255, 255, 255, 255]), Ip::V4([224, 0, 0, 251]), Ip::V4([1, 2, 3, 4])];
        let opts = RunOpts::new(&format!("dns-dst-{}", tag));
        engine::run(
            &env.cfg,
            256 * 2,
            &opts,
            |i| {
                // the SAME query bytes to every destination back to back in one responder process
                // (forwards and backwards): the answer follows the destination of each datagram
                let mut v = Vec::new();
                for k in 0..dsts.len() {
                    let mut f = flow4(5353, 53);
                    f.sip = dsts[if i % 2 == 0 { k } else { dsts.len() - 1 - k }];
                    v.push(Cmd::Frame(f.udp(&appdns::build_query((i / 2) as u16, 0x0100, &q1))));
                }
                v
            },
            |_it: &Item, _s: &mut Sink| {},
            &mut rep.sink,
        );
        rep.stage(&format!("dns-dst-{}", tag), "256 ids x the same query to 6 destination addresses back to back (both orders) in one responder process (monitor)", 512, t0);
        if thorough {
            // one query near the 4096-byte frame bound: ~800 questions
            sweep_app(rep, &env, &format!("dns-many-{}", tag), "queries with 100..800 root-name questions", 8, |i| {
                let qs: Vec<(Vec<Vec<u8>>, u16, u16)> = (0..(i + 1) * 100).map(|_| (vec![], 1u16, 1u16)).collect();
                (p4, appdns::build_query(3, 0x0100, &qs))
            });
            // --- deep stages (thorough only) ---
            // every name shape with one or two labels: all (a, b) with a in 1..63, b in 0..63
            sweep_app(rep, &env, &format!("dns-label-lengths-{}", tag), "names of one or two labels: first label length 1..63 x second label length 0..63 x {1, 3} questions", 63 * 64 * 2, |i| {
                let d = unrank(i, &[63, 64, 2]);
                let mut name = vec![vec![b'a'; d[0] as usize + 1]];
                if d[1] > 0 {
                    name.push(vec![b'b'; d[1] as usize]);
                }
                let n = if d[2] == 0 { 1 } else { 3 };
                let qs: Vec<(Vec<Vec<u8>>, u16, u16)> = (0..n).map(|_| (name.clone(), 1u16, 1u16)).collect();
                (p4, appdns::build_query(0x0a0b, 0x0100, &qs))
            });
            // total name length: every length 1..255 reached with 63-byte labels and a remainder
            sweep_app(rep, &env, &format!("dns-name-lengths-{}", tag), "names of every encoded length 3..260 (63-byte labels + remainder; the last 5 exceed 255) x question count 1..3", 258 * 3, |i| {
                let d = unrank(i, &[258, 3]);
                let mut left = d[0] as usize + 1; // label bytes incl. length octets, without the root
                let mut name: Vec<Vec<u8>> = Vec::new();
                while left > 1 {
                    let l = (left - 1).min(63);
                    name.push(vec![b'x'; l]);
                    left -= l + 1;
                }
                let qs: Vec<(Vec<Vec<u8>>, u16, u16)> = (0..=d[1]).map(|_| (name.clone(), 1u16, 1u16)).collect();
                (p4, appdns::build_query(0x0c0d, 0, &qs))
            });
            // label content: every byte value at the first, middle and last position of a label
            sweep_app(rep, &env, &format!("dns-label-bytes-{}", tag), "every byte value 0..255 at 3 positions of a 5-byte label x {first, second} question", 256 * 3 * 2, |i| {
                let d = unrank(i, &[256, 3, 2]);
                let mut l = b"hello".to_vec();
                l[[0usize, 2, 4][d[1] as usize]] = d[0] as u8;
                let special = (vec![l, b"org".to_vec()], 1u16, 1u16);
                let plain = (dns_labels("a.b"), 1u16, 1u16);
                let qs = if d[2] == 0 { vec![special, plain] } else { vec![plain, special] };
                (p4, appdns::build_query(0x0e0f, 0x0100, &qs))
            });
            // label length octet: every value 0..255 (compression pointers, reserved prefixes, overlong)
            sweep_app(rep, &env, &format!("dns-length-octets-{}", tag), "first length octet of the name 0..255 x following bytes {4 letters + root, 64 letters + root, 1 byte}", 256 * 3, |i| {
                let d = unrank(i, &[256, 3]);
                let mut m = appdns::build_query(0x1011, 0x0100, &[]);
                m[4] = 0;
                m[5] = 1;
                m.push(d[0] as u8);
                match d[1] {
                    0 => m.extend_from_slice(b"abcd\x00"),
                    1 => {
                        m.extend_from_slice(&[b'z'; 64]);
                        m.push(0)
                    }
                    _ => m.push(0x0c),
                }
                m.extend_from_slice(&[0, 1, 0, 1]);
                (p4, m)
            });
            // qtype x qclass grid on the low bytes, and the high bytes
            sweep_app(rep, &env, &format!("dns-type-class-grid-{}", tag), "qtype low byte 0..255 x qclass low byte 0..255; qtype high byte x qclass high byte", 65536 * 2, |i| {
                let d = unrank(i, &[2, 256, 256]);
                let (t, c) = if d[0] == 0 { (d[1] as u16, d[2] as u16) } else { ((d[1] as u16) << 8 | 1, (d[2] as u16) << 8 | 1) };
                (p4, appdns::build_query(0x1213, 0x0100, &[(dns_labels("grid.example"), t, c)]))
            });
            // header counts: ancount / nscount / arcount 0..3 each with and without that many records
            sweep_app(rep, &env, &format!("dns-section-counts-{}", tag), "ancount x nscount x arcount in 0..3, records present or absent, 1 or 2 questions", 64 * 2 * 2, |i| {
                let d = unrank(i, &[4, 4, 4, 2, 2]);
                let qs: Vec<(Vec<Vec<u8>>, u16, u16)> = (0..=d[4]).map(|_| (dns_labels("c.d"), 1u16, 1u16)).collect();
                let mut tail = Vec::new();
                if d[3] == 1 {
                    for _ in 0..(d[0] + d[1] + d[2]) {
                        tail.extend(appdns::a_record(&dns_labels("c.d"), [1, 2, 3, 4]));
                    }
                }
                (p4, appdns::build_message(0x1415, 0x0100, &qs, d[0] as u16, d[1] as u16, d[2] as u16, &tail))
            });
            // every single-byte fault of 4 queries
            {
                let bases: Vec<Vec<u8>> = vec![
                    appdns::build_query(5, 0x0100, &q1),
                    appdns::build_query(6, 0, &[(dns_labels("a.b"), 1, 1), (dns_labels("c"), 1, 1)]),
                    appdns::build_query(7, 0x0100, &[(vec![], 1, 1)]),
                    appdns::build_query(8, 0x0100, &[(dns_labels("mail.example.org"), 1, 1), (dns_labels("mail.example.org"), 1, 1), (dns_labels("x"), 1, 1)]),
                ];
                let mut offs = vec![0u64];
                for b in &bases {
                    offs.push(offs.last().unwrap() + b.len() as u64 * 256);
                }
                sweep_app(rep, &env, &format!("dns-byte-faults-{}", tag), "4 queries x every byte position x all 256 values", *offs.last().unwrap(), |i| {
                    let k = offs.partition_point(|o| *o <= i) - 1;
                    let j = i - offs[k];
                    let mut m = bases[k].clone();
                    m[(j / 256) as usize] = j as u8;
                    (p4, m)
                });
            }
            pair_faults_stage(rep, &env, &format!("dns-pair-faults-{}", tag), &[appdns::build_query(5, 0x0100, &q1), appdns::build_query(6, 0, &[(dns_labels("a.b"), 1, 1), (vec![], 1, 1)])], &[p4]);
            sweep_app(rep, &env, &format!("dns-id-x-flags-{}", tag), "id 0..65535 x flag word high byte 0..255", 65536 * 256, |i| (p4, appdns::build_query((i >> 8) as u16, ((i & 0xff) as u16) << 8, &q1)));
            sweep_app(rep, &env, &format!("dns-type-x-class-{}", tag), "qtype 0..65535 x qclass {0..255}", 65536 * 256, |i| (p4, appdns::build_query(1, 0, &[(dns_labels("a.b"), (i >> 8) as u16, (i & 0xff) as u16)])));
            // ids x flags: low/high byte grids
            sweep_app(rep, &env, &format!("dns-id-flags-grid-{}", tag), "id {low byte, high byte} 0..255 x flag word high byte 0..255 (QR, opcode, AA, TC, RD)", 2 * 256 * 256, |i| {
                let d = unrank(i, &[2, 256, 256]);
                let id = if d[0] == 0 { d[1] as u16 } else { (d[1] as u16) << 8 };
                (p4, appdns::build_query(id, (d[2] as u16) << 8, &q1))
            });
        }
    }
    rep.states = rep.sink.classes.len() as u64;
}

/* ------------------------------------------------------------------ C15 STUN */

pub fn run_c15(rep: &mut Report, thorough: bool) {
    rep.rule = "STUN: message-type word all 65536 values; transaction id every byte position x 256 values and all-00 / all-ff / all-2a; the published request shapes (magic cookie with attributes, cookie-less empty, cookie-less CHANGE-REQUEST); attribute lists of 0..3 attributes over types {0001,0003,0006,8022,ffff} x declared lengths {0,4,8,12,20} (well-formed) and every malformed declared/actual combination (abstained, C01 only), in short forms and in the >=256-byte form; CHANGE-REQUEST flag byte all 256 values x destination ports {all 65536 for 4 flag values; 256 ports for all flag values}; all 65536 source ports; both IP versions, 4 source addresses; over UDP and TCP; judged by the independent STUN decoder (type 0x0101, id, length, exactly one MAPPED-ADDRESS = observed family/address/port, reply from dport+1 iff change-port); ADDED LATER: later messages on a TCP connection identified as STUN (all 65536 type words), bytes after the delimited message (conditional verdict), 0..120 attributes before a CHANGE-REQUEST, IPv4-mapped source addresses, 300-message connections, pair histories, thorough: all attribute type words, CHANGE-REQUEST value halves, byte-pair neighbourhoods".into();
    rep.assumptions = vec![
        "requests with malformed TLVs, a length field that does not match the datagram, several CHANGE-REQUESTs or unpadded attributes are abstained on".into(),
        "well-formed requests that the matcher misses because of the listed wildcard-shadowing events (D12) are reported as KNOWN-FINDING under this property".into(),
    ];
    let pu4 = Path { tcp: false, v6: false, ports: 1 };
    let pu6 = Path { tcp: false, v6: true, ports: 1 };
    let pt4 = Path { tcp: true, v6: false, ports: 1 };
    let pt6 = Path { tcp: true, v6: true, ports: 0 };
    let paths = [pu4, pu6, pt4, pt6];
    for env in envs(rep) {
        let tag = if env.cfg.self_ips.is_empty() { "plain" } else if env.cfg.level == crate::driver::Level::Trace { "lists-trace-dev" } else { "lists" };
        // message type word
        sweep_app(rep, &env, &format!("stun-type-{}", tag), "message type 0..65535 x {magic 20-byte, classic 20-byte, classic 28-byte}", 65536 * 3, |i| {
            let ty = (i % 65536) as u16;
            let mut m = match i / 65536 {
                0 => stun_magic(&[], &ID12),
                1 => stun_classic(&[], &ID16),
                _ => stun_classic(&stun_attr(3, &[0, 0, 0, 2]), &ID16),
            };
            m[0] = (ty >> 8) as u8;
            m[1] = ty as u8;
            (pu4, m)
        });
        // transaction id bytes
        let dims = [4u64, 16, 256];
        sweep_app(rep, &env, &format!("stun-id-{}", tag), "transaction id: every byte position (incl. the cookie position of classic requests) x 256 values x 4 paths", product(&dims), |i| {
            let d = unrank(i, &dims);
            let mut id = ID16;
            id[d[1] as usize] = d[2] as u8;
            (paths[d[0] as usize], stun_classic(&[], &id))
        });
        sweep_app(rep, &env, &format!("stun-id-const-{}", tag), "transaction id all-00 / all-ff / all-2a x {classic empty, classic change, magic+attrs} x 4 paths", 3 * 3 * 4, |i| {
            let d = unrank(i, &[3, 3, 4]);
            let b = [0u8, 0xff, 0x2a][d[0] as usize];
            let m = match d[1] {
                0 => stun_classic(&[], &[b; 16]),
                1 => stun_classic(&stun_attr(3, &[0, 0, 0, 2]), &[b; 16]),
                _ => {
                    let mut body = stun_attr(0x8022, &[b'x'; 252]);
                    body.extend(stun_attr(3, &[0, 0, 0, 0]));
                    stun_magic(&body, &[b; 12])
                }
            };
            (paths[d[2] as usize], m)
        });
        // attribute lists, well-formed: 0..3 attributes, in the magic form padded to >= 256 bytes and in short form
        // 0xff03 stands for "CHANGE-REQUEST without the change-port flag" (sent as type 0x0003)
        let types = [0x0001u16, 0x0003, 0xff03, 0x0006, 0x8022, 0xffff];
        let lens = [0usize, 4, 8, 12, 20];
        let na = (types.len() * lens.len()) as u64;
        let dims = [2u64, 4, na, na, na, 4];
        sweep_app(rep, &env, &format!("stun-attrs-{}", tag), "attribute lists (count 0..3) over 6 types (CHANGE-REQUEST with and without the port flag) x 5 declared=actual lengths, {short, >=256-byte} magic form x 4 paths", product(&dims), |i| {
            let d = unrank(i, &dims);
            let mut body = Vec::new();
            for k in 0..d[1] {
                let a = d[2 + k as usize] as usize;
                let (t, l) = (types[a / lens.len()], lens[a % lens.len()]);
                let mut val = vec![0u8; l];
                if t == 1 && l >= 8 {
                    val[1] = if l == 20 { 2 } else { 1 };
                }
                if t == 3 && l == 4 {
                    val[3] = 2;
                }
                if t == 0xff03 && l == 4 {
                    val[3] = 4;
                }
                body.extend(stun_attr(if t == 0xff03 { 3 } else { t }, &val));
            }
            if d[0] == 1 {
                body.extend(stun_attr(0x8022, &[b's'; 256]));
            }
            (paths[d[5] as usize], stun_magic(&body, &ID12))
        });
        // malformed TLVs: declared length vs actual bytes (C01 + abstention; answered ones validated)
        let decl = [0u16, 1, 2, 3, 4, 5, 7, 8, 9, 12, 0xff, 0xffff];
        let dims = [types.len() as u64, decl.len() as u64, 13, 2, 2];
        sweep_app(rep, &env, &format!("stun-malformed-{}", tag), "one attribute: 5 types x 12 declared lengths x actual bytes 0..12 x {short, >=256-byte form} x {UDP, TCP}", product(&dims), |i| {
            let d = unrank(i, &dims);
            let mut body = Vec::new();
            if d[3] == 1 {
                body.extend(stun_attr(0x8022, &[b's'; 256]));
            }
            body.extend_from_slice(&types[d[0] as usize].to_be_bytes());
            body.extend_from_slice(&decl[d[1] as usize].to_be_bytes());
            body.extend(vec![0x01u8; d[2] as usize]);
            (if d[4] == 0 { pu4 } else { pt4 }, stun_magic(&body, &ID12))
        });
        sweep_app(rep, &env, &format!("stun-attr-length-{}", tag), "one unknown attribute of every 4-byte-aligned length 0..1400 (before or after a CHANGE-REQUEST) x 4 paths", 351 * 2 * 4, |i| {
            let d = unrank(i, &[351, 2, 4]);
            let big = stun_attr(0x8022, &vec![0x55u8; d[0] as usize * 4]);
            let cr = stun_attr(3, &[0, 0, 0, 2]);
            let body = if d[1] == 0 { [big, cr].concat() } else { [cr, big].concat() };
            (paths[d[2] as usize], stun_magic(&body, &ID12))
        });
        // CHANGE-REQUEST flags x destination ports; source ports
        let t0 = std::time::Instant::now();
        let flagsets: Vec<u8> = vec![0, 2, 4, 6];
        let nflag_all: u64 = 256;
        let total = 65536 * flagsets.len() as u64 * 2 + nflag_all * 256 * 2 + 65536 * 2 * 2;
        let opts = RunOpts::new(&format!("stun-ports-{}", tag));
        engine::run(
            &env.cfg,
            total,
            &opts,
            |i| {
                let a = 65536 * flagsets.len() as u64 * 2;
                let b = a + nflag_all * 256 * 2;
                let fr = if i < a {
                    let d = unrank(i, &[2, flagsets.len() as u64, 65536]);
                    flow(d[0] == 1, 40000, d[2] as u16).udp(&stun_classic(&stun_attr(3, &[0, 0, 0, flagsets[d[1] as usize]]), &ID16))
                } else if i < b {
                    let d = unrank(i - a, &[2, 256, 256]);
                    flow(d[0] == 1, 40000, (d[2] * 257) as u16).udp(&stun_classic(&stun_attr(3, &[0, 0, 0, d[1] as u8]), &ID16))
                } else {
                    let d = unrank(i - b, &[2, 2, 65536]);
                    let m = if d[1] == 0 { stun_classic(&[], &ID16) } else { stun_classic(&stun_attr(3, &[0, 0, 0, 2]), &ID16) };
                    flow(d[0] == 1, d[2] as u16, 3478).udp(&m)
                };
                vec![Cmd::Frame(fr)]
            },
            |_it: &Item, _s: &mut Sink| {},
            &mut rep.sink,
        );
        rep.stage(&format!("stun-ports-{}", tag), "CHANGE-REQUEST flags {0,2,4,6} x all 65536 destination ports; all 256 flag bytes x 256 destination ports; all 65536 source ports x {plain, change-port}; x {v4,v6}", total, t0);
        // source addresses
        let t0 = std::time::Instant::now();
        let srcs4 = [cli4(), cli4b(), Ip::V4([0, 0, 0, 0]), Ip::V4([255, 255, 255, 255])];
        let srcs6 = [cli6(), cli6b(), Ip::parse("::ffff:10.0.0.9"), Ip::parse("::10.0.0.9")];
        let opts = RunOpts::new(&format!("stun-src-{}", tag));
        engine::run(
            &env.cfg,
            8 * 3,
            &opts,
            |i| {
                let mut f = flow(i % 8 >= 4, 40000, 3478);
                f.cip = if i % 8 >= 4 { srcs6[(i % 4) as usize] } else { srcs4[(i % 4) as usize] };
                let m = match i / 8 {
                    0 => stun_classic(&[], &ID16),
                    1 => stun_classic(&stun_attr(3, &[0, 0, 0, 2]), &ID16),
                    _ => stun_magic(&stun_attr(0x8022, &[b's'; 256]), &ID12),
                };
                vec![Cmd::Frame(f.udp(&m))]
            },
            |_it: &Item, _s: &mut Sink| {},
            &mut rep.sink,
        );
        rep.stage(&format!("stun-src-{}", tag), "4 source addresses per IP version (incl. IPv4-mapped and IPv4-compatible IPv6) x 3 request shapes", 24, t0);
        crate::props::pairs::pair_histories(rep, &env.cfg, &format!("stun-pair-histories-{}", tag), &crate::props::pairs::datagram_variants("stun", &[stun_magic(&[], &ID12), stun_classic(&stun_attr(3, &[0, 0, 0, 2]), &ID16), stun_magic(&stun_attr(0x8022, &[b'x'; 256]), &ID12)]));
        // bytes after the message the STUN length field delimits are not attributes of the request
        {
            let big_attr = stun_attr(0x8022, &[b'x'; 252]);
            let big = stun_magic(&big_attr, &ID12);
            let mut tails: Vec<Vec<u8>> = vec![stun_attr(3, &[0, 0, 0, 2]), stun_attr(3, &[0, 0, 0, 6]), stun_magic(&[], &ID12), stun_attr(0x8022, b"abcd"), vec![0xff; 5], vec![0, 3, 0, 4, 0], vec![0, 3]];
            for n in 1..=12usize {
                tails.push(vec![0x00; n]);
                tails.push((0..n).map(|k| [0u8, 3, 0, 4, 0, 0, 0, 2, 0, 3, 0, 4][k]).collect());
            }
            let nt = tails.len() as u64;
            sweep_app(rep, &env, &format!("stun-trailing-{}", tag), "[>=256-byte Binding request] + trailing bytes (CHANGE-REQUEST-shaped, a second request, unknown attribute, garbage, every prefix length 1..12 of two patterns) x 4 paths", nt * 4, |i| {
                let mut m = big.clone();
                m.extend_from_slice(&tails[(i / 4) as usize]);
                (paths[(i % 4) as usize], m)
            });
            sweep_conv(rep, &env, &format!("stun-trailing-second-{}", tag), "[>=256-byte Binding request] then [20-byte / 28-byte request + the same trailing byte strings] on one TCP connection x {v4,v6}", nt * 2 * 2, |i| {
                let d = unrank(i, &[nt, 2, 2]);
                let mut m = if d[1] == 0 { stun_magic(&[], &ID12) } else { stun_magic(&stun_attr(0x8022, b"abcd"), &ID12) };
                m.extend_from_slice(&tails[d[0] as usize]);
                (Path { tcp: true, v6: d[2] == 1, ports: 1 }, vec![big.clone(), m])
            });
        }
        // cookie-less requests whose transaction id reads as a DNS query (polyglots): STUN answers
        {
            let pls = payloads();
            let poly: Vec<Vec<u8>> = pls.iter().filter(|p| p.name.contains("dns-polyglot")).map(|p| p.bytes.clone()).collect();
            let mut more = poly.clone();
            // 28-byte CHANGE-REQUEST form / 20-byte form with other DNS-shaped ids
            more.push([&[0u8, 1, 0, 8, 0, 1, 0, 0, 0, 0, 0, 0, 1, b'a', 0, 0, 1, 0, 1, 0][..], &stun_attr(3, &[0, 0, 0, 2])[..]].concat());
            more.push(vec![0, 1, 0, 0, 0, 1, 0, 0, 0, 0, 0, 0, 3, b'w', b'w', b'w', 0, 0, 1, 0]);
            let n = more.len() as u64;
            sweep_app(rep, &env, &format!("stun-dns-polyglots-{}", tag), "cookie-less Binding requests whose bytes also parse as a DNS query x {UDP v4, UDP v6}", n * 2, |i| (if i % 2 == 0 { pu4 } else { pu6 }, more[(i / 2) as usize].clone()));
        }
        // CHANGE-REQUEST whose declared value is longer than the 4-byte flag word (>= 256-byte form)
        {
            let vals: Vec<Vec<u8>> = vec![
                vec![0, 0, 0, 0, 0, 3, 0, 4],
                vec![0, 0, 0, 0, 0, 3, 0, 4, 0, 0, 0, 2],
                vec![0, 0, 0, 0, 0, 0, 0, 2],
                vec![0, 0, 0, 4, 0, 0, 0, 2],
                vec![0, 0, 0, 0, 0xde, 0xad, 0xbe, 0xef],
                vec![0, 0, 0, 0, 0, 1, 0, 8, 0, 1, 0x12, 0x34, 1, 2, 3, 4],
                vec![0, 0, 0, 2, 0, 0, 0, 0],
            ];
            let n = vals.len() as u64;
            sweep_app(rep, &env, &format!("stun-long-change-request-{}", tag), "a >= 256-byte request ending with a CHANGE-REQUEST whose value is 8..16 bytes (flag word + attribute-shaped / flag-shaped / arbitrary bytes) x 4 paths", n * 4, |i| {
                let body = [stun_attr(0x8022, &[b'x'; 244]), stun_attr(3, &vals[(i / 4) as usize])].concat();
                (paths[(i % 4) as usize], stun_magic(&body, &ID12))
            });
        }
        // attribute count: k unknown attributes before a CHANGE-REQUEST, k = 0..120
        {
            let big = stun_magic(&stun_attr(0x8022, &[b'x'; 256]), &ID12);
            let msg = |k: u64, tail: u64| -> Vec<u8> {
                let mut body = Vec::new();
                for j in 0..k {
                    body.extend(stun_attr(0x8022, &[b'a' + (j % 26) as u8; 4]));
                }
                match tail {
                    0 => body.extend(stun_attr(3, &[0, 0, 0, 2])),
                    1 => body.extend(stun_attr(3, &[0, 0, 0, 0])),
                    _ => {}
                }
                stun_magic(&body, &ID12)
            };
            sweep_app(rep, &env, &format!("stun-attr-count-{}", tag), "k unknown attributes (k = 31..120: the forms the datagram matcher identifies) then {CHANGE-REQUEST change-port, CHANGE-REQUEST without, nothing} x {UDP v4, UDP v6, TCP}", 90 * 3 * 3, |i| {
                let d = unrank(i, &[90, 3, 3]);
                ([pu4, pu6, pt4][d[2] as usize], msg(31 + d[0], d[1]))
            });
            sweep_conv(rep, &env, &format!("stun-attr-count-second-{}", tag), "[>=256-byte request] then a request with k = 0..120 unknown attributes then {CHANGE-REQUEST change-port, without, nothing} on one TCP connection", 121 * 3, |i| {
                let d = unrank(i, &[121, 3]);
                (Path { tcp: true, v6: i % 2 == 1, ports: 1 }, vec![big.clone(), msg(d[0], d[1])])
            });
        }
        // later messages on a TCP connection identified as STUN: every message-type word
        {
            let big = stun_magic(&stun_attr(0x8022, &[b'x'; 256]), &ID12);
            let step: u64 = if thorough { 1 } else { 1 };
            sweep_conv(rep, &env, &format!("stun-tcp-second-{}", tag), "[>=256-byte Binding request] then a 20-byte message with every message-type word 0..65535 on the same connection x {magic, classic}", 65536 / step * 2, |i| {
                let ty = ((i / 2) * step) as u16;
                let mut m = if i % 2 == 0 { stun_magic(&[], &ID12) } else { stun_classic(&[], &ID16) };
                m[0] = (ty >> 8) as u8;
                m[1] = ty as u8;
                (Path { tcp: true, v6: false, ports: 1 }, vec![big.clone(), m])
            });
            cuts_stage(rep, &env, &format!("stun-cuts-{}", tag), &[big.clone()], 28);
            let msgs = vec![stun_magic(&[], &ID12), stun_magic(&stun_attr(3, &[0, 0, 0, 2]), &ID12), stun_classic(&[], &ID16), stun_magic(&stun_attr(0x8022, b"abcd"), &ID12)];
            long_conv_stage(rep, &env, &format!("stun-long-connection-{}", tag), Some(big.clone()), &msgs, if thorough { 1500 } else { 300 });
            window_stage(rep, &env, &format!("stun-window-{}", tag), &big, 256);
            if env.cfg.self_ips.is_empty() || thorough {
            let convs: Vec<(String, Vec<Vec<u8>>)> = busy_convs().into_iter().filter(|c| ["stun"].iter().any(|p| c.0.starts_with(p))).collect();
            busy_stage(rep, &env.cfg, "C15", &format!("stun-busy-responder-{}", tag), &convs, 70_000);
            if env.cfg.self_ips.is_empty() {
                edge_conv_stage(rep, "C15", "stun-edge-cookie-conversations", &convs);
                sibling_conv_stage(rep, &env.cfg, "C15", "stun-sibling-connections", &busy_convs());
            }
        }
            envelope_stage(rep, &env, &format!("stun-envelope-{}", tag), &stun_magic(&[], &ID12), true, true);
            if env.cfg.self_ips.is_empty() || thorough {
                all_words_stage(rep, &env, &format!("stun-all-words-{}", tag), &[stun_magic(&stun_attr(3, &[0, 0, 0, 2]), &ID12), stun_classic(&stun_attr(3, &[0, 0, 0, 2]), &ID16)], false, thorough);
            }
            all_bytes_stage(rep, &env, &format!("stun-all-byte-values-{}", tag), &[stun_magic(&[], &ID12), stun_classic(&stun_attr(3, &[0, 0, 0, 2]), &ID16), stun_magic(&stun_attr(0x8022, b"abcd"), &ID12)], true, true);
            source_alphabet_stage(rep, &env, &format!("stun-sources-{}", tag), &stun_magic(&stun_attr(0x8022, &[b's'; 256]), &ID12), true, true);
            equal_ports_stage(rep, &env, &format!("stun-equal-ports-{}", tag), &stun_classic(&stun_attr(3, &[0, 0, 0, 2]), &ID16));
            envelope_stage(rep, &env, &format!("stun-envelope-change-{}", tag), &stun_classic(&stun_attr(3, &[0, 0, 0, 2]), &ID16), false, true);
            // every assigned attribute type (RFC 3489 / 5389 / 5780 ranges) with WELL-FORMED values
            // of the shapes those attributes have (IPv4 / IPv6 address with another port, flag
            // word, text), in the short form and in the >= 256-byte form the stream matcher
            // identifies, before and after the padding attribute: only CHANGE-REQUEST may move the
            // answer, and only by one port
            {
                let shapes = stun_attr_shapes();
                let dims = [shapes.len() as u64, 3];
                sweep_app(rep, &env, &format!("stun-attr-shapes-{}", tag), "99 attribute types (0..0x30, 0x8000..0x8030, 3 more) x 7 well-formed value shapes (IPv4 address:port, IPv6 address:port, flag words 2 and 6, port word, text, empty) x {short message, >= 256 bytes with the attribute first, with the attribute last, each also in front of a CHANGE-REQUEST (change port)}; 288 dissected attributes longer than their fixed layout; x {UDP v4, UDP v6, TCP}", product(&dims), |i| {
                    let d = unrank(i, &dims);
                    let p = [pu4, pu6, Path { tcp: true, v6: false, ports: 1 }][d[1] as usize];
                    (p, shapes[d[0] as usize].clone())
                });
            }
        }
        if thorough {
            let bases: Vec<Vec<u8>> = vec![stun_magic(&[], &ID12), stun_classic(&stun_attr(3, &[0, 0, 0, 2]), &ID16), stun_magic(&[stun_attr(0x8022, b"abcd"), stun_attr(3, &[0, 0, 0, 2])].concat(), &ID12)];
            pair_faults_stage(rep, &env, &format!("stun-pair-faults-{}", tag), &bases, &[pu4, pu6]);
            // one attribute: every type word x declared length {0,4,8} (well-formed), both forms
            sweep_app(rep, &env, &format!("stun-attr-types-{}", tag), "one attribute of every type 0..65535 x value length {0,4,8} x {magic, magic + trailing CHANGE-REQUEST} over UDP", 65536 * 3 * 2, |i| {
                let d = unrank(i, &[65536, 3, 2]);
                let mut body = stun_attr(d[0] as u16, &vec![0x5a; d[1] as usize * 4]);
                if d[2] == 1 {
                    body.extend(stun_attr(3, &[0, 0, 0, 2]));
                }
                (pu4, stun_magic(&body, &ID12))
            });
            // CHANGE-REQUEST value: all 65536 values of the low half, high half, x both IP versions
            sweep_app(rep, &env, &format!("stun-change-values-{}", tag), "CHANGE-REQUEST value low 16 bits x high 16 bits halves (65536 each) x {v4,v6}", 65536 * 2 * 2, |i| {
                let d = unrank(i, &[2, 2, 65536]);
                let v: u32 = if d[1] == 0 { d[2] as u32 } else { (d[2] as u32) << 16 };
                (if d[0] == 0 { pu4 } else { pu6 }, stun_classic(&stun_attr(3, &v.to_be_bytes()), &ID16))
            });
        }
    }
    rep.states = rep.sink.classes.len() as u64;
}

/* ------------------------------------------------------------------ C16 RPC */

pub fn run_c16(rep: &mut Report, thorough: bool) {
    rep.rule = "ONC-RPC calls: all 256 programs 99840..100095 x versions {0,1,2,3,4,5,104316,0xffffffff} x all 256 procedures (524288 calls) over UDP/IPv4 (quick) and over UDP and TCP, IPv4 and IPv6 (thorough); XID every byte position x 256 values; credential lengths {0,4,8,12,400} x verifier lengths {0,4,8}; all 65536 destination ports for GETPORT / GETADDR / DUMP; 6 destination addresses per version; judged by the independent XDR reader (XID, REPLY, MSG_ACCEPTED, null verifier, alignment, padded strings, record mark, and the precedence PROG_MISMATCH(2,4) > NULL > portmapper GETPORT/GETADDR/DUMP advertising the contacted endpoint > PROC_UNAVAIL > PROG_UNAVAIL); ADDED LATER: cuts at every offset of TCP calls, destination alphabets incl. loopback / IPv4-mapped / IPv4-compatible IPv6, pair histories, thorough: program x version x procedure over 16 edge words each, credential x verifier lengths 0..400, XID halves, byte-pair neighbourhoods".into();
    rep.assumptions = vec![
        "credential / verifier lengths that are not multiples of 4 or exceed 400 are abstained on".into(),
        "calls whose XID bytes hit a listed wildcard-shadowing event (D12) are reported as KNOWN-FINDING under this property".into(),
    ];
    // incl. values whose low byte / low half is an accepted version (truncation aliases)
    let vers = [0u32, 1, 2, 3, 4, 5, 104316, 0xffffffff, 0x102, 0x10003, 0x0100_0004, 0xffff_ff02];
    let pu4 = Path { tcp: false, v6: false, ports: 0 };
    let paths = [pu4, Path { tcp: true, v6: false, ports: 0 }, Path { tcp: false, v6: true, ports: 1 }, Path { tcp: true, v6: true, ports: 1 }];
    let mk = |p: Path, xid: u32, prog: u32, v: u32, pr: u32, cred: &[u8], verf: &[u8]| -> Vec<u8> {
        let b = apprpc::build_call(xid, 2, prog, v, pr, cred, verf);
        if p.tcp {
            apprpc::with_record_mark(&b)
        } else {
            b
        }
    };
    for env in envs(rep) {
        let tag = if env.cfg.self_ips.is_empty() { "plain" } else if env.cfg.level == crate::driver::Level::Trace { "lists-trace-dev" } else { "lists" };
        let np: u64 = if thorough { 4 } else { 2 };
        let dims = [np, 256, vers.len() as u64, 256];
        sweep_app(rep, &env, &format!("rpc-prog-vers-proc-{}", tag), "paths x 256 programs x 8 versions x 256 procedures", product(&dims), |i| {
            let d = unrank(i, &dims);
            let p = paths[d[0] as usize];
            (p, mk(p, 0x61626364, 99840 + d[1] as u32, vers[d[2] as usize], d[3] as u32, &[], &[]))
        });
        if !thorough {
            // boundaries on the other paths
            let progs = [99840u32, 99999, 100000, 100001, 100095];
            let procs = [0u32, 1, 3, 4, 5, 255];
            let dims = [3u64, progs.len() as u64, vers.len() as u64, procs.len() as u64];
            sweep_app(rep, &env, &format!("rpc-boundaries-{}", tag), "other 3 paths x 5 boundary programs x 8 versions x 6 procedures", product(&dims), |i| {
                let d = unrank(i, &dims);
                let p = paths[1 + d[0] as usize];
                (p, mk(p, 0x61626364, progs[d[1] as usize], vers[d[2] as usize], procs[d[3] as usize], &[], &[]))
            });
        }
        {
            let pt = Path { tcp: true, v6: false, ports: 0 };
            let pls = vec![mk(pt, 0x61626364, 100000, 2, 3, &[], &[]), mk(pt, 0x61626364, 100000, 4, 4, &[], &[]), mk(pt, 0x01020304, 100003, 3, 0, &[], &[]), mk(pt, 0x61626364, 100000, 2, 0, &[0; 8], &[])];
            cuts_stage(rep, &env, &format!("rpc-cuts-{}", tag), &pls, 12);
        }
        crate::props::pairs::pair_histories(rep, &env.cfg, &format!("rpc-pair-histories-{}", tag), &crate::props::pairs::datagram_variants("rpc", &[apprpc::build_call(0x61626364, 2, 100000, 2, 3, &[], &[]), apprpc::build_call(0x61626364, 2, 100000, 4, 4, &[1, 2, 3, 4], &[]), apprpc::build_call(0x01020304, 2, 100003, 3, 0, &[], &[])]));
        // record lengths: credentials of every length 0..400 (record lengths 40..440 incl. those whose
        // low byte is small), over TCP and UDP
        sweep_app(rep, &env, &format!("rpc-record-lengths-{}", tag), "credential length 0..400 step 4 x verifier length {0, 8} x {UDP v4, TCP v4, TCP v6}", 101 * 2 * 3, |i| {
            let d = unrank(i, &[101, 2, 3]);
            let cred: Vec<u8> = (0..d[0] as usize * 4).map(|k| k as u8).collect();
            let verf: Vec<u8> = vec![0x5a; d[1] as usize * 8];
            let p = [pu4, paths[1], paths[3]][d[2] as usize];
            (p, mk(p, 0x61626364, 100000, 2, 3, &cred, &verf))
        });
        // multi-fragment records (RFC 5531 record marking): the call split into two fragments at every
        // offset, and into three at a grid of offsets; each stream sent whole, cut at the fragment
        // boundary, and cut inside the second fragment header
        {
            let bodies: Vec<Vec<u8>> = vec![apprpc::build_call(0x61626364, 2, 100000, 2, 3, &[], &[]), apprpc::build_call(0x61626364, 2, 100000, 4, 4, &[1, 2, 3, 4, 5, 6, 7, 8], &[]), apprpc::build_call(0x01020304, 2, 100003, 3, 0, &[], &[])];
            let mut plan: Vec<(usize, Vec<usize>)> = Vec::new();
            for (bi, b) in bodies.iter().enumerate() {
                for a in 1..b.len() {
                    plan.push((bi, vec![a]));
                }
                for a in (4..b.len()).step_by(8) {
                    for c in ((a + 4)..b.len()).step_by(12) {
                        plan.push((bi, vec![a, c]));
                    }
                }
            }
            let np = plan.len() as u64;
            sweep_conv(rep, &env, &format!("rpc-fragments-{}", tag), "3 calls split into 2 record fragments at every offset and into 3 at a grid of offsets x {one segment, TCP cut at the first fragment boundary, TCP cut inside the second fragment header} x {v4,v6}", np * 3 * 2, |i| {
                let d = unrank(i, &[np, 3, 2]);
                let (bi, cuts) = &plan[d[0] as usize];
                let s = apprpc::with_fragments(&bodies[*bi], cuts);
                let b1 = 4 + cuts[0];
                let segs = match d[1] {
                    0 => vec![s.clone()],
                    1 => vec![s[..b1].to_vec(), s[b1..].to_vec()],
                    _ => vec![s[..b1 + 2].to_vec(), s[b1 + 2..].to_vec()],
                };
                (Path { tcp: true, v6: d[2] == 1, ports: d[2] as usize }, segs)
            });
        }
        // XID bytes
        let dims = [4u64, 4, 256];
        sweep_app(rep, &env, &format!("rpc-xid-{}", tag), "XID: every byte position x 256 values x 4 paths (GETPORT v2)", product(&dims), |i| {
            let d = unrank(i, &dims);
            let mut x = [0x61u8, 0x62, 0x63, 0x64];
            x[d[1] as usize] = d[2] as u8;
            let p = paths[d[0] as usize];
            (p, mk(p, u32::from_be_bytes(x), 100000, 2, 3, &[], &[]))
        });
        // credentials / verifiers
        let cl = [0usize, 4, 8, 12, 400];
        let vl = [0usize, 4, 8];
        let dims = [4u64, cl.len() as u64, vl.len() as u64, 4];
        sweep_app(rep, &env, &format!("rpc-creds-{}", tag), "credential lengths {0,4,8,12,400} x verifier lengths {0,4,8} x 4 calls x 4 paths", product(&dims), |i| {
            let d = unrank(i, &dims);
            let p = paths[d[0] as usize];
            let (v, pr) = [(2u32, 3u32), (4, 4), (104316, 0), (3, 0)][d[3] as usize];
            let cred: Vec<u8> = (0..cl[d[1] as usize]).map(|k| k as u8).collect();
            let verf: Vec<u8> = (0..vl[d[2] as usize]).map(|k| 0xf0 | k as u8).collect();
            (p, mk(p, 0x61626364, 100000, v, pr, &cred, &verf))
        });
        // authentication flavors: the statement answers every call for a program in range,
        // whatever the credential / verifier flavor and whatever their (opaque) bodies hold
        {
            let flavors = [0u32, 1, 2, 3, 4, 5, 6, 390003, 0x7fff_ffff, 0xffff_ffff];
            let bodies: Vec<Vec<u8>> = vec![
                vec![],
                vec![0, 0, 0, 1],
                vec![0xff; 4],
                vec![0, 0, 0, 1, 0, 0, 0, 4, b'h', b'o', b's', b't', 0, 0, 0, 0, 0, 0, 0, 0, 0, 0, 0, 0],
                vec![0, 0, 0, 1, 0, 0, 0, 200, b'h', b'o', b's', b't'],
                vec![0, 0, 0, 1, 0xff, 0xff, 0xff, 0xff, 0, 0, 0, 0],
                (0..40u8).collect(),
                vec![0x80; 400],
            ];
            let nf = flavors.len() as u64;
            let nb = bodies.len() as u64;
            sweep_app(rep, &env, &format!("rpc-auth-flavors-{}", tag), "10 credential flavors x 10 verifier flavors x 8 credential bodies (empty, one word, AUTH_SYS well-formed, AUTH_SYS with an over-long / huge machine-name length, 40 and 400 arbitrary bytes) x {same body, empty} as verifier x 2 calls x 4 paths", nf * nf * nb * 2 * 2 * 4, |i| {
                let d = unrank(i, &[4, nf, nf, nb, 2, 2]);
                let p = paths[d[0] as usize];
                let cred = &bodies[d[3] as usize];
                let verf: Vec<u8> = if d[4] == 0 { vec![] } else { cred[..cred.len().min(8)].to_vec() };
                let (v, pr) = [(2u32, 3u32), (4, 4)][d[5] as usize];
                let b = apprpc::build_call_flavors(0x61626364, 100000, v, pr, flavors[d[1] as usize], cred, flavors[d[2] as usize], &verf);
                (p, if p.tcp { apprpc::with_record_mark(&b) } else { b })
            });
        }
        if env.cfg.self_ips.is_empty() || thorough {
            let convs: Vec<(String, Vec<Vec<u8>>)> = busy_convs().into_iter().filter(|c| ["rpc"].iter().any(|p| c.0.starts_with(p))).collect();
            busy_stage(rep, &env.cfg, "C16", &format!("rpc-busy-responder-{}", tag), &convs, 70_000);
            if env.cfg.self_ips.is_empty() {
                edge_conv_stage(rep, "C16", "rpc-edge-cookie-conversations", &convs);
                sibling_conv_stage(rep, &env.cfg, "C16", "rpc-sibling-connections", &busy_convs());
            }
        }
        window_stage(rep, &env, &format!("rpc-window-getport-{}", tag), &apprpc::with_record_mark(&apprpc::build_call(0x61626364, 2, 100000, 2, 3, &[], &[])), 256);
        window_stage(rep, &env, &format!("rpc-window-dump-{}", tag), &apprpc::with_record_mark(&apprpc::build_call(0x61626364, 2, 100000, 4, 4, &[], &[])), 256);
        if env.cfg.self_ips.is_empty() || thorough {
            all_words_stage(rep, &env, &format!("rpc-all-words-{}", tag), &[apprpc::build_call(0x61626364, 2, 100000, 2, 3, &[], &[]), apprpc::build_call(0x61626364, 2, 100000, 4, 4, &[1, 2, 3, 4], &[5, 6, 7, 8])], false, thorough);
        }
        all_bytes_stage(rep, &env, &format!("rpc-all-byte-values-udp-{}", tag), &[apprpc::build_call(0x61626364, 2, 100000, 2, 3, &[], &[]), apprpc::build_call(0x61626364, 2, 100000, 4, 4, &[1, 2, 3, 4], &[5, 6, 7, 8])], false, true);
        all_bytes_stage(rep, &env, &format!("rpc-all-byte-values-tcp-{}", tag), &[apprpc::with_record_mark(&apprpc::build_call(0x61626364, 2, 100000, 3, 3, &[], &[]))], true, false);
        envelope_stage(rep, &env, &format!("rpc-envelope-tcp-{}", tag), &apprpc::with_record_mark(&apprpc::build_call(0x61626364, 2, 100000, 3, 3, &[], &[])), true, false);
        source_alphabet_stage(rep, &env, &format!("rpc-sources-udp-{}", tag), &apprpc::build_call(0x61626364, 2, 100000, 4, 3, &[], &[]), false, true);
        source_alphabet_stage(rep, &env, &format!("rpc-sources-tcp-{}", tag), &apprpc::with_record_mark(&apprpc::build_call(0x61626364, 2, 100000, 4, 3, &[], &[])), true, false);
        equal_ports_stage(rep, &env, &format!("rpc-equal-ports-{}", tag), &apprpc::build_call(0x61626364, 2, 100000, 4, 3, &[], &[]));
        envelope_stage(rep, &env, &format!("rpc-envelope-udp-{}", tag), &apprpc::build_call(0x61626364, 2, 100000, 2, 3, &[], &[]), false, true);
        // destination ports and addresses (UDP, monitor)
        let t0 = std::time::Instant::now();
        let calls = [(2u32, 3u32), (3, 3), (4, 3), (2, 4), (3, 4), (4, 4)];
        let ncalls: u64 = if thorough { 6 } else { 3 };
        let total = 65536 * ncalls * 2;
        let opts = RunOpts::new(&format!("rpc-dport-{}", tag));
        engine::run(
            &env.cfg,
            total,
            &opts,
            |i| {
                let d = unrank(i, &[2, ncalls, 65536]);
                let (v, pr) = calls[(d[1] * if thorough { 1 } else { 2 }) as usize];
                vec![Cmd::Frame(flow(d[0] == 1, 40000, d[2] as u16).udp(&apprpc::build_call(0x61626364, 2, 100000, v, pr, &[], &[])))]
            },
            |_it: &Item, _s: &mut Sink| {},
            &mut rep.sink,
        );
        rep.stage(&format!("rpc-dport-{}", tag), "GETPORT / GETADDR / DUMP x all 65536 destination ports x {v4,v6}", total, t0);
        let t0 = std::time::Instant::now();
        let d4 = [srv4(), srv4b(), Ip::V4([0, 0, 0, 0]), Ip::V4([255, 255, 255, 255]), Ip::V4([224, 0, 0, 1]), Ip::V4([1, 2, 3, 4]), Ip::V4([127, 0, 0, 1]), Ip::V4([0, 0, 0, 1])];
        let d6 = [srv6(), srv6b(), Ip::parse("::"), Ip::parse("ff02::1"), Ip::parse("::ffff:1.2.3.4"), Ip::parse("fe80::1"), Ip::parse("::1"), Ip::parse("::10.0.0.1")];
        let opts = RunOpts::new(&format!("rpc-dst-{}", tag));
        engine::run(
            &env.cfg,
            16 * 6,
            &opts,
            |i| {
                let v6 = i % 16 >= 8;
                let mut f = flow(v6, 40000, 111);
                f.sip = if v6 { d6[(i % 8) as usize] } else { d4[(i % 8) as usize] };
                let (v, pr) = calls[(i / 16) as usize];
                vec![Cmd::Frame(f.udp(&apprpc::build_call(0x61626364, 2, 100000, v, pr, &[], &[])))]
            },
            |_it: &Item, _s: &mut Sink| {},
            &mut rep.sink,
        );
        rep.stage(&format!("rpc-dst-{}", tag), "8 destination addresses per IP version (incl. loopback, IPv4-mapped and IPv4-compatible IPv6) x 6 portmapper calls", 96, t0);
        // replies of every size the responder can produce: destination addresses whose printed
        // form has every length (IPv6 up to 39 characters), x destination ports with 1..5 digits,
        // over UDP and over TCP (fresh validated flow; cookies learned first)
        {
            let t0 = std::time::Instant::now();
            let mut dsts: Vec<Ip> = vec![srv4(), Ip::V4([100, 100, 100, 100]), Ip::V4([255, 255, 255, 255]), srv6(), srv6b()];
            for a in ["2001:db8:1234:5678:9abc:def0:1357:2468", "2001:db8:1:2:3:4:5:6", "2001:db8:1234::5678:9abc", "ffff:ffff:ffff:ffff:ffff:ffff:ffff:ffff", "2001:db8:0:1:1:1:1:1", "fe80::1234:5678:9abc:def0"] {
                dsts.push(Ip::parse(a));
            }
            let ports = [1u16, 80, 111, 2049, 65535];
            let mut fl: Vec<Flow> = Vec::new();
            for d in &dsts {
                for p in ports {
                    let mut f = flow(!d.is_v4(), 40000, p);
                    f.sip = *d;
                    fl.push(f);
                }
            }
            let plain = AppEnv { cfg: crate::props::cfg_plain(), cookies: HashMap::new() };
            let ck = learn_cookies(&plain.cfg, &fl).unwrap_or_default();
            let dims = [fl.len() as u64, calls.len() as u64, 2];
            let opts = RunOpts::new(&format!("rpc-reply-sizes-{}", tag)).stateful().chunk(64).no_monitor();
            let cfgp = plain.cfg.clone();
            if env.cfg.self_ips.is_empty() {
                engine::run(
                    &plain.cfg,
                    product(&dims),
                    &opts,
                    |i| {
                        let d = unrank(i, &dims);
                        let f = &fl[d[0] as usize];
                        let (v, pr) = calls[d[1] as usize];
                        let body = apprpc::build_call(0x61626364, 2, 100000, v, pr, &[], &[]);
                        if d[2] == 0 {
                            vec![Cmd::Frame(f.udp(&body))]
                        } else {
                            let c = ck.get(&key_of(f)).copied().unwrap_or(0).wrapping_add(1);
                            vec![Cmd::Frame(f.tcp(1000, c, F_PSH | F_ACK, &apprpc::with_record_mark(&body)))]
                        }
                    },
                    |it: &Item, sk: &mut Sink| {
                        let model = Model::new();
                        engine::judge_item(&cfgp, &model, &ck, it, it.cmds.len(), "rpc-reply-sizes", sk);
                        sk.count("frames", 1);
                        if let Some(r) = &it.outs[1].reply {
                            sk.count("rpc_reply_bytes_max_seen", 0);
                            if r.len() > 300 {
                                sk.class("rpc-reply-over-256-bytes");
                            }
                        }
                    },
                    &mut rep.sink,
                );
                rep.stage(&format!("rpc-reply-sizes-{}", tag), "11 destination addresses (printed forms of every length) x 5 destination ports x 6 portmapper calls x {UDP, TCP}", product(&dims), t0);
            }
        }
        if thorough {
            let pt = Path { tcp: true, v6: true, ports: 1 };
            pair_faults_stage(rep, &env, &format!("rpc-pair-faults-udp-{}", tag), &[mk(pu4, 0x61626364, 100000, 2, 3, &[], &[])], &[pu4]);
            pair_faults_stage(rep, &env, &format!("rpc-pair-faults-tcp-{}", tag), &[mk(pt, 0x61626364, 100000, 4, 4, &[1, 2, 3, 4], &[])], &[pt]);
            // program / version / procedure over the 32-bit edge values
            let e = crate::deviate::EDGE32;
            let ne = e.len() as u64;
            sweep_app(rep, &env, &format!("rpc-edge-words-{}", tag), "program x version x procedure over 16 edge values of u32 each (+ the portmapper program) x rpc version {0,1,2,3} x 4 paths", (ne + 1) * ne * ne * 4 * 4, |i| {
                let d = unrank(i, &[ne + 1, ne, ne, 4, 4]);
                let prog = if d[0] == ne { 100000 } else { e[d[0] as usize] };
                let p = paths[d[4] as usize];
                let b = apprpc::build_call(0x61626364, d[3] as u32, prog, e[d[1] as usize], e[d[2] as usize], &[], &[]);
                (p, if p.tcp { apprpc::with_record_mark(&b) } else { b })
            });
            // credential x verifier lengths: every multiple of 4 up to 400 each
            sweep_app(rep, &env, &format!("rpc-cred-verf-lengths-{}", tag), "credential length 0..400 step 4 x verifier length 0..400 step 4 x {UDP v4, TCP v6}", 101 * 101 * 2, |i| {
                let d = unrank(i, &[101, 101, 2]);
                let cred: Vec<u8> = (0..d[0] as usize * 4).map(|k| k as u8).collect();
                let verf: Vec<u8> = (0..d[1] as usize * 4).map(|k| !(k as u8)).collect();
                let p = if d[2] == 0 { pu4 } else { pt };
                (p, mk(p, 0x61626364, 100000, 3, 3, &cred, &verf))
            });
            // XID: all 65536 values of each half
            sweep_app(rep, &env, &format!("rpc-xid-halves-{}", tag), "XID low half and high half over all 65536 values x {UDP, TCP}", 65536 * 2 * 2, |i| {
                let d = unrank(i, &[2, 2, 65536]);
                let x: u32 = if d[1] == 0 { 0x61620000 | d[2] as u32 } else { (d[2] as u32) << 16 | 0x6364 };
                let p = if d[0] == 0 { pu4 } else { pt };
                (p, mk(p, x, 100000, 2, 3, &[], &[]))
            });
        }
    }
    rep.states = rep.sink.classes.len() as u64;
}

/* ------------------------------------------------------------------ C17 SMB */

fn sequences(n_alpha: usize, maxlen: usize) -> Vec<Vec<usize>> {
    let mut v: Vec<Vec<usize>> = Vec::new();
    let mut cur: Vec<Vec<usize>> = vec![vec![]];
    for _ in 0..maxlen {
        let mut next = Vec::new();
        for s in &cur {
            for a in 0..n_alpha {
                let mut t = s.clone();
                t.push(a);
                next.push(t);
            }
        }
        v.extend(next.iter().cloned());
        cur = next;
    }
    v
}

pub fn run_c17(rep: &mut Report, thorough: bool) {
    rep.rule = "SMB1: PID-high, PID-low, TID, UID, MID each over all 65536 values; flags all 256; command all 256; dialect lists = ALL sequences of length 1..4 over 5 dialect strings (780 lists: every order, duplicates, unknown-only); session-setup blob lengths 1..64. SMB2: MessageId / AsyncId / SessionId every byte position x 256; response flag; command all 65536; dialect lists = ALL sequences of length 1..4 over 7 revisions (2800 lists); blob lengths 1..64; client GUID byte positions. Over UDP and TCP. Judged by the independent decoder (NetBIOS length, reply flag, echoed command and correlation fields, ByteCount / blob length / buffer offset consistency, selected dialect offered); ADDED LATER: ids x 34 flag words, cuts at every offset, 300-message connections, pair histories, thorough: dialect sequences of length <= 5, every revision word, byte-pair neighbourhoods of 4 requests".into();
    rep.assumptions = vec!["abstentions: session setup with a zero-length blob; negotiate with count fields that do not match the list; NetBIOS length that does not match the message; SMB2 negotiate offering only 0x02ff / 0x0310".into()];
    let pu = Path { tcp: false, v6: false, ports: 0 };
    let pt = Path { tcp: true, v6: true, ports: 1 };
    let two = [pu, pt];
    let d1 = ["NT LM 0.12", "SMB 2.???", "SMB 2.002", "PC NETWORK PROGRAM 1.0", "X"];
    let d2 = [0x0202u16, 0x0210, 0x0300, 0x0302, 0x0311, 0x02ff, 0x9999];
    let s1 = sequences(d1.len(), 4);
    let s2 = sequences(d2.len(), 4);
    for env in envs(rep) {
        let tag = if env.cfg.self_ips.is_empty() { "plain" } else if env.cfg.level == crate::driver::Level::Trace { "lists-trace-dev" } else { "lists" };
        // SMB1 ids
        let dims = [2u64, 2, 5, 65536];
        sweep_app(rep, &env, &format!("smb1-ids-{}", tag), "{negotiate, session setup} x {PID-high, PID-low, TID, UID, MID} x all 65536 values x {UDP, TCP}", product(&dims), |i| {
            let d = unrank(i, &dims);
            let mut h = Smb1Hdr::new(if d[1] == 0 { 0x72 } else { 0x73 });
            let v = d[3] as u16;
            match d[2] {
                0 => h.pid_high = v,
                1 => h.pid_low = v,
                2 => h.tid = v,
                3 => h.uid = v,
                _ => h.mid = v,
            }
            let m = if d[1] == 0 { appsmb::smb1_negotiate(&h, &["NT LM 0.12"]) } else { appsmb::smb1_session_setup(&h, &[1, 2, 3, 4, 5, 6, 7, 8]) };
            (two[d[0] as usize], m)
        });
        let dims = [2u64, 256, 256];
        sweep_app(rep, &env, &format!("smb1-flags-cmd-{}", tag), "flags 0..255 x command 0..255 x {UDP, TCP} (negotiate-shaped body)", product(&dims), |i| {
            let d = unrank(i, &dims);
            let mut h = Smb1Hdr::new(d[2] as u8);
            h.flags = d[1] as u8;
            let m = if d[2] == 0x73 { appsmb::smb1_session_setup(&h, &[9; 16]) } else { appsmb::smb1_negotiate(&h, &["NT LM 0.12", "X"]) };
            (two[d[0] as usize], m)
        });
        sweep_app(rep, &env, &format!("smb1-dialects-{}", tag), "all sequences of length 1..4 over 5 dialect strings x {UDP, TCP}", s1.len() as u64 * 2, |i| {
            let l: Vec<&str> = s1[(i / 2) as usize].iter().map(|k| d1[*k]).collect();
            (two[(i % 2) as usize], appsmb::smb1_negotiate(&Smb1Hdr::new(0x72), &l))
        });
        // names NEXT to the supported ones: every proper prefix (the empty name included), one more
        // character, one character flipped in case or replaced - offered before the genuine name,
        // after it, and alone
        {
            let mut near: Vec<String> = Vec::new();
            for k in &d1[..3] {
                for n in 0..k.len() {
                    near.push(k[..n].to_string());
                }
                for c in [" ", "X", "0", "?", ".", "\u{1}"] {
                    near.push(format!("{}{}", k, c));
                    near.push(format!("{}{}", c, k));
                }
                for n in 0..k.len() {
                    let b = k.as_bytes()[n];
                    let mut t = k.as_bytes().to_vec();
                    t[n] = if b.is_ascii_uppercase() { b.to_ascii_lowercase() } else if b.is_ascii_lowercase() { b.to_ascii_uppercase() } else { b ^ 1 };
                    near.push(String::from_utf8_lossy(&t).to_string());
                }
            }
            near.sort();
            near.dedup();
            near.retain(|n| !d1[..3].contains(&n.as_str()));
            let dims = [2u64, 3, 4, near.len() as u64];
            sweep_app(rep, &env, &format!("smb1-dialect-name-neighbours-{}", tag), "names next to the 3 supported dialect strings (every proper prefix incl. the empty name, one character more at either end, one character case-flipped / replaced) x {before, after, between two unknown, alone} x the supported name x {UDP, TCP}", product(&dims), |i| {
                let d = unrank(i, &dims);
                let nb = near[d[3] as usize].as_str();
                let k = d1[d[1] as usize];
                let l: Vec<&str> = match d[2] {
                    0 => vec![nb, k],
                    1 => vec![k, nb],
                    2 => vec!["LANMAN1.0", nb, k],
                    _ => vec![nb],
                };
                (two[d[0] as usize], appsmb::smb1_negotiate(&Smb1Hdr::new(0x72), &l))
            });
        }
        sweep_app(rep, &env, &format!("smb-blob-{}", tag), "session-setup blob lengths 1..64 x {SMB1, SMB2} x {UDP, TCP}", 64 * 2 * 2, |i| {
            let d = unrank(i, &[2, 2, 64]);
            let blob: Vec<u8> = (0..=d[2]).map(|k| k as u8).collect();
            let m = if d[1] == 0 { appsmb::smb1_session_setup(&Smb1Hdr::new(0x73), &blob) } else { appsmb::smb2_session_setup(&Smb2Hdr::new(1), &blob) };
            (two[d[0] as usize], m)
        });
        sweep_app(rep, &env, &format!("smb-blob-long-{}", tag), "session-setup blob lengths 65..1300 x {SMB1, SMB2} x {UDP, TCP}", 1236 * 2 * 2, |i| {
            let d = unrank(i, &[2, 2, 1236]);
            let blob: Vec<u8> = (0..d[2] + 65).map(|k| (k * 3) as u8).collect();
            let m = if d[1] == 0 { appsmb::smb1_session_setup(&Smb1Hdr::new(0x73), &blob) } else { appsmb::smb2_session_setup(&Smb2Hdr::new(1), &blob) };
            (two[d[0] as usize], m)
        });
        sweep_app(rep, &env, &format!("smb-dialects-long-{}", tag), "dialect lists of every length 1..320 (SMB1: distinct strings ending with NT LM 0.12; SMB2: distinct revisions ending with 0x0311) x {UDP, TCP}", 320 * 2 * 2, |i| {
            let d = unrank(i, &[2, 2, 320]);
            let n = d[2] as usize + 1;
            let m = if d[1] == 0 {
                let names: Vec<String> = (0..n - 1).map(|k| format!("D{}", k)).chain(["NT LM 0.12".to_string()]).collect();
                let refs: Vec<&str> = names.iter().map(|x| x.as_str()).collect();
                appsmb::smb1_negotiate(&Smb1Hdr::new(0x72), &refs)
            } else {
                let revs: Vec<u16> = (0..n - 1).map(|k| 0x1000 + k as u16).chain([0x0311]).collect();
                appsmb::smb2_negotiate(&Smb2Hdr::new(0), &revs, &[5; 16])
            };
            (two[d[0] as usize], m)
        });
        // SMB2 ids
        let dims = [2u64, 2, 3, 8, 256];
        sweep_app(rep, &env, &format!("smb2-ids-{}", tag), "{negotiate, session setup} x {MessageId, AsyncId, SessionId} x every byte position x 256 values x {UDP, TCP}", product(&dims), |i| {
            let d = unrank(i, &dims);
            let mut h = Smb2Hdr::new(d[1] as u16);
            let v = (d[4] as u64) << (8 * d[3]) | 0x0101010101010101 & !(0xffu64 << (8 * d[3]));
            match d[2] {
                0 => h.message_id = v,
                1 => h.async_id = v,
                _ => h.session_id = v,
            }
            let m = if d[1] == 0 { appsmb::smb2_negotiate(&h, &[0x0210, 0x0202], &[3; 16]) } else { appsmb::smb2_session_setup(&h, &[1, 2, 3, 4]) };
            (two[d[0] as usize], m)
        });
        crate::props::pairs::pair_histories(rep, &env.cfg, &format!("smb-pair-histories-{}", tag), &crate::props::pairs::datagram_variants("smb", &[appsmb::smb1_negotiate(&Smb1Hdr::new(0x72), &["NT LM 0.12"]), appsmb::smb2_negotiate(&Smb2Hdr::new(0), &[0x0202, 0x0311], &[5; 16]), appsmb::smb2_session_setup(&Smb2Hdr::new(1), &[7; 8]), appsmb::smb1_session_setup(&Smb1Hdr::new(0x73), &[1, 2, 3, 4])]));
        // correlation fields are echoed whatever the other header fields say: ids x flag words
        let flagv: Vec<u32> = std::iter::once(0u32).chain((1..32).map(|b| 1u32 << b)).chain([6u32, 0xfffffffe]).collect();
        let dims = [2u64, 2, flagv.len() as u64, 3];
        sweep_app(rep, &env, &format!("smb2-ids-flags-{}", tag), "{negotiate, session setup} x flag words {0, each single bit 1..31, 6, all-but-response} x {MessageId, AsyncId, SessionId non-zero} x {UDP, TCP}", product(&dims), |i| {
            let d = unrank(i, &dims);
            let mut h = Smb2Hdr::new(d[1] as u16);
            h.flags = flagv[d[2] as usize];
            h.message_id = 0x0102030405060708;
            match d[3] {
                0 => {}
                1 => h.async_id = 0x1112131415161718,
                _ => h.session_id = 0x2122232425262728,
            }
            let m = if d[1] == 0 { appsmb::smb2_negotiate(&h, &[0x0210, 0x0202], &[3; 16]) } else { appsmb::smb2_session_setup(&h, &[1, 2, 3, 4]) };
            (two[d[0] as usize], m)
        });
        {
            let pls = vec![appsmb::smb1_negotiate(&Smb1Hdr::new(0x72), &["NT LM 0.12"]), appsmb::smb2_negotiate(&Smb2Hdr::new(0), &[0x0202, 0x0311], &[5; 16]), appsmb::smb2_session_setup(&Smb2Hdr::new(1), &[7; 8])];
            cuts_stage(rep, &env, &format!("smb-cuts-{}", tag), &pls, 12);
            long_conv_stage(rep, &env, &format!("smb1-long-connection-{}", tag), None, &[appsmb::smb1_negotiate(&Smb1Hdr::new(0x72), &["NT LM 0.12"]), appsmb::smb1_session_setup(&Smb1Hdr::new(0x73), &[7; 8])], if thorough { 1500 } else { 300 });
            long_conv_stage(rep, &env, &format!("smb2-long-connection-{}", tag), None, &[pls[1].clone(), pls[2].clone(), appsmb::smb2_negotiate(&Smb2Hdr::new(0), &[0x0311, 0x0311, 0x0202], &[6; 16])], if thorough { 1500 } else { 300 });
            window_stage(rep, &env, &format!("smb1-window-{}", tag), &pls[0], 512);
            if env.cfg.self_ips.is_empty() || thorough {
            let convs: Vec<(String, Vec<Vec<u8>>)> = busy_convs().into_iter().filter(|c| ["smb"].iter().any(|p| c.0.starts_with(p))).collect();
            busy_stage(rep, &env.cfg, "C17", &format!("smb-busy-responder-{}", tag), &convs, 70_000);
            if env.cfg.self_ips.is_empty() {
                edge_conv_stage(rep, "C17", "smb-edge-cookie-conversations", &convs);
                sibling_conv_stage(rep, &env.cfg, "C17", "smb-sibling-connections", &busy_convs());
            }
        }
            window_stage(rep, &env, &format!("smb2-window-{}", tag), &pls[1], 512);
            source_alphabet_stage(rep, &env, &format!("smb1-sources-{}", tag), &pls[0], true, false);
            source_alphabet_stage(rep, &env, &format!("smb2-sources-{}", tag), &pls[1], true, false);
            envelope_stage(rep, &env, &format!("smb1-envelope-{}", tag), &pls[0], true, true);
            all_bytes_stage(rep, &env, &format!("smb-all-byte-values-{}", tag), &pls, true, false);
            if env.cfg.self_ips.is_empty() || thorough {
                let mut w = pls.clone();
                w.push(appsmb::smb1_session_setup(&Smb1Hdr::new(0x73), &[7; 8]));
                all_words_stage(rep, &env, &format!("smb-all-words-{}", tag), &w, true, thorough);
            }
            envelope_stage(rep, &env, &format!("smb2-envelope-{}", tag), &pls[1], true, true);
        }
        let dims = [2u64, 2, 65536];
        sweep_app(rep, &env, &format!("smb2-cmd-flags-{}", tag), "command 0..65535 x response flag x {UDP, TCP}", product(&dims), |i| {
            let d = unrank(i, &dims);
            let mut h = Smb2Hdr::new(d[2] as u16);
            h.flags = d[1] as u32;
            let m = if d[2] == 1 { appsmb::smb2_session_setup(&h, &[1, 2, 3, 4]) } else { appsmb::smb2_negotiate(&h, &[0x0202, 0x0311], &[3; 16]) };
            (two[d[0] as usize], m)
        });
        sweep_app(rep, &env, &format!("smb2-dialects-{}", tag), "all sequences of length 1..4 over 7 revisions x {UDP, TCP}", s2.len() as u64 * 2, |i| {
            let l: Vec<u16> = s2[(i / 2) as usize].iter().map(|k| d2[*k]).collect();
            (two[(i % 2) as usize], appsmb::smb2_negotiate(&Smb2Hdr::new(0), &l, &[5; 16]))
        });
        sweep_app(rep, &env, &format!("smb2-guid-{}", tag), "client GUID: every byte position x 256 values", 16 * 256, |i| {
            let mut g = [0x11u8; 16];
            g[(i / 256) as usize] = i as u8;
            (pu, appsmb::smb2_negotiate(&Smb2Hdr::new(0), &[0x0302], &g))
        });
        // every revision word as the only dialect, after a supported one and before one
        sweep_app(rep, &env, &format!("smb2-dialect-words-{}", tag), "dialect revision 0..65535 offered alone, after 0x0202 and before 0x0311", 65536 * 3, |i| {
            let r = (i % 65536) as u16;
            let l: Vec<u16> = match i / 65536 {
                0 => vec![r],
                1 => vec![0x0202, r],
                _ => vec![r, 0x0311],
            };
            (pu, appsmb::smb2_negotiate(&Smb2Hdr::new(0), &l, &[5; 16]))
        });
        // conversations on one TCP connection: negotiate, then session setup (and variants of the
        // second message: reply flag, other commands, the other SMB generation's magic)
        {
            let n1 = appsmb::smb1_negotiate(&Smb1Hdr::new(0x72), &["NT LM 0.12"]);
            let n2 = appsmb::smb2_negotiate(&Smb2Hdr::new(0), &[0x0202, 0x0311], &[5; 16]);
            let mut seconds: Vec<Vec<u8>> = Vec::new();
            for cmd in [0x72u8, 0x73, 0x75, 0x00] {
                for fl in [0x18u8, 0x98] {
                    let mut h = Smb1Hdr::new(cmd);
                    h.flags = fl;
                    h.mid = 0x4242;
                    seconds.push(if cmd == 0x73 { appsmb::smb1_session_setup(&h, &[1, 2, 3, 4, 5, 6]) } else { appsmb::smb1_negotiate(&h, &["X", "NT LM 0.12"]) });
                }
            }
            for cmd in [0u16, 1, 2, 5] {
                for fl in [0u32, 1] {
                    let mut h = Smb2Hdr::new(cmd);
                    h.flags = fl;
                    h.message_id = 0x1122334455667788;
                    seconds.push(if cmd == 1 { appsmb::smb2_session_setup(&h, &[9; 12]) } else { appsmb::smb2_negotiate(&h, &[0x0300, 0x0210], &[6; 16]) });
                }
            }
            let ns = seconds.len() as u64;
            sweep_conv(rep, &env, &format!("smb-conversations-{}", tag), "[negotiate (SMB1 or SMB2)] then a second message out of 16 (both generations x commands x reply flag) then a third = session setup, x {v4,v6}", 2 * ns * 2, |i| {
                let d = unrank(i, &[2, 2, ns]);
                let first = if d[0] == 0 { n1.clone() } else { n2.clone() };
                let third = if d[0] == 0 { appsmb::smb1_session_setup(&Smb1Hdr::new(0x73), &[7; 8]) } else { appsmb::smb2_session_setup(&Smb2Hdr::new(1), &[7; 8]) };
                (Path { tcp: true, v6: d[1] == 1, ports: d[1] as usize }, vec![first, seconds[d[2] as usize].clone(), third])
            });
        }
        // whatever dialect a negotiate selected, the NEXT message of the connection is judged as
        // what it is: every dialect list of length <= 2 (both generations), then a session setup /
        // negotiate of either generation
        {
            let l1: Vec<&Vec<usize>> = s1.iter().filter(|l| l.len() <= 2).collect();
            let l2: Vec<&Vec<usize>> = s2.iter().filter(|l| l.len() <= 2).collect();
            let nl = (l1.len() + l2.len()) as u64;
            sweep_conv(rep, &env, &format!("smb-conversations-after-dialects-{}", tag), "[negotiate offering every dialect list of length <= 2 (SMB1: over 5 strings, SMB2: over 7 revisions)] then {SMB1 session setup, SMB2 session setup, SMB1 negotiate, SMB2 negotiate} x {v4,v6}", nl * 4 * 2, |i| {
                let d = unrank(i, &[2, 4, nl]);
                let k = d[2] as usize;
                let first = if k < l1.len() {
                    let l: Vec<&str> = l1[k].iter().map(|x| d1[*x]).collect();
                    appsmb::smb1_negotiate(&Smb1Hdr::new(0x72), &l)
                } else {
                    let l: Vec<u16> = l2[k - l1.len()].iter().map(|x| d2[*x]).collect();
                    appsmb::smb2_negotiate(&Smb2Hdr::new(0), &l, &[5; 16])
                };
                let second = match d[1] {
                    0 => appsmb::smb1_session_setup(&Smb1Hdr::new(0x73), &[7; 8]),
                    1 => appsmb::smb2_session_setup(&Smb2Hdr::new(1), &[7; 8]),
                    2 => appsmb::smb1_negotiate(&Smb1Hdr::new(0x72), &["NT LM 0.12"]),
                    _ => appsmb::smb2_negotiate(&Smb2Hdr::new(0), &[0x0202, 0x0311], &[5; 16]),
                };
                (Path { tcp: true, v6: d[0] == 1, ports: d[0] as usize }, vec![first, second])
            });
        }
        // the selected dialect is a function of WHICH dialects are offered and in which order
        // they first appear: repeating an entry must not change the dialect selected
        // (differential: list L vs L with repetitions removed)
        {
            let t0 = std::time::Instant::now();
            let dedup = |l: &Vec<usize>| -> Vec<usize> {
                let mut o: Vec<usize> = Vec::new();
                for x in l {
                    if !o.contains(x) {
                        o.push(*x);
                    }
                }
                o
            };
            let with_dups1: Vec<&Vec<usize>> = s1.iter().filter(|l| dedup(l).len() != l.len()).collect();
            let with_dups2: Vec<&Vec<usize>> = s2.iter().filter(|l| dedup(l).len() != l.len()).collect();
            let total = (with_dups1.len() + with_dups2.len()) as u64;
            let opts = RunOpts::new(&format!("smb-dialect-repetition-{}", tag)).no_monitor();
            let f = flow4(40000, 445);
            let cfgc = env.cfg.clone();
            engine::run(
                &env.cfg,
                total,
                &opts,
                |i| {
                    let i = i as usize;
                    if i < with_dups1.len() {
                        let l = with_dups1[i];
                        let a: Vec<&str> = l.iter().map(|k| d1[*k]).collect();
                        let b: Vec<&str> = dedup(l).iter().map(|k| d1[*k]).collect();
                        vec![Cmd::Frame(f.udp(&appsmb::smb1_negotiate(&Smb1Hdr::new(0x72), &a))), Cmd::Frame(f.udp(&appsmb::smb1_negotiate(&Smb1Hdr::new(0x72), &b)))]
                    } else {
                        let l = with_dups2[i - with_dups1.len()];
                        let a: Vec<u16> = l.iter().map(|k| d2[*k]).collect();
                        let b: Vec<u16> = dedup(l).iter().map(|k| d2[*k]).collect();
                        vec![Cmd::Frame(f.udp(&appsmb::smb2_negotiate(&Smb2Hdr::new(0), &a, &[5; 16]))), Cmd::Frame(f.udp(&appsmb::smb2_negotiate(&Smb2Hdr::new(0), &b, &[5; 16])))]
                    }
                },
                |it: &Item, sk: &mut Sink| {
                    sk.count("frames", 2);
                    let i = it.idx as usize;
                    let app = |k: usize| it.outs[k].reply.as_deref().and_then(crate::mask::app_payload).map(|(_, p)| p);
                    let (ra, rb) = (app(0), app(1));
                    let sel: Option<(String, String)> = match (&ra, &rb) {
                        (Some(a), Some(b)) => {
                            if i < with_dups1.len() {
                                let l = with_dups1[i];
                                let dl = dedup(l);
                                // DialectIndex: NetBIOS(4) + SMB1 header(32) + WordCount(1)
                                let ia = a.get(37..39).map(|x| u16::from_le_bytes([x[0], x[1]]) as usize);
                                let ib = b.get(37..39).map(|x| u16::from_le_bytes([x[0], x[1]]) as usize);
                                match (ia, ib) {
                                    (Some(ia), Some(ib)) => Some((l.get(ia).map(|k| d1[*k].to_string()).unwrap_or(format!("index {}", ia)), dl.get(ib).map(|k| d1[*k].to_string()).unwrap_or(format!("index {}", ib)))),
                                    _ => None,
                                }
                            } else {
                                // DialectRevision: NetBIOS(4) + SMB2 header(64) + 4
                                let ra = a.get(72..74).map(|x| u16::from_le_bytes([x[0], x[1]]));
                                let rb = b.get(72..74).map(|x| u16::from_le_bytes([x[0], x[1]]));
                                match (ra, rb) {
                                    (Some(x), Some(y)) => Some((format!("{:#06x}", x), format!("{:#06x}", y))),
                                    _ => None,
                                }
                            }
                        }
                        (None, None) => None,
                        _ => Some(("answered".into(), "not answered".into())),
                    };
                    if let Some((x, y)) = sel {
                        if x != y {
                            sk.violation(crate::engine::Violation {
                                prop: "C17".into(),
                                key: format!("dialect-depends-on-repetition:{}", if i < with_dups1.len() { "smb1" } else { "smb2" }),
                                what: format!("negotiate with a repeated dialect selects '{}', the same list without the repetition selects '{}'", x, y),
                                cfg: cfgc.clone(),
                                cmds: it.cmds.to_vec(),
                                idx: it.idx,
                                stage: "smb-dialect-repetition".into(),
                            });
                        }
                    }
                },
                &mut rep.sink,
            );
            rep.stage(&format!("smb-dialect-repetition-{}", tag), "every dialect list with a repetition (SMB1: sequences over 5 strings, SMB2: over 7 revisions) vs the same list without repetitions: same dialect selected", total, t0);
        }
        // inconsistent counts (C01 + abstention)
        sweep_app(rep, &env, &format!("smb-counts-{}", tag), "SMB2 DialectCount 0..8 vs 3 dialects present; SMB1 ByteCount -3..+3; blob length field 0..12 vs 8 bytes", 9 + 7 + 13, |i| {
            if i < 9 {
                let mut m = appsmb::smb2_negotiate(&Smb2Hdr::new(0), &[0x0202, 0x0210, 0x0300], &[5; 16]);
                m[4 + 64 + 2] = i as u8;
                (pu, m)
            } else if i < 16 {
                let mut m = appsmb::smb1_negotiate(&Smb1Hdr::new(0x72), &["NT LM 0.12"]);
                let bc = m[4 + 32 + 1] as i32 + (i as i32 - 9 - 3);
                m[4 + 32 + 1] = bc as u8;
                (pu, m)
            } else {
                let mut m = appsmb::smb2_session_setup(&Smb2Hdr::new(1), &[7; 8]);
                m[4 + 64 + 14] = (i - 16) as u8;
                (pu, m)
            }
        });
        if thorough {
            let bases: Vec<Vec<u8>> = vec![
                appsmb::smb1_negotiate(&Smb1Hdr::new(0x72), &["NT LM 0.12"]),
                appsmb::smb1_session_setup(&Smb1Hdr::new(0x73), &[1, 2, 3, 4]),
                appsmb::smb2_negotiate(&Smb2Hdr::new(0), &[0x0202, 0x0311], &[5; 16]),
                appsmb::smb2_session_setup(&Smb2Hdr::new(1), &[7; 8]),
            ];
            pair_faults_stage(rep, &env, &format!("smb-pair-faults-{}", tag), &bases, &two);
            // longer dialect sequences
            let s1l = sequences(d1.len(), 5);
            sweep_app(rep, &env, &format!("smb1-dialects-5-{}", tag), "all sequences of length 1..5 over 5 dialect strings (3905) x {UDP, TCP}", s1l.len() as u64 * 2, |i| {
                let l: Vec<&str> = s1l[(i / 2) as usize].iter().map(|k| d1[*k]).collect();
                (two[(i % 2) as usize], appsmb::smb1_negotiate(&Smb1Hdr::new(0x72), &l))
            });
            let s2l = sequences(d2.len(), 5);
            sweep_app(rep, &env, &format!("smb2-dialects-5-{}", tag), "all sequences of length 1..5 over 7 revisions (19607) x {UDP, TCP}", s2l.len() as u64 * 2, |i| {
                let l: Vec<u16> = s2l[(i / 2) as usize].iter().map(|k| d2[*k]).collect();
                (two[(i % 2) as usize], appsmb::smb2_negotiate(&Smb2Hdr::new(0), &l, &[5; 16]))
            });
        }
    }
    rep.states = rep.sink.classes.len() as u64;
}

/* ------------------------------------------------------------------ C18 SSH / Gh0st */

pub fn run_c18(rep: &mut Report, thorough: bool) {
    rep.rule = "SSH: for each of the two signature prefixes, EVERY string of length <= 5 (thorough: <= 7) over the 9-symbol alphabet {'-', '.', '0', 'a', SP, CR, LF, 00, ff} appended after the prefix, and the same set with a well-formed tail '-x CR LF' appended; the unit tests' banners with every single-byte fault; Gh0st: magic followed by every tail of length <= 3 over the same alphabet, a captured request, and tails of 1, 2, 4 KB; over UDP and TCP; judged by the independent recogniser of 'SSH-<digits and dots>-<software>[ SP comment] CR LF' (reply exactly 'SSH-2.0-1 CR LF') and the Gh0st frame decoder (declared total length, zlib body inflating to the declared length); ADDED LATER: cuts at every offset and two cuts in the head of every banner, 300-banner connections, pair histories, thorough: strings of length <= 7 and byte-pair neighbourhoods".into();
    rep.assumptions = vec!["abstentions: empty software string, empty comment".into()];
    let alpha: [u8; 9] = [b'-', b'.', b'0', b'a', b' ', b'\r', b'\n', 0x00, 0xff];
    let maxlen: u32 = if thorough { 7 } else { 5 };
    let mut total_strings = 0u64;
    let mut offs = vec![0u64];
    for l in 0..=maxlen {
        total_strings += 9u64.pow(l);
        offs.push(total_strings);
    }
    let string_of = |mut k: u64| -> Vec<u8> {
        let l = offs.partition_point(|o| *o <= k) - 1;
        k -= offs[l];
        let mut v = Vec::with_capacity(l);
        for _ in 0..l {
            v.push(alpha[(k % 9) as usize]);
            k /= 9;
        }
        v
    };
    let pu = Path { tcp: false, v6: false, ports: 0 };
    let pt = Path { tcp: true, v6: true, ports: 1 };
    let banners: Vec<&[u8]> = vec![b"SSH-2.0-SOFTWARE COMMENT\r\n", b"SSH-1.99-SOFTWARE COMMENT\r\n", b"SSH-2.0-SOFT WARE COMMENT\r\n", b"SSH-2.0-SOFTWARE  COMMENT\r\n", b"SSH-2.0-SOFT\rWARE COM\rMENT\r\n", b"SSH-2.0-SOFTWARE\r\n", b"SSH-2.0-SOFTWARE COMMENT\n", b"SSH-2.0-SOFTWARE COMMENT\r", b"SSH-1.99-S C\r\n", b"SSH-2.0.1-a\r\n", b"SSH-2.0-a\r\r\n"];
    for env in envs(rep) {
        let tag = if env.cfg.self_ips.is_empty() { "plain" } else if env.cfg.level == crate::driver::Level::Trace { "lists-trace-dev" } else { "lists" };
        let dims = [2u64, 2, 2, total_strings];
        sweep_app(rep, &env, &format!("ssh-strings-{}", tag), "prefix {SSH-2.0, SSH-1.99} x {bare, + '-x CR LF'} x {UDP, TCP} x all strings of length <= L over 9 symbols", product(&dims), |i| {
            let d = unrank(i, &dims);
            let mut m: Vec<u8> = if d[0] == 0 { b"SSH-2.0".to_vec() } else { b"SSH-1.99".to_vec() };
            m.extend(string_of(d[3]));
            if d[1] == 1 {
                m.extend_from_slice(b"-x\r\n");
            }
            (if d[2] == 0 { pu } else { pt }, m)
        });
        let mut boffs = vec![0u64];
        for b in &banners {
            boffs.push(boffs.last().unwrap() + crate::props::apps::fault_count(b));
        }
        sweep_app(rep, &env, &format!("ssh-banner-faults-{}", tag), "11 banners x every single-byte deletion / substitution / insertion / proper prefix x {UDP, TCP}", *boffs.last().unwrap() * 2, |i| {
            let j = i / 2;
            let k = boffs.partition_point(|o| *o <= j) - 1;
            (if i % 2 == 0 { pu } else { pt }, fault(banners[k], j - boffs[k]))
        });
        sweep_app(rep, &env, &format!("ssh-long-{}", tag), "software / comment / version of every length 1..1300 x {UDP, TCP}", 1300 * 3 * 2, |i| {
            let d = unrank(i, &[1300, 3, 2]);
            let n = d[0] as usize + 1;
            let m: Vec<u8> = match d[1] {
                0 => [b"SSH-2.0-".to_vec(), vec![b's'; n], b"\r\n".to_vec()].concat(),
                1 => [b"SSH-1.99-x ".to_vec(), vec![b'c'; n], b"\r\n".to_vec()].concat(),
                _ => [b"SSH-2.0".to_vec(), vec![b'.'; n], b"-x\r\n".to_vec()].concat(),
            };
            (if d[2] == 0 { pu } else { pt }, m)
        });
        crate::props::pairs::pair_histories(rep, &env.cfg, &format!("ssh-pair-histories-{}", tag), &crate::props::pairs::datagram_variants("ssh", &[b"SSH-2.0-OpenSSH_8.9 x\r\n".to_vec(), b"SSH-1.99-a\r\n".to_vec(), ghost_request()]));
        // an unterminated / malformed identification first, then complete ones on the same connection
        {
            let bad: Vec<&[u8]> = vec![b"SSH-2.0-OpenSSH_8.9p1", b"SSH-2.0x\r\n", b"SSH-1.99-", b"SSH-2.0-a\r", b"SSH-2.0"];
            let good: Vec<&[u8]> = vec![b"SSH-2.0-OpenSSH_8.9p1\r\n", b"SSH-1.99-x y\r\n"];
            let nb = bad.len() as u64;
            sweep_conv(rep, &env, &format!("ssh-after-invalid-{}", tag), "[identification that is not answered (5 shapes)] then complete identifications on the same connection x {v4,v6}", nb * 2 * 2, |i| {
                let d = unrank(i, &[nb, 2, 2]);
                (Path { tcp: true, v6: d[2] == 1, ports: d[2] as usize }, vec![bad[d[0] as usize].to_vec(), good[d[1] as usize].to_vec(), good[(1 - d[1]) as usize].to_vec()])
            });
        }
        // later segments on a connection identified as SSH are identification strings of their own
        {
            let firsts: [&[u8]; 2] = [b"SSH-2.0-first\r\n", b"SSH-1.99-first c\r\n"];
            let b0: &[u8] = b"SSH-2.0-OpenSSH_8.9 x\r\n";
            let nf = fault_count(b0);
            sweep_conv(rep, &env, &format!("ssh-second-segment-{}", tag), "[valid identification] then a second segment: every single-byte fault of a banner, plus well-formed ones, x 2 first banners x {v4,v6}", (nf + 4) * 2 * 2, |i| {
                let d = unrank(i, &[2, 2, nf + 4]);
                let second: Vec<u8> = if d[2] < nf {
                    fault(b0, d[2])
                } else {
                    [b"SSH-2.0-second\r\n".to_vec(), b"SSH-1.99-z\r\r\n".to_vec(), b"ssh-2.0-x\r\n".to_vec(), b"XXXX2.0-x\r\n".to_vec()][(d[2] - nf) as usize].clone()
                };
                (Path { tcp: true, v6: d[1] == 1, ports: d[1] as usize }, vec![firsts[d[0] as usize].to_vec(), second])
            });
        }
        {
            let mut pls: Vec<Vec<u8>> = banners.iter().map(|b| b.to_vec()).collect();
            pls.push(ghost_request());
            cuts_stage(rep, &env, &format!("ssh-ghost-cuts-{}", tag), &pls, 12);
            long_conv_stage(rep, &env, &format!("ssh-long-connection-{}", tag), None, &[b"SSH-2.0-a\r\n".to_vec(), b"SSH-1.99-b c\r\n".to_vec()], if thorough { 1500 } else { 300 });
            long_conv_stage(rep, &env, &format!("ghost-long-connection-{}", tag), None, &[ghost_request()], if thorough { 300 } else { 60 });
            window_stage(rep, &env, &format!("ssh-window-{}", tag), b"SSH-2.0-w\r\n", 256);
            if env.cfg.self_ips.is_empty() || thorough {
            let convs: Vec<(String, Vec<Vec<u8>>)> = busy_convs().into_iter().filter(|c| ["ssh", "ghost"].iter().any(|p| c.0.starts_with(p))).collect();
            busy_stage(rep, &env.cfg, "C18", &format!("ssh-ghost-busy-responder-{}", tag), &convs, 70_000);
            if env.cfg.self_ips.is_empty() {
                edge_conv_stage(rep, "C18", "ssh-ghost-edge-cookie-conversations", &convs);
                sibling_conv_stage(rep, &env.cfg, "C18", "ssh-ghost-sibling-connections", &busy_convs());
            }
        }
            window_stage(rep, &env, &format!("ghost-window-{}", tag), &ghost_request(), 256);
            source_alphabet_stage(rep, &env, &format!("ssh-sources-{}", tag), b"SSH-2.0-s\r\n", true, true);
            source_alphabet_stage(rep, &env, &format!("ghost-sources-{}", tag), &ghost_request(), true, true);
            envelope_stage(rep, &env, &format!("ssh-envelope-{}", tag), b"SSH-2.0-e\r\n", true, true);
            if env.cfg.self_ips.is_empty() || thorough {
                all_words_stage(rep, &env, &format!("ssh-ghost-all-words-{}", tag), &[b"SSH-2.0-ab c\r\n".to_vec(), ghost_request()], true, thorough);
            }
            all_bytes_stage(rep, &env, &format!("ssh-ghost-all-byte-values-{}", tag), &[b"SSH-2.0-ab c\r\n".to_vec(), b"SSH-1.99-x\n".to_vec(), ghost_request()], true, true);
            envelope_stage(rep, &env, &format!("ghost-envelope-{}", tag), &ghost_request(), true, true);
        }
        let gt = 1 + 9 + 81 + 729;
        sweep_app(rep, &env, &format!("ghost-tails-{}", tag), "Gh0st magic + every tail of length <= 3 over 9 symbols, the captured request, tails of 1/2/4 KB, x {UDP v4, TCP v6, UDP v6, TCP v4}", (gt + 4) * 4, |i| {
            let k = i / 4;
            let p = [pu, pt, Path { tcp: false, v6: true, ports: 1 }, Path { tcp: true, v6: false, ports: 0 }][(i % 4) as usize];
            let mut m = b"Gh0st".to_vec();
            if k < gt {
                m.extend(string_of(k));
            } else {
                match k - gt {
                    0 => m = ghost_request(),
                    1 => m.extend(vec![0x41; 1024]),
                    2 => m.extend(vec![0x00; 2048]),
                    _ => m.extend(vec![0xff; 3900]),
                }
            }
            (p, m)
        });
        if thorough {
            let bases: Vec<Vec<u8>> = vec![b"SSH-2.0-OpenSSH_8.9 x\r\n".to_vec(), b"SSH-1.99-a\r\n".to_vec(), ghost_request()[..ghost_request().len().min(40)].to_vec()];
            pair_faults_stage(rep, &env, &format!("ssh-ghost-pair-faults-{}", tag), &bases, &[pu, pt]);
        }
    }
    rep.states = rep.sink.classes.len() as u64;
}
