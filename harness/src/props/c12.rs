//! C12 — only requests are answered: protocol-marked replies never elicit a reply.

use std::collections::BTreeMap;
use std::sync::Mutex;

use crate::appdns;
use crate::apprpc;
use crate::appsmb::{self, Smb1Hdr, Smb2Hdr};
use crate::corpus::*;
use crate::driver::{Cfg, Cmd, MAC_SRV};
use crate::engine::{self, product, unrank, Item, Report, RunOpts, Sink, Violation};
use crate::model::{Model, ModelTable};
use crate::props::{cfg_lists, cfg_plain};
use crate::wire::*;

/// Re-address a frame emitted by the responder so that it comes back to it: MACs, IPs and
/// ports swapped, everything else (TCP seq/ack, payload) as received.  Checksums recomputed.
pub fn readdress(r: &[u8]) -> Option<Vec<u8>> {
    let e = parse_eth(r)?;
    match e.et {
        ET_ARP => {
            let a = Arp::parse(e.payload)?;
            let b = Arp {
                sha: a.tha,
                spa: a.tpa,
                tha: a.sha,
                tpa: a.spa,
                ..a.clone()
            };
            Some(eth(&e.src, &e.dst, ET_ARP, &b.bytes()))
        }
        ET_IP4 | ET_IP6 => {
            let ipk = if e.et == ET_IP4 { parse_ipv4(e.payload)? } else { parse_ipv6(e.payload)? };
            let (src, dst) = (ipk.dst, ipk.src);
            let l4 = match ipk.proto {
                P_ICMP => ipk.payload.to_vec(),
                P_ICMP6 => {
                    let p = ipk.payload;
                    if p.len() < 4 {
                        return None;
                    }
                    icmp6(&src, &dst, p[0], p[1], &p[4..])
                }
                P_TCP => {
                    let t = parse_tcp(ipk.payload)?;
                    let mut s = TcpSeg::new(t.dport, t.sport, t.seq, t.ack, t.flags, t.payload);
                    s.window = t.window;
                    s.bytes(&src, &dst)
                }
                P_UDP => {
                    let u = parse_udp(ipk.payload)?;
                    udp(&src, &dst, u.dport, u.sport, u.payload)
                }
                _ => return None,
            };
            Some(eth(&e.src, &e.dst, e.et, &ip(&src, &dst, ipk.proto, &l4)))
        }
        _ => None,
    }
}

/// Strict C12 oracle for one reply-typed message: silence, unless the reference says the bytes
/// are a valid request that MUST be answered.
fn strict(cfg: &Cfg, model: &Model, tag: &str, it: &Item, k: usize, sk: &mut Sink, stage: &str) {
    if let Cmd::Frame(f) = &it.cmds[k] {
        let o = &it.outs[k];
        if o.panicked || o.reply.is_none() {
            return;
        }
        let mut tbl = ModelTable::new();
        let j = model.judge(cfg, &mut tbl, f, o.reply.as_deref());
        // (a query followed by bytes that may be its records: the reference abstains, the bytes may
        // well be a request)
        let lenient_valid = j.abstained.as_deref() == Some("dns-trailing-bytes") || j.abstained.as_deref() == Some("dns-query-with-records");
        let must_answer = lenient_valid || (j.abstained.is_none() && !j.class.contains("silent") && !j.class.starts_with("abstain"));
        if !must_answer {
            sk.violation(Violation {
                prop: "C12".into(),
                key: format!("reply-typed-answered:{}", tag),
                what: format!("reply-typed {} message elicited a reply although the bytes are not a valid request of any protocol (model: {} / {:?}): {}", tag, j.class, j.abstained, hex(o.reply.as_ref().unwrap())),
                cfg: cfg.clone(),
                cmds: vec![it.cmds[k].clone()],
                idx: it.idx,
                stage: stage.to_string(),
            });
        }
    }
}

pub fn run(rep: &mut Report, thorough: bool) {
    rep.rule = "(a) every distinct reply the responder produces for the base corpus (both transports, both IP versions), re-addressed to it; (b) protocol-marked replies built directly: ARP op 2, ICMP type 0, ICMPv6 129/136, every TCP flag set containing RST or equal to SYN|ACK, DNS all 32768 flag words with QR=1 x question counts 0..3 x answer counts 0..2, STUN all 65536 message-type words on 20- and 28-byte messages, SMB1 all 256 flag bytes x {negotiate, session setup}, SMB2 response flag x all 65536 commands, ONC-RPC message type all 256 low-byte values over TCP and UDP with reply bodies; (c) reflection chains m -> readdress(reply(m)) to silence (cap 4). Oracle: no reply unless the reference grammars say the bytes are a valid request that must be answered; chain length <= 2; ADDED LATER: STUN messages of class indication / response as later messages of a TCP connection identified as STUN, RPC reply bodies of 24..88 bytes from / to the portmapper port".into();
    rep.assumptions = vec![
        "SSH banners, Gh0st frames and FIN|ACK segments are not protocol-marked replies (those exchanges do not mark direction; C07 requires FIN|ACK to be answered by FIN|ACK) and are outside the chain clause".into(),
        "in the dedicated sweeps a reply on which the reference model abstains counts as a violation (the statement allows a reply only for a valid request of another protocol); the one exception is a well-formed DNS query followed by extra bytes, which is accepted as a valid DNS request".into(),
    ];
    for cfg in [cfg_plain(), cfg_lists()] {
        let tag = if cfg.self_ips.is_empty() { "plain" } else { "lists" };
        let flows = [flow4(40000, 80), flow6(40000, 80)];
        let cookies = learn_cookies(&cfg, &flows).unwrap_or_default();
        // (a) + (c): own output reflected, chains
        let t0 = std::time::Instant::now();
        let base = base_frames(&cookies);
        let opts = RunOpts::new(&format!("reflect-{}", tag)).stateful().chunk(4).no_monitor();
        // first pass: collect replies
        let replies: Mutex<BTreeMap<u64, Vec<u8>>> = Mutex::new(BTreeMap::new());
        engine::run(
            &cfg,
            base.len() as u64,
            &opts,
            |i| {
                let b = &base[i as usize];
                let mut c: Vec<Cmd> = b.prelude.iter().map(|f| Cmd::Frame(f.clone())).collect();
                c.push(Cmd::Frame(b.frame.clone()));
                c
            },
            |it: &Item, _sk: &mut Sink| {
                if let Some(r) = &it.outs.last().unwrap().reply {
                    replies.lock().unwrap().insert(it.idx, r.clone());
                }
            },
            &mut rep.sink,
        );
        let replies = replies.into_inner().unwrap();
        let items: Vec<(u64, Vec<u8>)> = replies.into_iter().collect();
        // chains: sequentially per item on a fresh table: m1 = readdress(reply), feed, etc.
        let cfg2 = cfg.clone();
        for (bi, r) in &items {
            let name = base[*bi as usize].name.clone();
            let unmarked = name.contains("ssh") || name.contains("ghost") || name.contains("finack");
            let mut chain = 0usize;
            let mut cur = r.clone();
            let mut cmds: Vec<Cmd> = Vec::new();
            let mut d = match crate::driver::Driver::spawn(&cfg2) {
                Ok(d) => d,
                Err(e) => {
                    rep.sink.machinery_errors.push(e);
                    return;
                }
            };
            loop {
                let m = match readdress(&cur) {
                    Some(m) => m,
                    None => break,
                };
                cmds.push(Cmd::Frame(m.clone()));
                let o = match d.one(Cmd::Frame(m.clone())) {
                    Ok(o) => o,
                    Err(_) => break,
                };
                rep.sink.count("frames", 1);
                if o.panicked {
                    rep.sink.violation(Violation { prop: "C01".into(), key: format!("panic:{}", engine::panic_site(&o.text)), what: o.text.clone(), cfg: cfg2.clone(), cmds: cmds.clone(), idx: *bi, stage: "reflect".into() });
                    break;
                }
                match o.reply {
                    None => break,
                    Some(rr) => {
                        chain += 1;
                        // first bounce: the reply to the responder's own reply
                        if chain == 1 && !unmarked {
                            let model = Model::new();
                            let mut tbl = ModelTable::new();
                            let j = model.judge(&cfg2, &mut tbl, &m, Some(&rr));
                            let must = j.abstained.as_deref() == Some("dns-trailing-bytes") || (j.abstained.is_none() && !j.class.contains("silent") && !j.class.starts_with("abstain"));
                            if !must {
                                rep.sink.violation(Violation {
                                    prop: "C12".into(),
                                    key: format!("own-reply-answered:{}", name.trim_end_matches("-v4").trim_end_matches("-v6")),
                                    what: format!("the responder's own reply to '{}', bounced back, is answered: {}", name, hex(&rr)),
                                    cfg: cfg2.clone(),
                                    cmds: cmds.clone(),
                                    idx: *bi,
                                    stage: "reflect".into(),
                                });
                            }
                        }
                        cur = rr;
                        if chain >= 4 {
                            break;
                        }
                    }
                }
            }
            rep.sink.class(&format!("chain-length-{}{}", chain, if unmarked { "-unmarked" } else { "" }));
            if chain > 1 && !unmarked {
                rep.sink.violation(Violation {
                    prop: "C12".into(),
                    key: format!("chain:{}", name.trim_end_matches("-v4").trim_end_matches("-v6")),
                    what: format!("reflection chain starting from the reply to '{}' contains {}{} replies", name, chain, if chain >= 4 { "+ (cap)" } else { "" }),
                    cfg: cfg2.clone(),
                    cmds: cmds.clone(),
                    idx: *bi,
                    stage: "reflect".into(),
                });
            }
        }
        rep.stage(&format!("reflect-{}", tag), "every reply to the base corpus re-addressed to the responder, chain iterated to silence (cap 4)", items.len() as u64, t0);

        // (b) protocol-marked replies built directly
        let model_cfg = cfg.clone();
        let strict_sweep = |rep: &mut Report, stage: &str, space: &str, total: u64, ptag: &'static str, gen: &(dyn Fn(u64) -> Vec<u8> + Sync)| {
            let t0 = std::time::Instant::now();
            let opts = RunOpts::new(stage);
            let cfgc = model_cfg.clone();
            let st = stage.to_string();
            engine::run(
                &model_cfg,
                total,
                &opts,
                |i| vec![Cmd::Frame(gen(i))],
                |it: &Item, sk: &mut Sink| {
                    let model = Model::new();
                    strict(&cfgc, &model, ptag, it, 0, sk, &st);
                },
                &mut rep.sink,
            );
            rep.stage(stage, space, total, t0);
        };
        let c4 = match cli4() { Ip::V4(b) => b, _ => unreachable!() };
        let s4 = match srv4() { Ip::V4(b) => b, _ => unreachable!() };
        strict_sweep(rep, &format!("arp-not-request-{}", tag), "ARP op 0..65535 except 1 x 5 address patterns (ordinary reply, gratuitous for the handled address, gratuitous for the peer, probe-shaped, sender = handled address)", 65535 * 5, "arp", &|i| {
            let k = i % 65535;
            let op = if k >= 1 { k + 1 } else { 0 } as u16;
            let (spa, tpa) = match i / 65535 {
                0 => (c4, s4),
                1 => (s4, s4),
                2 => (c4, c4),
                3 => ([0, 0, 0, 0], s4),
                _ => (s4, c4),
            };
            let mut a = Arp::request(MAC_CLI, spa, tpa);
            a.op = op;
            a.tha = if i / 65535 == 1 { [0xff; 6] } else { MAC_SRV };
            eth(if (i / 65535) % 2 == 1 { &[0xff; 6] } else { &MAC_SRV }, &MAC_CLI, ET_ARP, &a.bytes())
        });
        strict_sweep(rep, &format!("icmp-replies-{}", tag), "ICMP type 0 / ICMPv6 129 / 136 x code 0..255 x body lengths {4,8,24,32}", 3 * 256 * 4, "icmp", &|i| {
            let d = unrank(i, &[3, 256, 4]);
            let n = [4usize, 8, 24, 32][d[2] as usize];
            let mut body = vec![0u8; n];
            if n >= 20 {
                body[4..20].copy_from_slice(&srv6().bytes());
            }
            match d[0] {
                0 => flow4(1, 1).ip_frame(P_ICMP, &icmp4(0, d[1] as u8, &body)),
                1 => flow6(1, 1).ip_frame(P_ICMP6, &icmp6(&cli6(), &srv6(), 129, d[1] as u8, &body)),
                _ => flow6(1, 1).ip_frame(P_ICMP6, &icmp6(&cli6(), &srv6(), 136, d[1] as u8, &body)),
            }
        });
        // reply-typed messages of one protocol whose bytes ALSO read as (almost) a request of another:
        // a cookie-less STUN response / indication / error whose transaction id reads as a DNS
        // header tail plus one IN/A question, with every combination of answer / authority /
        // additional counts 0..2 (records not present) and 0 / 8 / 12 bytes of attributes behind it
        {
            let types: [u16; 4] = [0x0101, 0x0111, 0x0011, 0x0102];
            let lens: [u16; 3] = [0, 8, 12];
            let dims = [types.len() as u64, lens.len() as u64, 27, 2];
            strict_sweep(rep, &format!("reply-typed-polyglots-{}", tag), "cookie-less STUN message types {success, error, indication, 0x0102} x declared length {0, 8, 12} x (ANCOUNT, NSCOUNT, ARCOUNT) in 0..2 each (transaction id = DNS counts + question 'ns' IN A) x destination port {3478, 53}", product(&dims), "stun", &|i| {
                let d = unrank(i, &dims);
                let (an, ns, ar) = ((d[2] / 9) as u16, ((d[2] / 3) % 3) as u16, (d[2] % 3) as u16);
                let l = lens[d[1] as usize];
                let mut m: Vec<u8> = Vec::new();
                m.extend_from_slice(&types[d[0] as usize].to_be_bytes());
                m.extend_from_slice(&l.to_be_bytes());
                for w in [1u16, an, ns, ar] {
                    m.extend_from_slice(&w.to_be_bytes());
                }
                m.extend_from_slice(&[2, b'n', b's', 0, 0, 1, 0, 1]);
                m.extend_from_slice(&[0u8, 1, 0, 8, 0, 1, 0x9c, 0x40, 10, 0, 0, 9][..l as usize]);
                // (IPv4 only: with all counts 0 the bytes ARE a valid IN/A query, and what such a
                // query gets over IPv6 is a corner the reference abstains on)
                flow4(40000, if d[3] == 1 { 53 } else { 3478 }).udp(&m)
            });
        }
        // neighbour advertisements in every flag combination (Router / Solicited / Override and the
        // reserved bits), for handled and foreign targets, with and without a target link-layer
        // option, unicast and to all-nodes; redirect (137) and router advertisement (134) too
        {
            let targets = [srv6(), srv6b(), Ip::parse("2001:db8::77")];
            let dims = [256u64, 3, 2, 2, 3];
            strict_sweep(rep, &format!("nd-advertisements-{}", tag), "ICMPv6 type {136, 134, 137} x flags byte 0..255 x target {2 handled, foreign} x {no option, target link-layer address} x destination {unicast, all-nodes}", product(&dims), "icmp", &|i| {
                let d = unrank(i, &dims);
                let mut body = vec![d[0] as u8, 0, 0, 0];
                body.extend_from_slice(&targets[d[1] as usize].bytes());
                if d[2] == 1 {
                    body.extend_from_slice(&[2, 1]);
                    body.extend_from_slice(&MAC_CLI);
                }
                let (dip, dmac): (Ip, Mac) = if d[3] == 0 { (srv6(), MAC_SRV) } else { (Ip::parse("ff02::1"), [0x33, 0x33, 0, 0, 0, 1]) };
                let ty = [136u8, 134, 137][d[4] as usize];
                eth(&dmac, &MAC_CLI, ET_IP6, &ip(&cli6(), &dip, P_ICMP6, &icmp6(&cli6(), &dip, ty, 0, &body)))
            });
        }
        let ck4 = cookies.get(&key_of(&flow4(40000, 80))).copied().unwrap_or(0).wrapping_add(1);
        let ck6 = cookies.get(&key_of(&flow6(40000, 80))).copied().unwrap_or(0).wrapping_add(1);
        strict_sweep(rep, &format!("tcp-rst-synack-valid-ack-{}", tag), "flag values containing RST without PSH, SYN|ACK and SYN|ACK|URG etc. (no PSH) x payload {none, 1 byte, request} x {v4,v6}, acknowledging the flow's valid cookie", 512 * 3 * 2, "tcp", &|i| {
            let d = unrank(i, &[512, 3, 2]);
            let mut fl = d[0] as u16 & !F_PSH;
            if fl & F_RST == 0 {
                fl = (fl & (F_URG | F_ECE | F_CWR | F_NS)) | F_SYN | F_ACK;
            }
            let pl: &[u8] = [&b""[..], &b"x"[..], &b"GET / HTTP/1.1\r\n\r\n"[..]][d[1] as usize];
            flow(d[2] == 1, 40000, 80).tcp(1000, if d[2] == 1 { ck6 } else { ck4 }, fl, pl)
        });
        strict_sweep(rep, &format!("tcp-rst-synack-{}", tag), "all 512 flag values restricted to those containing RST or equal to SYN|ACK x payload {none, request} x {v4,v6} x ack {0, 12345}", 512 * 2 * 2 * 2, "tcp", &|i| {
            let d = unrank(i, &[512, 2, 2, 2]);
            let mut fl = d[0] as u16;
            if fl & F_RST == 0 {
                fl = F_SYN | F_ACK;
            }
            let pl: &[u8] = if d[1] == 0 { b"" } else { b"GET / HTTP/1.1\r\n\r\n" };
            flow(d[2] == 1, 40000, 80).tcp(1000, if d[3] == 0 { 0 } else { 12345 }, fl, pl)
        });
        let names = [dns_labels("a.bc"), dns_labels("example.com"), vec![]];
        let dims = [32768u64, 4, 3, 2];
        strict_sweep(rep, &format!("dns-qr-{}", tag), "DNS flag words with QR=1 (all 32768) x question count 0..3 x answer count 0..2 x {v4,v6}", product(&dims), "dns", &|i| {
            let d = unrank(i, &dims);
            let flags = 0x8000 | d[0] as u16;
            let qs: Vec<(Vec<Vec<u8>>, u16, u16)> = (0..d[1]).map(|k| (names[k as usize % 3].clone(), 1u16, 1u16)).collect();
            let mut tail = Vec::new();
            for k in 0..d[2] {
                tail.extend(appdns::a_record(&names[k as usize % 3], [10, 0, 0, 1]));
            }
            flow(d[3] == 1, 5353, 53).udp(&appdns::build_message(0x4242, flags, &qs, d[2] as u16, 0, 0, &tail))
        });
        // DNS messages without QR but carrying records / no question (what an RPC reply looks like)
        strict_sweep(rep, &format!("dns-shaped-replies-{}", tag), "QR=0 messages with 0 questions x answer count 0..2 x id all 65536 (the shape of a bounced ONC-RPC reply)", 65536 * 3, "dns-shaped", &|i| {
            let an = (i / 65536) as u16;
            let mut tail = Vec::new();
            for _ in 0..an {
                tail.extend_from_slice(&[0u8; 11]);
            }
            flow4(111, 5000).udp(&appdns::build_message(i as u16, 0x0001, &[], an, 0, 0, &tail))
        });
        let dims = [65535u64, 2, 2];
        strict_sweep(rep, &format!("stun-types-{}", tag), "STUN message-type word: all values except 0x0001 x {20-byte, 28-byte CHANGE-REQUEST} x {magic cookie, classic}", product(&dims), "stun", &|i| {
            let d = unrank(i, &dims);
            let ty = if d[0] >= 1 { d[0] + 1 } else { 0 } as u16;
            let body = if d[1] == 0 { vec![] } else { stun_attr(3, &[0, 0, 0, 2]) };
            let mut m = if d[2] == 0 { stun_magic(&body, &ID12) } else { stun_classic(&body, &ID16) };
            m[0] = (ty >> 8) as u8;
            m[1] = ty as u8;
            flow4(40000, 3478).udp(&m)
        });
        let dims = [128u64, 2, 2];
        strict_sweep(rep, &format!("smb1-reply-flag-{}", tag), "SMB1 flag bytes with the reply bit (128 values) x {negotiate, session setup} x {UDP v4, UDP v6}", product(&dims), "smb1", &|i| {
            let d = unrank(i, &dims);
            let mut h = Smb1Hdr::new(if d[1] == 0 { 0x72 } else { 0x73 });
            h.flags = 0x80 | d[0] as u8;
            let m = if d[1] == 0 { appsmb::smb1_negotiate(&h, &["NT LM 0.12"]) } else { appsmb::smb1_session_setup(&h, &[1, 2, 3, 4]) };
            flow(d[2] == 1, 40000, 445).udp(&m)
        });
        strict_sweep(rep, &format!("smb2-reply-flag-{}", tag), "SMB2 response flag set x all 65536 commands", 65536, "smb2", &|i| {
            let mut h = Smb2Hdr::new(i as u16);
            h.flags = 1;
            flow4(40000, 445).udp(&appsmb::smb2_negotiate(&h, &[0x0202], &[1; 16]))
        });
        // reply flag together with any other flag bits: low 16 bits all odd values, and each high bit
        let dims = [32768u64 + 16, 2];
        strict_sweep(rep, &format!("smb2-flag-words-{}", tag), "SMB2 flag words with the response bit set: all 32768 odd low-16-bit values and bit0 + each of the 16 high bits x {negotiate, session setup}", product(&dims), "smb2", &|i| {
            let d = unrank(i, &dims);
            let fl: u32 = if d[0] < 32768 { (d[0] as u32) << 1 | 1 } else { 1 | (1u32 << (16 + d[0] - 32768)) };
            let mut h = Smb2Hdr::new(d[1] as u16);
            h.flags = fl;
            let m = if d[1] == 0 { appsmb::smb2_negotiate(&h, &[0x0202, 0x0311], &[1; 16]) } else { appsmb::smb2_session_setup(&h, &[1, 2, 3, 4]) };
            flow4(40000, 445).udp(&m)
        });
        let dims = [255u64, 2, 7, 4];
        strict_sweep(rep, &format!("rpc-msgtype-{}", tag), "ONC-RPC message type low byte 1..255 x {UDP, record-marked UDP} x 7 reply bodies (24..88 bytes) x 4 port pairs (from / to the portmapper port, NFS, high ports)", product(&dims), "rpc", &|i| {
            let d = unrank(i, &dims);
            let mt = (d[0] + 1) as u32;
            let mut b = Vec::new();
            for w in [0x72fe1d13u32, mt, 0, 0, 0, 0] {
                b.extend_from_slice(&w.to_be_bytes());
            }
            match d[2] {
                1 => b.extend_from_slice(&[0, 0, 0, 111]),
                2 => b.extend_from_slice(&[0, 0, 0, 2, 0, 0, 0, 2, 0, 0, 0, 4]),
                3 => b.extend_from_slice(&[0u8; 16]),
                4 => b.extend_from_slice(&[0u8; 40]),
                5 => {
                    // opaque of 8 bytes + more result words
                    b.extend_from_slice(&[0, 0, 0, 0, 0, 0, 0, 8, 1, 2, 3, 4, 5, 6, 7, 8, 0, 0, 0, 0, 0, 0, 0, 0]);
                }
                6 => b.extend_from_slice(&[0xffu8; 64]),
                _ => {}
            }
            let m = if d[1] == 0 { b } else { apprpc::with_record_mark(&b) };
            let (sp, dp) = [(111u16, 40000u16), (40000, 111), (2049, 2049), (40000, 50000)][d[3] as usize];
            flow4(sp, dp).udp(&m)
        });
        // STUN messages of class indication / success / error as LATER messages of a TCP connection
        // already identified as STUN (the only way such a message reaches the STUN responder)
        {
            let t0 = std::time::Instant::now();
            let f = flow4(40000, 80);
            let c = cookies.get(&key_of(&f)).copied().unwrap_or(0).wrapping_add(1);
            let big = stun_magic(&stun_attr(0x8022, &[b'x'; 256]), &ID12);
            let types: Vec<u16> = (0..=0xffffu16).filter(|t| t & 0x0110 != 0).collect();
            let opts = RunOpts::new(&format!("stun-nonrequest-tcp-{}", tag)).stateful().chunk(128).no_monitor();
            let cfgc = cfg.clone();
            engine::run(
                &cfg,
                types.len() as u64 * 2,
                &opts,
                |i| {
                    let ty = types[(i / 2) as usize];
                    let mut m = if i % 2 == 0 { stun_magic(&[], &ID12) } else { stun_magic(&stun_attr(3, &[0, 0, 0, 2]), &ID12) };
                    m[0] = (ty >> 8) as u8;
                    m[1] = ty as u8;
                    vec![Cmd::Frame(f.tcp(1000, c, F_PSH | F_ACK, &big)), Cmd::Frame(f.tcp(1000 + big.len() as u32, c, F_PSH | F_ACK, &m))]
                },
                |it: &Item, sk: &mut Sink| {
                    sk.count("frames", 2);
                    let data = it.outs[2].reply.as_deref().and_then(crate::mask::app_payload).map(|(_, p)| p).unwrap_or_default();
                    if !data.is_empty() {
                        sk.violation(Violation { prop: "C12".into(), key: "reply-typed-answered:stun-tcp".into(), what: format!("STUN message of type {:#06x} (class indication / response) sent as a later message of a STUN connection answered with {}", types[(it.idx / 2) as usize], hex(&data[..data.len().min(32)])), cfg: cfgc.clone(), cmds: it.cmds.to_vec(), idx: it.idx, stage: "stun-nonrequest-tcp".into() });
                    }
                },
                &mut rep.sink,
            );
            rep.stage(&format!("stun-nonrequest-tcp-{}", tag), "[>=256-byte Binding request] then every message-type word with a non-request class (49152) x {20-byte, 28-byte} on the same TCP connection", types.len() as u64 * 2, t0);
        }
        // reply-typed messages of every protocol x every 16-bit word position (both alignments) x
        // a value set (0..511, multiples of 256 +-, edge values, both byte orders): no other field
        // of a reply-typed message (a status word, an id, a count) makes it look like a request
        {
            let mut h1 = Smb1Hdr::new(0x72);
            h1.flags = 0x98;
            let mut h1s = Smb1Hdr::new(0x73);
            h1s.flags = 0x80;
            let mut h2 = Smb2Hdr::new(0);
            h2.flags = 1;
            let mut h2s = Smb2Hdr::new(1);
            h2s.flags = 1;
            let mut stun_resp = stun_magic(&[], &ID12);
            stun_resp[0] = 0x01;
            stun_resp[1] = 0x01;
            let mut stun_ind = stun_classic(&stun_attr(3, &[0, 0, 0, 2]), &ID16);
            stun_ind[0] = 0x00;
            stun_ind[1] = 0x11;
            let mut rpc_reply = Vec::new();
            for w in [0x72fe1d13u32, 1, 2, 100000, 2, 3, 0, 0, 0, 0] {
                rpc_reply.extend_from_slice(&w.to_be_bytes());
            }
            let bases: Vec<(&'static str, Vec<u8>)> = vec![
                ("dns", appdns::build_query(0x4242, 0x8180, &[(dns_labels("a.bc"), 1, 1)])),
                ("stun", stun_resp),
                ("stun", stun_ind),
                ("smb1", appsmb::smb1_negotiate(&h1, &["NT LM 0.12"])),
                ("smb1", appsmb::smb1_session_setup(&h1s, &[1, 2, 3, 4])),
                ("smb2", appsmb::smb2_negotiate(&h2, &[0x0202, 0x0311], &[5; 16])),
                ("smb2", appsmb::smb2_session_setup(&h2s, &[7; 8])),
                ("rpc", rpc_reply),
            ];
            let mut vals: Vec<u16> = (0..512u16).collect();
            for k in 0..256u16 {
                vals.push(k << 8);
                vals.push((k << 8) | 0xff);
            }
            vals.extend(crate::deviate::EDGE16.iter().map(|v| *v as u16));
            let sw: Vec<u16> = vals.iter().map(|v| v.swap_bytes()).collect();
            vals.extend(sw);
            vals.sort();
            vals.dedup();
            let nv = vals.len() as u64;
            for (bi, (ptag, base)) in bases.iter().enumerate() {
                let np = base.len() as u64 - 1;
                let b = base.clone();
                let vv = vals.clone();
                let is_dns = *ptag == "dns";
                strict_sweep(rep, &format!("reply-typed-words-{}-{}-{}", ptag, bi, tag), "one reply-typed message x every 16-bit word position (both alignments) x 1300 values, as a datagram", np * nv, ptag, &move |i| {
                    let mut m = b.clone();
                    let p = (i / nv) as usize;
                    let v = vv[(i % nv) as usize];
                    m[p] = (v >> 8) as u8;
                    m[p + 1] = v as u8;
                    // (DNS over IPv4 only: a mutation that clears QR makes a real query, and what an
                    // A question gets over IPv6 is a corner the reference abstains on)
                    flow(i % 2 == 1 && !is_dns, 40000, 445).udp(&m)
                });
            }
        }
        if thorough {
            // deep stages
            let dims = [65535u64, 2, 2, 2];
            strict_sweep(rep, &format!("stun-types-v6-ports-{}", tag), "STUN message-type word: all values except 0x0001 x {20-byte, 28-byte} x {magic, classic} x {IPv6 to 3478, IPv4 to port 53}", product(&dims), "stun", &|i| {
                let d = unrank(i, &dims);
                let ty = if d[0] >= 1 { d[0] + 1 } else { 0 } as u16;
                let body = if d[1] == 0 { vec![] } else { stun_attr(3, &[0, 0, 0, 2]) };
                let mut m = if d[2] == 0 { stun_magic(&body, &ID12) } else { stun_classic(&body, &ID16) };
                m[0] = (ty >> 8) as u8;
                m[1] = ty as u8;
                if d[3] == 0 { flow6(40000, 3478).udp(&m) } else { flow4(3478, 53).udp(&m) }
            });
            let dims = [128u64, 256, 2];
            strict_sweep(rep, &format!("smb1-reply-flag-commands-{}", tag), "SMB1 flag bytes with the reply bit (128) x command 0..255 x {negotiate-shaped, session-setup-shaped body}", product(&dims), "smb1", &|i| {
                let d = unrank(i, &dims);
                let mut h = Smb1Hdr::new(d[1] as u8);
                h.flags = 0x80 | d[0] as u8;
                let m = if d[2] == 0 { appsmb::smb1_negotiate(&h, &["NT LM 0.12"]) } else { appsmb::smb1_session_setup(&h, &[1, 2, 3, 4]) };
                flow4(40000, 445).udp(&m)
            });
            let dims = [32768u64, 2, 4];
            strict_sweep(rep, &format!("dns-qr-kinds-{}", tag), "DNS flag words with QR=1 (all 32768) x {v4,v6} x question kinds (A/IN, TXT/CH, two questions, 255-byte name)", product(&dims), "dns", &|i| {
                let d = unrank(i, &dims);
                let flags = 0x8000 | d[0] as u16;
                let long: Vec<Vec<u8>> = vec![vec![b'a'; 63], vec![b'b'; 63], vec![b'c'; 63], vec![b'd'; 61]];
                let qs: Vec<(Vec<Vec<u8>>, u16, u16)> = match d[2] {
                    0 => vec![(dns_labels("a.bc"), 1, 1)],
                    1 => vec![(dns_labels("version.bind"), 16, 3)],
                    2 => vec![(dns_labels("a.bc"), 1, 1), (dns_labels("d"), 1, 1)],
                    _ => vec![(long, 1, 1)],
                };
                flow(d[1] == 1, 5353, 53).udp(&appdns::build_query(0x4242, flags, &qs))
            });
            let dims = [65536u64, 2];
            strict_sweep(rep, &format!("icmp-reply-id-seq-{}", tag), "echo replies (ICMP type 0 / ICMPv6 129) with every identifier value", product(&dims), "icmp", &|i| {
                let d = unrank(i, &dims);
                let body = [(d[0] >> 8) as u8, d[0] as u8, 0, 1, b'x', b'y'];
                if d[1] == 0 { flow4(1, 1).ip_frame(P_ICMP, &icmp4(0, 0, &body)) } else { flow6(1, 1).ip_frame(P_ICMP6, &icmp6(&cli6(), &srv6(), 129, 0, &body)) }
            });
        }
        {
            // RPC replies over TCP on a validated flow
            let t0 = std::time::Instant::now();
            let f = flow4(40000, 80);
            let c = cookies.get(&key_of(&f)).copied().unwrap_or(0).wrapping_add(1);
            let opts = RunOpts::new(&format!("rpc-msgtype-tcp-{}", tag)).stateful().chunk(32).no_monitor();
            let cfgc = cfg.clone();
            engine::run(
                &cfg,
                255 * 3,
                &opts,
                |i| {
                    let mut b = Vec::new();
                    // three shapes: an accepted-reply body; a message that is a well-formed portmapper
                    // CALL in every word but the message type (GETPORT v2 / DUMP v4)
                    let t = (i % 255 + 1) as u32;
                    let words: [u32; 10] = match i / 255 {
                        0 => [0x72fe1d13, t, 0, 0, 0, 0, 0, 0, 0, 0],
                        1 => [0x72fe1d13, t, 2, 100000, 2, 3, 0, 0, 0, 0],
                        _ => [0x72fe1d13, t, 2, 100000, 4, 4, 0, 0, 0, 0],
                    };
                    for w in words {
                        b.extend_from_slice(&w.to_be_bytes());
                    }
                    // the same reply-typed record three times on the connection (a resumable parser must
                    // not take the second one for the rest of a call)
                    let m = apprpc::with_record_mark(&b);
                    (0..3u32).map(|k| Cmd::Frame(f.tcp(1000 + k * m.len() as u32, c, F_PSH | F_ACK, &m))).collect()
                },
                |it: &Item, sk: &mut Sink| {
                    sk.count("frames", 3);
                    for k in 0..3 {
                        let data = it.outs[1 + k].reply.as_deref().and_then(crate::mask::app_payload).map(|(_, p)| p).unwrap_or_default();
                        if !data.is_empty() {
                            sk.violation(Violation { prop: "C12".into(), key: "reply-typed-answered:rpc-tcp".into(), what: format!("RPC message of type {} (shape {}) over TCP (message {} of the connection) answered with {}", it.idx % 255 + 1, it.idx / 255, k + 1, hex(&data)), cfg: cfgc.clone(), cmds: it.cmds[..=1 + k].to_vec(), idx: it.idx, stage: "rpc-msgtype-tcp".into() });
                            break;
                        }
                    }
                },
                &mut rep.sink,
            );
            rep.stage(&format!("rpc-msgtype-tcp-{}", tag), "ONC-RPC message type 1..255 x {reply body, GETPORT call words, DUMP call words} over TCP behind a valid cookie, the same record three times on the connection", 255 * 3, t0);
        }
    }
    // one reply-typed MESSAGE in two TCP segments, cut at every offset (its tail must not be taken
    // for the start of a request): portmapper replies with null / AUTH_SHORT verifiers, SMB1 / SMB2
    // messages with the reply flag, a STUN success response of >= 256 bytes
    {
        let t0 = std::time::Instant::now();
        let cfg = cfg_plain();
        let f = flow4(40000, 80);
        let cookies = learn_cookies(&cfg, &[f.clone()]).unwrap_or_default();
        let c = cookies.get(&key_of(&f)).copied().unwrap_or(0).wrapping_add(1);
        let mut streams: Vec<(String, Vec<u8>)> = Vec::new();
        for (flavor, body) in [(0u32, vec![]), (2u32, vec![0x11u8, 0x22, 0x33, 0x44, 0x55, 0x66, 0x77, 0x88]), (2u32, vec![1u8, 0, 0, 0, 1, 0, 0, 0]), (1u32, vec![0x80u8, 0, 0, 0x28, 0x72, 0xfe, 0x1d, 0x13])] {
            // accepted reply to a portmapper v2 DUMP: (program, version, protocol, port) entries
            let mut b: Vec<u8> = Vec::new();
            for w in [0x72fe1d13u32, 1, 0, flavor, body.len() as u32] {
                b.extend_from_slice(&w.to_be_bytes());
            }
            b.extend_from_slice(&body);
            for w in [0u32, 1, 100000, 2, 6, 111, 1, 100000, 3, 17, 111, 0] {
                b.extend_from_slice(&w.to_be_bytes());
            }
            streams.push((format!("rpc-dump2-reply-verf{}-{}", flavor, body.len()), apprpc::with_record_mark(&b)));
        }
        let mut h1 = Smb1Hdr::new(0x72);
        h1.flags = 0x98;
        let mut h2 = Smb2Hdr::new(0);
        h2.flags = 1;
        streams.push(("smb1-negotiate-reply-flag".into(), appsmb::smb1_negotiate(&h1, &["NT LM 0.12"])));
        streams.push(("smb2-negotiate-reply-flag".into(), appsmb::smb2_negotiate(&h2, &[0x0202, 0x0311], &[5; 16])));
        let mut sr = stun_magic(&[stun_attr(0x8022, &[b'x'; 244]), stun_attr(1, &[0, 1, 0x9c, 0x40, 10, 0, 0, 9])].concat(), &ID12);
        sr[0] = 0x01;
        sr[1] = 0x01;
        streams.push(("stun-success-response-256".into(), sr));
        let mut plan: Vec<(usize, usize)> = Vec::new();
        for (si, (_, s)) in streams.iter().enumerate() {
            for k in 0..s.len() {
                plan.push((si, k));
            }
        }
        let opts = RunOpts::new("reply-typed-cuts").stateful().chunk(64).no_monitor();
        let cfgc = cfg.clone();
        engine::run(
            &cfg,
            plan.len() as u64,
            &opts,
            |i| {
                let (si, k) = plan[i as usize];
                let s = &streams[si].1;
                if k == 0 {
                    vec![Cmd::Frame(f.tcp(1000, c, F_PSH | F_ACK, s))]
                } else {
                    vec![Cmd::Frame(f.tcp(1000, c, F_PSH | F_ACK, &s[..k])), Cmd::Frame(f.tcp(1000 + k as u32, c, F_PSH | F_ACK, &s[k..]))]
                }
            },
            |it: &Item, sk: &mut Sink| {
                sk.count("frames", it.cmds.len() as u64 - 1);
                let (si, k) = plan[it.idx as usize];
                for (j, o) in it.outs.iter().enumerate().skip(1) {
                    let data = o.reply.as_deref().and_then(crate::mask::app_payload).map(|(_, p)| p).unwrap_or_default();
                    if !data.is_empty() {
                        sk.violation(Violation {
                            prop: "C12".into(),
                            key: format!("reply-typed-answered:cut:{}", streams[si].0.split('-').next().unwrap_or("")),
                            what: format!("reply-typed message '{}' cut after {} bytes: segment {} is answered with {}", streams[si].0, k, j, hex(&data[..data.len().min(40)])),
                            cfg: cfgc.clone(),
                            cmds: it.cmds[..=j].to_vec(),
                            idx: it.idx,
                            stage: "reply-typed-cuts".into(),
                        });
                        break;
                    }
                }
            },
            &mut rep.sink,
        );
        rep.stage("reply-typed-cuts", "7 reply-typed messages (portmapper DUMP replies with null / AUTH_SHORT / AUTH_SYS-flavoured verifiers, SMB1 / SMB2 with the reply flag, a 276-byte STUN success response) whole and cut at every offset on a TCP connection: no segment answered with data", plan.len() as u64, t0);
        // the same reply-typed messages as FIRST data of a connection, right after a sibling
        // connection between the same two addresses (neighbouring port pairs: source port 39999..40001
        // x destination port 80 / 336 / 592, every ordered pair, per IP version; and the second
        // handled address) completed a genuine request of that protocol: what one connection parsed
        // is nothing another connection's message is judged by
        let t0 = std::time::Instant::now();
        let grid: Vec<(u16, u16)> = [39999u16, 40000, 40001].iter().flat_map(|s| [80u16, 336, 592].iter().map(move |d| (*s, *d))).collect();
        let mut pairs: Vec<(Flow, Flow)> = Vec::new();
        for v6 in [false, true] {
            for a in &grid {
                for b in &grid {
                    if a != b {
                        pairs.push((flow(v6, a.0, a.1), flow(v6, b.0, b.1)));
                    }
                }
            }
            let fa = flow(v6, 40000, 80);
            let mut fb = fa.clone();
            fb.sip = if v6 { srv6b() } else { srv4b() };
            pairs.push((fa.clone(), fb.clone()));
            pairs.push((fb, fa));
        }
        let all: Vec<Flow> = pairs.iter().flat_map(|p| [p.0.clone(), p.1.clone()]).collect();
        let ck = learn_cookies(&cfg, &all).unwrap_or_default();
        let genuine = |name: &str| -> Vec<u8> {
            if name.starts_with("rpc") {
                apprpc::with_record_mark(&apprpc::build_call(0x72fe1d13, 2, 100000, 2, 4, &[], &[]))
            } else if name.starts_with("smb1") {
                appsmb::smb1_negotiate(&Smb1Hdr::new(0x72), &["NT LM 0.12"])
            } else if name.starts_with("smb2") {
                appsmb::smb2_negotiate(&Smb2Hdr::new(0), &[0x0202, 0x0311], &[5; 16])
            } else {
                stun_magic(&stun_attr(0x8022, &[b'x'; 256]), &ID12)
            }
        };
        let dims = [pairs.len() as u64, streams.len() as u64];
        let opts = RunOpts::new("reply-typed-after-sibling-request").stateful().chunk(64).no_monitor();
        let cfgc = cfg.clone();
        engine::run(
            &cfg,
            engine::product(&dims),
            &opts,
            |i| {
                let d = engine::unrank(i, &dims);
                let (fa, fb) = &pairs[d[0] as usize];
                let ca = ck.get(&key_of(fa)).copied().unwrap_or(0).wrapping_add(1);
                let cb = ck.get(&key_of(fb)).copied().unwrap_or(0).wrapping_add(1);
                vec![Cmd::Frame(fa.tcp(1000, ca, F_PSH | F_ACK, &genuine(&streams[d[1] as usize].0))), Cmd::Frame(fb.tcp(1000, cb, F_PSH | F_ACK, &streams[d[1] as usize].1))]
            },
            |it: &Item, sk: &mut Sink| {
                sk.count("frames", 2);
                let d = engine::unrank(it.idx, &dims);
                let (fa, fb) = &pairs[d[0] as usize];
                let first = it.outs[1].reply.as_deref().and_then(crate::mask::app_payload).map(|(_, p)| p).unwrap_or_default();
                if first.is_empty() {
                    sk.count("sibling_request_unanswered", 1);
                }
                let data = it.outs[2].reply.as_deref().and_then(crate::mask::app_payload).map(|(_, p)| p).unwrap_or_default();
                if !data.is_empty() {
                    sk.violation(Violation {
                        prop: "C12".into(),
                        key: format!("reply-typed-answered:after-sibling:{}", streams[d[1] as usize].0.split('-').next().unwrap_or("")),
                        what: format!("reply-typed message '{}' as first data of the connection {}:{} > {}:{} is answered with {} after the connection {}:{} > {}:{} carried a genuine request", streams[d[1] as usize].0, fb.cip, fb.cport, fb.sip, fb.sport, hex(&data[..data.len().min(40)]), fa.cip, fa.cport, fa.sip, fa.sport),
                        cfg: cfgc.clone(),
                        cmds: it.cmds.to_vec(),
                        idx: it.idx,
                        stage: "reply-typed-after-sibling-request".into(),
                    });
                }
            },
            &mut rep.sink,
        );
        rep.stage("reply-typed-after-sibling-request", "7 reply-typed messages as first data of connection B right after connection A completed a genuine request of that protocol, A and B between the same two addresses with neighbouring port pairs (144 ordered pairs of a 3 x 3 port grid per IP version) or to the two handled addresses: B not answered with data", engine::product(&dims), t0);
    }
    rep.states = rep.sink.classes.len() as u64;
}
