//! C02 — silence outside scope: foreign MACs / IPs, denied peers, unsupported protocols; with a
//! self-IP list every reply is sourced from (and advertises only) listed addresses.

use crate::corpus::*;
use crate::driver::{Cfg, MAC_SRV};
use crate::engine::{product, unrank, Report};
use crate::model::authorised_macs;
use crate::props::sweep_frames;
use crate::wire::*;

#[derive(Clone, Copy, Debug, PartialEq)]
pub enum Kind {
    Arp,
    Echo,
    Ns,
    Syn,
    Stun,
    StunChange,
}

/// Build a reply-eliciting frame of `kind` from client `cip` to `sip` with destination MAC
/// `dmac` (ARP / NS: `sip` is the target).
pub fn elicit(kind: Kind, dmac: &Mac, cip: &Ip, sip: &Ip) -> Vec<u8> {
    let f = Flow {
        cmac: MAC_CLI,
        smac: *dmac,
        cip: *cip,
        sip: *sip,
        cport: 40000,
        sport: 3478,
    };
    match kind {
        Kind::Arp => {
            let (c, s) = match (cip, sip) {
                (Ip::V4(c), Ip::V4(s)) => (*c, *s),
                _ => ([0; 4], [0; 4]),
            };
            eth(dmac, &MAC_CLI, ET_ARP, &Arp::request(MAC_CLI, c, s).bytes())
        }
        Kind::Echo => f.icmp_echo(0x4242, 1, b"ping"),
        Kind::Ns => {
            // sent to the target's unicast address
            eth(dmac, &MAC_CLI, ET_IP6, &nd_ns(cip, sip, sip, &slla(&MAC_CLI), 0))
        }
        Kind::Syn => f.tcp(77, 0, F_SYN, b""),
        Kind::Stun => f.udp(&stun_magic(&[], &ID12)),
        Kind::StunChange => f.udp(&stun_classic(&stun_attr(3, &[0, 0, 0, 6]), &ID16)),
    }
}

fn kinds_for(v6: bool) -> Vec<Kind> {
    if v6 {
        vec![Kind::Echo, Kind::Ns, Kind::Syn, Kind::Stun, Kind::StunChange]
    } else {
        vec![Kind::Arp, Kind::Echo, Kind::Syn, Kind::Stun, Kind::StunChange]
    }
}

pub fn cfgs(thorough: bool) -> Vec<Cfg> {
    let mut v = vec![
        Cfg::base(),
        Cfg::base().with_self(&[srv4()]).with_deny(&[deny4()]),
        Cfg::base().with_self(&[srv6()]).with_deny(&[deny6()]),
        Cfg::base().with_self(&self_ips()).with_deny(&deny_ips()),
        // each list alone (S absent with D present, and conversely)
        Cfg::base().with_deny(&deny_ips()),
        Cfg::base().with_self(&self_ips()),
    ];
    if thorough {
        v.push(Cfg::base().with_self(&[srv4b(), srv6b()]).with_deny(&[deny6()]));
        let mut c = Cfg::base().with_self(&[srv4(), srv6()]);
        c.mac = [0x02, 0x11, 0x22, 0x33, 0x44, 0x55];
        v.push(c);
    }
    v
}

pub fn run(rep: &mut Report, thorough: bool) {
    rep.rule = "for each configuration (MAC, self-IP set, deny set): destination MACs = authorised set + every single-bit flip of every member + strangers; EtherType all 65536 values; IP protocol / next header all 256 values; source IPs = deny set + every single-bit flip; destination IP / ARP target / ND target = self set + every single-bit flip + multicast/broadcast forms; each over every reply-eliciting base frame; judged by the reference predicate of the statement and the reply-source invariant; eliciting frames include a STUN CHANGE-REQUEST (change-IP + change-port); configurations include each list alone".into();
    rep.assumptions = vec!["frames shorter than an Ethernet header must not be answered (nothing can be addressed to the responder)".into()];
    for (ci, cfg) in cfgs(thorough).iter().enumerate() {
        if rep.secondary && ci != 0 && ci != 3 {
            continue;
        }
        let tag = format!("cfg{}", ci);
        // (a) destination MACs
        let mut macs: Vec<Mac> = authorised_macs(cfg).into_iter().collect();
        macs.sort();
        let mut dm: Vec<Mac> = Vec::new();
        for m in &macs {
            dm.push(*m);
            for bit in 0..48 {
                let mut x = *m;
                x[bit / 8] ^= 0x80 >> (bit % 8);
                dm.push(x);
            }
        }
        dm.extend_from_slice(&[[0; 6], [0x02, 0, 0, 0, 0, 0x99], [0x01, 0x80, 0xc2, 0, 0, 0], [0x33, 0x33, 0, 0, 0, 2], [0x01, 0, 0x5e, 0, 0, 1]]);
        let servers: Vec<(bool, Ip, Ip)> = vec![(false, cli4(), srv4()), (false, cli4(), srv4b()), (true, cli6(), srv6()), (true, cli6(), srv6b())];
        let mut combos: Vec<(Kind, Ip, Ip)> = Vec::new();
        for (v6, c, s) in &servers {
            for k in kinds_for(*v6) {
                combos.push((k, *c, *s));
            }
        }
        let smacs: [Mac; 4] = [MAC_CLI, cfg.mac, [0xff; 6], [0x01, 0x00, 0x5e, 0x01, 0x02, 0x03]];
        let dims = [dm.len() as u64, combos.len() as u64, smacs.len() as u64];
        sweep_frames(rep, cfg, &format!("dst-mac-{}", tag), "dst MAC in Auth + all 1-bit flips + strangers x eliciting frames x 4 server addresses x source MAC {client, the responder's own, broadcast, multicast}", product(&dims), |i| {
            let d = unrank(i, &dims);
            let (k, c, s) = &combos[d[1] as usize];
            let mut fr = elicit(*k, &dm[d[0] as usize], c, s);
            fr[6..12].copy_from_slice(&smacs[d[2] as usize]);
            fr
        });
        if thorough {
            // 2-bit-flip neighbourhood of every authorised MAC, and every value of each MAC byte
            let mut dm2: Vec<Mac> = Vec::new();
            for m in &macs {
                for a in 0..48 {
                    for b in a + 1..48 {
                        let mut x = *m;
                        x[a / 8] ^= 0x80 >> (a % 8);
                        x[b / 8] ^= 0x80 >> (b % 8);
                        dm2.push(x);
                    }
                }
                for pos in 0..6 {
                    for v in 0..=255u8 {
                        let mut x = *m;
                        x[pos] = v;
                        dm2.push(x);
                    }
                }
            }
            let dims = [dm2.len() as u64, combos.len() as u64];
            sweep_frames(rep, cfg, &format!("dst-mac-2flips-{}", tag), "dst MAC: every 2-bit flip and every single-byte value of every authorised MAC x eliciting frames x 4 server addresses", product(&dims), |i| {
                let d = unrank(i, &dims);
                let (k, c, s) = &combos[d[1] as usize];
                elicit(*k, &dm2[d[0] as usize], c, s)
            });
            // 2-bit-flip neighbourhood of every handled IPv4 address and every byte value of every
            // handled address as destination / ARP target / ND target
            let mut dst2: Vec<Ip> = Vec::new();
            for s in cfg.self_ips.iter().chain([srv4b(), srv6b()].iter()) {
                if s.is_v4() {
                    for a in 0..32 {
                        for b in a + 1..32 {
                            dst2.push(s.flip_bit(a).flip_bit(b));
                        }
                    }
                }
                let nb = s.nbits() / 8;
                for pos in 0..nb {
                    for v in 0..=255u8 {
                        let mut by = s.bytes();
                        by[pos] = v;
                        dst2.push(if s.is_v4() { Ip::V4([by[0], by[1], by[2], by[3]]) } else {
                            let mut a = [0u8; 16];
                            a.copy_from_slice(&by);
                            Ip::V6(a)
                        });
                    }
                }
            }
            let mut pairs2: Vec<(Kind, Ip, Ip)> = Vec::new();
            for d in &dst2 {
                let s = if d.is_v4() { cli4() } else { cli6() };
                for k in kinds_for(!d.is_v4()) {
                    pairs2.push((k, s, *d));
                }
            }
            let dmacs2: [Mac; 2] = [cfg.mac, [0xff; 6]];
            let dims = [pairs2.len() as u64, 2];
            sweep_frames(rep, cfg, &format!("dst-ip-2flips-{}", tag), "destination IP / ARP target / ND target: every 2-bit flip of every handled IPv4 address, every single-byte value of every handled address x eliciting frames x {own MAC, broadcast}", product(&dims), |i| {
                let d = unrank(i, &dims);
                let (k, s, t) = &pairs2[d[0] as usize];
                elicit(*k, &dmacs2[d[1] as usize], s, t)
            });
        }
        // (b) EtherType: all 65536 values over three inner payloads
        let inner: Vec<Vec<u8>> = vec![
            elicit(Kind::Arp, &MAC_SRV, &cli4(), &srv4())[14..].to_vec(),
            elicit(Kind::Echo, &MAC_SRV, &cli4(), &srv4())[14..].to_vec(),
            elicit(Kind::Echo, &MAC_SRV, &cli6(), &srv6())[14..].to_vec(),
        ];
        sweep_frames(rep, cfg, &format!("ethertype-{}", tag), "EtherType 0..65535 x 3 inner payloads", 65536 * 3, |i| {
            eth(&MAC_SRV, &MAC_CLI, (i % 65536) as u16, &inner[(i / 65536) as usize])
        });
        // tagged frames: an 802.1Q / 802.1ad / legacy QinQ tag in front of a complete eliciting frame
        // (the outer EtherType is not ARP / IPv4 / IPv6: nothing is answered; and a reply, if any,
        // would have to mirror the request's EtherType)
        {
            let kinds4t = [Kind::Arp, Kind::Echo, Kind::Syn, Kind::Stun];
            let kinds6t = [Kind::Ns, Kind::Echo, Kind::Syn, Kind::Stun];
            let tpids: [u16; 4] = [0x8100, 0x88a8, 0x9100, 0x8847];
            let tcis: [u16; 4] = [0x0000, 0x0005, 0x0fff, 0xe001];
            sweep_frames(rep, cfg, &format!("tagged-frames-{}", tag), "4 tag protocol ids x 4 tag values x 4 eliciting kinds x {v4,v6} x {single tag, double tag}", 4 * 4 * 4 * 2 * 2, |i| {
                let d = unrank(i, &[4, 4, 4, 2, 2]);
                let inner = if d[3] == 1 { elicit(kinds6t[d[2] as usize], &MAC_SRV, &cli6(), &srv6()) } else { elicit(kinds4t[d[2] as usize], &MAC_SRV, &cli4(), &srv4()) };
                let mut fr = inner[..12].to_vec();
                for _ in 0..=d[4] {
                    fr.extend_from_slice(&tpids[d[0] as usize].to_be_bytes());
                    fr.extend_from_slice(&tcis[d[1] as usize].to_be_bytes());
                }
                fr.extend_from_slice(&inner[12..]);
                fr
            });
        }
        // (c) IP protocol / next header: all 256 values over inner bytes shaped as ICMP / TCP / UDP
        let l4s: Vec<(bool, Vec<u8>)> = {
            let mut v = Vec::new();
            for v6 in [false, true] {
                let f = flow(v6, 40000, 3478);
                let echo = if v6 { icmp6(&f.cip, &f.sip, 128, 0, &[1, 2, 3, 4, 5]) } else { icmp4(8, 0, &[1, 2, 3, 4, 5]) };
                v.push((v6, echo));
                v.push((v6, TcpSeg::new(40000, 80, 5, 0, F_SYN, b"").bytes(&f.cip, &f.sip)));
                v.push((v6, udp(&f.cip, &f.sip, 40000, 3478, &stun_magic(&[], &ID12))));
            }
            v
        };
        let dims = [256u64, l4s.len() as u64];
        sweep_frames(rep, cfg, &format!("ip-proto-{}", tag), "IPv4 protocol / IPv6 next header 0..255 x {ICMP echo, TCP SYN, UDP STUN} x {v4,v6}", product(&dims), |i| {
            let d = unrank(i, &dims);
            let (v6, l4) = &l4s[d[1] as usize];
            flow(*v6, 40000, 3478).ip_frame(d[0] as u8, l4)
        });
        // (d) source IPs: deny set + all 1-bit flips of each member + ordinary clients
        let mut srcs: Vec<Ip> = vec![cli4(), cli6(), cli4b(), cli6b()];
        for d in cfg.deny_ips.iter().chain([deny4(), deny6()].iter()) {
            srcs.push(*d);
            for b in 0..d.nbits() {
                srcs.push(d.flip_bit(b));
            }
        }
        // (e) destination IPs: self set + all 1-bit flips + multicast / broadcast forms
        let mut dsts: Vec<Ip> = vec![
            srv4(), srv6(), Ip::V4([255, 255, 255, 255]), Ip::V4([224, 0, 0, 1]), Ip::V4([10, 0, 0, 255]), Ip::V4([0, 0, 0, 0]),
            Ip::parse("ff02::1"), Ip::parse("ff02::1:ff00:1"), Ip::parse("::"), Ip::parse("::1"),
        ];
        for s in cfg.self_ips.iter().chain([srv4b(), srv6b()].iter()) {
            dsts.push(*s);
            for b in 0..s.nbits() {
                dsts.push(s.flip_bit(b));
            }
            // other spellings of a handled IPv4 address inside IPv6: IPv4-mapped, IPv4-compatible,
            // 6to4, NAT64 well-known prefix (none of them is the handled address)
            if let Ip::V4(a) = s {
                for pre in ["::ffff:", "::", "64:ff9b::"] {
                    dsts.push(Ip::parse(&format!("{}{}.{}.{}.{}", pre, a[0], a[1], a[2], a[3])));
                }
                dsts.push(Ip::parse(&format!("2002:{:02x}{:02x}:{:02x}{:02x}::1", a[0], a[1], a[2], a[3])));
            }
        }
        // the same for source addresses on the deny list
        for d in cfg.deny_ips.clone() {
            if let Ip::V4(a) = d {
                srcs.push(Ip::parse(&format!("::ffff:{}.{}.{}.{}", a[0], a[1], a[2], a[3])));
            }
        }
        let mut pairs: Vec<(Kind, Ip, Ip)> = Vec::new();
        for s in &srcs {
            for d in [srv4(), srv4b(), srv6(), srv6b()] {
                if s.is_v4() == d.is_v4() {
                    for k in kinds_for(!s.is_v4()) {
                        pairs.push((k, *s, d));
                    }
                }
            }
        }
        for d in &dsts {
            for s in [cli4(), cli6(), deny4(), deny6()] {
                if s.is_v4() == d.is_v4() {
                    for k in kinds_for(!s.is_v4()) {
                        pairs.push((k, s, *d));
                    }
                }
            }
        }
        // destination MACs used with each pair: own MAC, broadcast, all-nodes
        let dmacs: [Mac; 3] = [cfg.mac, [0xff; 6], [0x33, 0x33, 0, 0, 0, 1]];
        let dims = [pairs.len() as u64, 3];
        sweep_frames(rep, cfg, &format!("src-dst-ip-{}", tag), "source IP in deny set + 1-bit flips; destination IP / ARP target / ND target in self set + 1-bit flips + multicast/broadcast; x eliciting frames x 3 destination MACs", product(&dims), |i| {
            let d = unrank(i, &dims);
            let (k, s, t) = &pairs[d[0] as usize];
            elicit(*k, &dmacs[d[1] as usize], s, t)
        });
        // IPv6 extension headers (hop-by-hop 0, routing 43, fragment 44, AH 51, destination options
        // 60, mobility 135) in front of an answerable message, well-formed (next header + length
        // octet + padding), one and two in a row: the packet's next protocol is outside
        // {ICMPv6, TCP, UDP}
        {
            let exts = [0u8, 43, 44, 51, 60, 135];
            let f = flow(true, 40000, 3478);
            let inner: Vec<(u8, Vec<u8>)> = vec![
                (P_ICMP6, icmp6(&f.cip, &f.sip, 128, 0, &[0x12, 0x34, 0, 1, b'e', b'x', b't', b'h'])),
                (P_TCP, TcpSeg::new(f.cport, f.sport, 77, 0, F_SYN, b"").bytes(&f.cip, &f.sip)),
                (P_UDP, udp(&f.cip, &f.sip, f.cport, f.sport, &stun_magic(&[], &ID12))),
            ];
            let dims = [exts.len() as u64, exts.len() as u64 + 1, inner.len() as u64, 2];
            sweep_frames(rep, cfg, &format!("ipv6-extension-headers-{}", tag), "6 extension header types x {alone, followed by a second one of 6 types} x {echo, SYN, STUN datagram} behind them x header length {8, 16} bytes", product(&dims), |i| {
                let d = unrank(i, &dims);
                let (proto, l4) = &inner[d[2] as usize];
                let hl = d[3] as usize; // length octet: (hl + 1) * 8 bytes
                let mk = |next: u8| -> Vec<u8> {
                    let mut h = vec![0u8; (hl + 1) * 8];
                    h[0] = next;
                    h[1] = hl as u8;
                    // PadN options fill the rest
                    if h.len() > 2 {
                        h[2] = 1;
                        h[3] = (h.len() - 4) as u8;
                    }
                    h
                };
                let mut payload: Vec<u8> = Vec::new();
                if d[1] == 0 {
                    payload.extend(mk(*proto));
                } else {
                    payload.extend(mk(exts[d[1] as usize - 1]));
                    payload.extend(mk(*proto));
                }
                payload.extend_from_slice(l4);
                f.ip_frame(exts[d[0] as usize], &payload)
            });
        }
        // ARP requests with other hardware types and declared address lengths, whose fixed target
        // field (bytes 24..28) holds a FOREIGN address while every other 4-byte window behind it
        // (the frame's padding) holds a handled one, and conversely: whatever field the responder
        // checks, the address it advertises must be a handled one
        {
            let handled = match srv4() { Ip::V4(a) => a, _ => unreachable!() };
            let foreign = [10u8, 0, 0, 77];
            let htypes = [1u16, 6, 24, 0x0100];
            let dims = [htypes.len() as u64, 13, 9, 2, 4];
            sweep_frames(rep, cfg, &format!("arp-layouts-{}", tag), "ARP requests: 4 hardware types x declared hardware length 0..12 x protocol length 0..8 x {foreign target + handled address repeated in the padding, handled target + foreign address in the padding} x 4 alignments of the padding pattern", product(&dims), |i| {
                let d = unrank(i, &dims);
                let (tpa, fill) = if d[3] == 0 { (foreign, handled) } else { (handled, foreign) };
                let mut a = Arp::request(MAC_CLI, [10, 0, 0, 9], tpa);
                a.htype = htypes[d[0] as usize];
                a.hlen = d[1] as u8;
                a.plen = d[2] as u8;
                let mut body = a.bytes();
                for k in 0..40usize {
                    body.push(fill[(k + d[4] as usize) % 4]);
                }
                eth(&[0xff; 6], &MAC_CLI, ET_ARP, &body)
            });
        }
        // ARP / ND frames that fail the destination-MAC filter, with every combination of an
        // authorised or other MAC address in the fields INSIDE the message (ARP sender / target
        // hardware address, ND source link-layer option) and as Ethernet source: what a message says
        // about link-layer addresses never makes a frame one for the responder
        {
            let mut alpha: Vec<Mac> = vec![cfg.mac, [0xff; 6], [0x33, 0x33, 0, 0, 0, 1], [0x01, 0, 0x5e, 0, 0, 1], [0; 6], MAC_CLI];
            if let Ip::V4(b) = srv4() {
                alpha.push([0x01, 0x00, 0x5e, b[1] & 0x7f, b[2], b[3]]);
            }
            if let Ip::V6(b) = srv6() {
                alpha.push([0x33, 0x33, 0xff, b[13], b[14], b[15]]);
                alpha.push([0x33, 0x33, b[12], b[13], b[14], b[15]]);
            }
            let mut strangers: Vec<Mac> = vec![[0x02, 0x99, 0x99, 0x99, 0x99, 0x99], [0x02, 0xaa, 0xbb, 0xcc, 0xdd, 0xee]];
            let mut flip = cfg.mac;
            flip[5] ^= 1;
            strangers.push(flip);
            let na = alpha.len() as u64;
            let dims = [strangers.len() as u64, na, na, na, 3];
            let (c4, s4) = match (cli4(), srv4()) {
                (Ip::V4(c), Ip::V4(s)) => (c, s),
                _ => unreachable!(),
            };
            sweep_frames(rep, cfg, &format!("message-mac-fields-{}", tag), "ARP requests / replies and neighbour solicitations sent to 3 foreign destination MACs x Ethernet source x sender hardware address / source link-layer option x target hardware address over 9 MAC addresses (own, broadcast, all-nodes, IPv4 / IPv6 groups derived from the handled addresses, zero, the client's)", product(&dims), |i| {
                let d = unrank(i, &dims);
                let dmac = strangers[d[0] as usize];
                let (smac, sha, tha) = (alpha[d[1] as usize], alpha[d[2] as usize], alpha[d[3] as usize]);
                if d[4] < 2 {
                    let mut a = Arp::request(sha, c4, s4);
                    a.tha = tha;
                    a.op = 1 + d[4] as u16;
                    eth(&dmac, &smac, ET_ARP, &a.bytes())
                } else {
                    let mut opt = slla(&sha);
                    // (a second option: target link-layer address)
                    opt.extend_from_slice(&[2, 1]);
                    opt.extend_from_slice(&tha);
                    eth(&dmac, &smac, ET_IP6, &nd_ns(&cli6(), &srv6(), &srv6(), &opt, 0))
                }
            });
        }
        // frames that fail ONE filter (foreign destination MAC, denied source, foreign destination
        // address): no other byte of the frame may let them through - every byte position behind
        // the Ethernet addresses x all 256 values (the source port's high byte, a payload byte that
        // reads as an ICMPv6 type, ...), judged by the reference predicate
        {
            let mut bases: Vec<Vec<u8>> = Vec::new();
            for v6 in [false, true] {
                let (c, s) = if v6 { (cli6(), srv6()) } else { (cli4(), srv4()) };
                let foreign = if v6 { Ip::parse("2001:db8::77") } else { Ip::V4([10, 0, 0, 77]) };
                let denied = if v6 { deny6() } else { deny4() };
                for k in kinds_for(v6) {
                    if matches!(k, Kind::Arp | Kind::Ns) {
                        continue;
                    }
                    bases.push(elicit(k, &[0x02, 0x99, 0x99, 0x99, 0x99, 0x99], &c, &s));
                    if !cfg.deny_ips.is_empty() {
                        bases.push(elicit(k, &cfg.mac, &denied, &s));
                    }
                    if !cfg.self_ips.is_empty() {
                        bases.push(elicit(k, &cfg.mac, &c, &foreign));
                    }
                }
            }
            let mut plan: Vec<(usize, usize)> = Vec::new();
            for (bi, b) in bases.iter().enumerate() {
                let end = crate::deviate::app_offset(b).unwrap_or(b.len()).min(b.len());
                for p in 12..end {
                    plan.push((bi, p));
                }
            }
            let n = plan.len() as u64;
            sweep_frames(rep, cfg, &format!("filtered-frame-bytes-{}", tag), "eliciting frames that fail one filter (foreign destination MAC / denied source / foreign destination address) x every header byte position behind the Ethernet addresses x all 256 values", n * 256, |i| {
                let (bi, p) = plan[(i / 256) as usize];
                let mut f = bases[bi].clone();
                f[p] = (i % 256) as u8;
                f
            });
        }
        // ND-NS whose IP destination differs from the target (solicited-node multicast etc.)
        let mut tg: Vec<Ip> = vec![srv6(), srv6b(), Ip::parse("2001:db8::2")];
        for s in cfg.self_ips.iter().filter(|s| !s.is_v4()) {
            for b in 0..128 {
                tg.push(s.flip_bit(b));
            }
        }
        let nsd: Vec<(Ip, Mac)> = vec![
            (srv6(), cfg.mac),
            (Ip::parse("ff02::1:ff00:1"), [0x33, 0x33, 0xff, 0, 0, 1]),
            (Ip::parse("ff02::1:ffab:cdef"), [0x33, 0x33, 0xff, 0xab, 0xcd, 0xef]),
            (Ip::parse("ff02::1"), [0x33, 0x33, 0, 0, 0, 1]),
            (Ip::parse("2001:db8::77"), cfg.mac),
        ];
        let dims = [tg.len() as u64, nsd.len() as u64, 2];
        sweep_frames(rep, cfg, &format!("nd-target-{}", tag), "ND target in self set + 1-bit flips x IP destination forms x source {plain, denied}", product(&dims), |i| {
            let d = unrank(i, &dims);
            let (dip, dmac) = &nsd[d[1] as usize];
            let src = if d[2] == 0 { cli6() } else { deny6() };
            eth(dmac, &MAC_CLI, ET_IP6, &nd_ns(&src, dip, &tg[d[0] as usize], &slla(&MAC_CLI), 0))
        });
    }
    rep.states = rep.sink.classes.len() as u64;
}
