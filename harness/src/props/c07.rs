//! C07 / C08 / C09 — connection model: data only behind a valid cookie with exact seq/ack
//! arithmetic; flows do not interfere; unvalidated traffic allocates no state.
//! One BFS over the real connection table serves the three properties (different alphabets
//! and extra stages per property).

use std::collections::HashMap;

use crate::apprpc;
use crate::bfs::{self, BfsOpts, Event};
use crate::corpus::*;
use crate::driver::{Cfg, Cmd, MAC_SRV};
use crate::engine::{self, Item, Report, RunOpts, Sink, Violation};
use crate::model::{FlowKey, Model};
use crate::wire::*;

pub const HTTP_REQ: &[u8] = b"GET / HTTP/1.1\r\nHost: x\r\n\r\n";

/// data segments of flow `f` that acknowledge ANOTHER flow's cookie (must be treated like any
/// other wrong acknowledgement number)
pub fn cross_ack_events(tag: &str, f: &Flow, other_tag: &str, other_cookie: u32) -> Vec<Event> {
    let k = key_of(f);
    let a = other_cookie.wrapping_add(1);
    let half = HTTP_REQ.len() / 2;
    vec![
        Event { name: format!("{}:data-http-half2-ack=cookie({})+1", tag, other_tag), frame: f.tcp(1000, a, F_PSH | F_ACK, &HTTP_REQ[half..]), flow: Some(k.clone()), is_data: true },
        Event { name: format!("{}:data-http-ack=cookie({})+1", tag, other_tag), frame: f.tcp(1000, a, F_PSH | F_ACK, HTTP_REQ), flow: Some(k.clone()), is_data: true },
        Event { name: format!("{}:data-Z-ack=cookie({})+1", tag, other_tag), frame: f.tcp(1000, a, F_PSH | F_ACK, b"Z"), flow: Some(k), is_data: true },
    ]
}

pub fn add_cross_acks(events: &mut Vec<Event>, s: &Setup) {
    for (ta, fa) in &s.flows {
        for (tb, fb) in &s.flows {
            if ta != tb {
                events.extend(cross_ack_events(ta, fa, tb, s.cookies[&key_of(fb)]));
            }
        }
    }
}

pub fn tcp_events(tag: &str, f: &Flow, c: u32, rich: bool) -> Vec<Event> {
    let k = key_of(f);
    let ok = c.wrapping_add(1);
    let mut v: Vec<Event> = Vec::new();
    let mut add = |name: String, frame: Vec<u8>, is_data: bool| {
        v.push(Event {
            name: format!("{}:{}", tag, name),
            frame,
            flow: Some(k.clone()),
            is_data,
        })
    };
    add("syn".into(), f.tcp(7, 0, F_SYN, b""), false);
    // acknowledgement numbers (complete request, seq 1000)
    for (n, a) in [("ack=cookie+1", ok), ("ack=cookie", c), ("ack=cookie+2", c.wrapping_add(2)), ("ack=0", 0), ("ack=ffffffff", 0xffffffff), ("ack=flip31", ok ^ 0x80000000)] {
        add(format!("data-http-{}", n), f.tcp(1000, a, F_PSH | F_ACK, HTTP_REQ), true);
    }
    // sequence numbers incl. wrap with payload
    for s in [0u32, 0xfffffff0, 0xffffffff] {
        add(format!("data-http-seq={:#x}", s), f.tcp(s, ok, F_PSH | F_ACK, HTTP_REQ), true);
    }
    // payload shapes
    let half = HTTP_REQ.len() / 2;
    add("data-empty".into(), f.tcp(1000, ok, F_PSH | F_ACK, b""), true);
    add("data-Z".into(), f.tcp(1000, ok, F_PSH | F_ACK, b"Z"), true);
    add("data-http-half1".into(), f.tcp(1000, ok, F_PSH | F_ACK, &HTTP_REQ[..half]), true);
    add("data-http-half2".into(), f.tcp(1000 + half as u32, ok, F_PSH | F_ACK, &HTTP_REQ[half..]), true);
    add("data-http-sig-cut1".into(), f.tcp(1000, ok, F_PSH | F_ACK, &HTTP_REQ[..2]), true);
    add("data-http-sig-cut2".into(), f.tcp(1002, ok, F_PSH | F_ACK, &HTTP_REQ[2..]), true);
    // extra flags on a data segment
    for (n, fl) in [("fin", F_FIN), ("syn", F_SYN), ("rst", F_RST), ("urg", F_URG), ("ece", F_ECE), ("cwr", F_CWR), ("ns", F_NS)] {
        add(format!("data-Z+{}", n), f.tcp(1000, ok, F_PSH | F_ACK | fl, b"Z"), true);
    }
    add("data-Z+rst-badack".into(), f.tcp(1000, 5, F_PSH | F_ACK | F_RST, b"Z"), true);
    // TCP options on a data segment (data offset 8 and 15): they are not stream data
    for (doff, n) in [(8u8, 12usize), (15, 40)] {
        let mut seg = TcpSeg::new(f.cport, f.sport, 0xfffffffe, ok, F_PSH | F_ACK, b"abc");
        seg.doff = doff;
        seg.options = vec![1u8; n];
        add(format!("data-abc-options{}", n), f.tcp_seg(&seg), true);
    }
    // link-layer trailer after the IP datagram (Ethernet padding): not stream data
    {
        let mut fr = f.tcp(0xfffffffe, ok, F_PSH | F_ACK, b"ab");
        fr.extend_from_slice(&[0u8; 6]);
        add("data-ab-padded".into(), fr, true);
        let mut fr = f.tcp(1000, ok, F_FIN | F_ACK, b"");
        fr.extend_from_slice(&[0xffu8; 6]);
        add("finack-padded".into(), fr, false);
    }
    // a second complete request right after the first one (keep-alive)
    add("data-http-second".into(), f.tcp(1000 + HTTP_REQ.len() as u32, ok, F_PSH | F_ACK, b"HEAD /favicon.ico HTTP/1.1\r\nHost: a\r\n\r\n"), true);
    add("ack".into(), f.tcp(1000, ok, F_ACK, b""), false);
    add("rst".into(), f.tcp(1000, ok, F_RST, b""), false);
    add("rst-ack".into(), f.tcp(1000, ok, F_RST | F_ACK, b""), false);
    for (s, a) in [(0u32, 0u32), (0xffffffff, 0xffffffff), (1000, ok)] {
        add(format!("finack-{:#x}-{:#x}", s, a), f.tcp(s, a, F_FIN | F_ACK, b""), false);
    }
    add("fin".into(), f.tcp(1000, ok, F_FIN, b""), false);
    if rich {
        let call = apprpc::with_record_mark(&apprpc::build_call(0x01020304, 2, 100000, 2, 3, &[], &[]));
        let h = 10;
        add("data-rpc-whole".into(), f.tcp(1000, ok, F_PSH | F_ACK, &call), true);
        add("data-rpc-part1".into(), f.tcp(1000, ok, F_PSH | F_ACK, &call[..h]), true);
        add("data-rpc-part2".into(), f.tcp(1000 + h as u32, ok, F_PSH | F_ACK, &call[h..30]), true);
        add("data-rpc-part3".into(), f.tcp(1030, ok, F_PSH | F_ACK, &call[30..]), true);
        add("data-ssh".into(), f.tcp(1000, ok, F_PSH | F_ACK, b"SSH-2.0-x\r\n"), true);
        add("data-http-lf".into(), f.tcp(1000, ok, F_PSH | F_ACK, b"PUT /u HTTP/1.0\n\n"), true);
    }
    v
}

pub fn noise_events() -> Vec<Event> {
    let mut v = Vec::new();
    let mut add = |name: &str, frame: Vec<u8>| {
        v.push(Event {
            name: format!("noise:{}", name),
            frame,
            flow: None,
            is_data: false,
        })
    };
    let c4 = match cli4() {
        Ip::V4(b) => b,
        _ => unreachable!(),
    };
    let s4 = match srv4() {
        Ip::V4(b) => b,
        _ => unreachable!(),
    };
    add("arp", eth(&[0xff; 6], &MAC_CLI, ET_ARP, &Arp::request(MAC_CLI, c4, s4).bytes()));
    add("echo4", flow4(1, 1).icmp_echo(1, 2, b"x"));
    add("echo6", flow6(1, 1).icmp_echo(1, 2, b"x"));
    add("udp-http", flow4(40000, 80).udp(HTTP_REQ));
    add("udp-stun", flow4(40000, 80).udp(&stun_magic(&[], &ID12)));
    add("udp-dns", flow4(40000, 80).udp(&crate::appdns::build_query(7, 0x100, &[(dns_labels("a.b"), 1, 1)])));
    add("udp6-rpc", flow6(40000, 80).udp(&apprpc::build_call(0x09090909, 2, 100000, 2, 0, &[], &[])));
    add("syn-other", flow4(50000, 81).tcp(1, 0, F_SYN, b""));
    add("data-other-badack", flow4(50000, 81).tcp(1, 12345, F_PSH | F_ACK, HTTP_REQ));
    // ICMP errors that QUOTE a segment of flow A (IPv4, 40000 <-> 80) / flow C (IPv6): port
    // unreachable from the client, fragmentation needed and time exceeded from a third host,
    // ICMPv6 port unreachable and packet too big - traffic of another kind, whatever it quotes
    {
        let fa = flow4(40000, 80);
        let quoted4 = {
            let seg = TcpSeg::new(80, 40000, 0x11223344, 1001, F_PSH | F_ACK, b"").bytes(&fa.sip, &fa.cip);
            ipv4_raw(s4, c4, P_TCP, &seg, 5, None, &[], 64, 0x4000, 0)
        };
        let mut body = vec![0u8; 4];
        body.extend_from_slice(&quoted4[..40.min(quoted4.len())]);
        add("icmp4-port-unreachable-quoting-A", fa.ip_frame(P_ICMP, &icmp4(3, 3, &body)));
        let mut third = fa.clone();
        third.cip = cli4b();
        third.cmac = MAC_CLI2;
        let mut b2 = vec![0u8, 0, 0x05, 0x00];
        b2.extend_from_slice(&quoted4[..40.min(quoted4.len())]);
        add("icmp4-frag-needed-quoting-A", third.ip_frame(P_ICMP, &icmp4(3, 4, &b2)));
        add("icmp4-time-exceeded-quoting-A", third.ip_frame(P_ICMP, &icmp4(11, 0, &body)));
        let fc = flow6(40000, 80);
        let seg6 = TcpSeg::new(80, 40000, 0x11223344, 1001, F_PSH | F_ACK, b"").bytes(&fc.sip, &fc.cip);
        let quoted6 = ip(&fc.sip, &fc.cip, P_TCP, &seg6);
        let mut b6 = vec![0u8; 4];
        b6.extend_from_slice(&quoted6);
        add("icmp6-port-unreachable-quoting-C", fc.ip_frame(P_ICMP6, &icmp6(&fc.cip, &fc.sip, 1, 4, &b6)));
        let mut b7 = vec![0u8, 0, 0x05, 0x00];
        b7.extend_from_slice(&quoted6);
        add("icmp6-packet-too-big-quoting-C", fc.ip_frame(P_ICMP6, &icmp6(&fc.cip, &fc.sip, 2, 0, &b7)));
    }
    v
}

pub struct Setup {
    pub cfg: Cfg,
    pub flows: Vec<(String, Flow)>,
    pub cookies: HashMap<FlowKey, u32>,
}

pub fn setup(cfg: Cfg, nflows: usize) -> Result<Setup, String> {
    let all = vec![("A".to_string(), flow4(40000, 80)), ("B".to_string(), flow4(40001, 80)), ("C".to_string(), flow6(40000, 80)), ("D".to_string(), Flow { cmac: MAC_CLI2, smac: MAC_SRV, cip: cli4b(), sip: srv4(), cport: 40000, sport: 80 })];
    let flows: Vec<(String, Flow)> = all.into_iter().take(nflows).collect();
    let fl: Vec<Flow> = flows.iter().map(|x| x.1.clone()).collect();
    let cookies = learn_cookies(&cfg, &fl)?;
    if cookies.len() != fl.len() {
        return Err("could not learn the SYN cookies of the test flows".into());
    }
    Ok(Setup { cfg, flows, cookies })
}

pub fn run_c07(rep: &mut Report, thorough: bool) {
    rep.rule = "breadth-first search from the empty connection table; alphabet per flow: SYN, PSH|ACK with 6 acknowledgement numbers x complete request, 4 sequence numbers (incl. wrap with payload), payload shapes (empty, 1 byte, complete request, halves, cut inside the signature), PSH|ACK with each extra flag, bare ACK, RST, RST|ACK, FIN|ACK x 3 seq/ack pairs, FIN; states = histories, de-duplicated on (canonical dump of the real table via hook H2, reference-model state); every transition judged by the reference connection model (answered-or-not, flags, seq/ack arithmetic, application verdict) and by the table-size oracle; ADDED LATER: TCP options and link-layer padding on data segments, a second complete request after the first (keep-alive), IPv4 / IPv4-mapped / IPv4-compatible IPv6 flows with equal ports, edge-cookie keys, and a validated flow that must stay accepted after 66000 other flows were validated".into();
    rep.assumptions = vec![
        "cookies are learned from SYN-ACKs before the search".into(),
        "abstentions: FIN|ACK with payload, flag sets not named by C06/C07, segments after the first answered request (header arithmetic still checked), PSH|ACK combined with RST/SYN/FIN behind a valid cookie".into(),
        "accumulators that the code only appends to are abstracted to (length capped at 2, UTF-8 validity) in the state key".into(),
    ];
    let s = match setup(Cfg::base(), if thorough { 3 } else { 2 }) {
        Ok(s) => s,
        Err(e) => {
            rep.sink.machinery_errors.push(e);
            return;
        }
    };
    let mut events: Vec<Event> = Vec::new();
    for (tag, f) in &s.flows {
        events.extend(tcp_events(tag, f, s.cookies[&key_of(f)], thorough));
    }
    add_cross_acks(&mut events, &s);
    let o = BfsOpts {
        stage: "bfs-c07".into(),
        max_depth: if thorough { 8 } else { 6 },
        max_states: if thorough { 300000 } else { 30000 },
        abstract_acc: true,
        differential: false,
    };
    bfs::bfs(&s.cfg, &events, &s.cookies, &o, rep);
    rep.sink.sample(serde_json::json!({"alphabet": events.iter().map(|e| e.name.clone()).collect::<Vec<_>>()}));
    {
        let tcfg = s.cfg.clone().with_log(crate::driver::LoggerKind::Logfmt, crate::driver::Level::Trace);
        let o2 = BfsOpts { stage: "bfs-c07-trace".into(), max_depth: if thorough { 5 } else { 3 }, max_states: o.max_states, abstract_acc: true, differential: false };
        bfs::bfs(&tcfg, &events, &s.cookies, &o2, rep);
    }
    // validation persists: a flow that presented its cookie and was answered keeps being answered
    // (with exact arithmetic) after 66 000 other flows were validated in the same table
    {
        let t0 = std::time::Instant::now();
        let f = s.flows[0].1.clone();
        let c = s.cookies[&key_of(&f)];
        let head = vec![f.tcp(1000, c.wrapping_add(1), F_PSH | F_ACK, HTTP_REQ)];
        let second: &[u8] = b"HEAD /again HTTP/1.1\r\n\r\n";
        let tail = vec![f.tcp(1000 + HTTP_REQ.len() as u32, c.wrapping_add(1).wrapping_add(500), F_PSH | F_ACK, second)];
        match capacity_run(&s.cfg, &head, 66000, &tail, rep) {
            Ok((h, t)) => {
                rep.sink.count("frames", 66002);
                let answered_first = h[0].reply.is_some();
                let ok = t[0].reply.as_deref().and_then(|r| parse_eth(r).and_then(|e| parse_ipv4(e.payload).and_then(|ip| parse_tcp(ip.payload).map(|t| (t.flags, t.seq, t.ack))))) ;
                let want_seq = c.wrapping_add(1).wrapping_add(500);
                let want_ack = 1000u32.wrapping_add(HTTP_REQ.len() as u32).wrapping_add(second.len() as u32);
                let good = matches!(ok, Some((fl, sq, ak)) if fl & F_ACK != 0 && sq == want_seq && ak == want_ack);
                if answered_first && !good {
                    rep.sink.violation(Violation {
                        prop: "C07".into(),
                        key: "validated-flow-forgotten".into(),
                        what: format!("a flow that presented its cookie and was answered is no longer answered correctly after 66000 other flows were validated: got {:?}, want ACK seq={} ack={}", ok, want_seq, want_ack),
                        cfg: s.cfg.clone(),
                        cmds: vec![Cmd::Frame(head[0].clone()), Cmd::Frame(tail[0].clone())],
                        idx: 0,
                        stage: "validation-persists".into(),
                    });
                }
            }
            Err(e) => {
                rep.extra.insert("validation_persists_stage".into(), serde_json::json!(e));
            }
        }
        rep.stage("validation-persists", "one answered flow, then 66000 other flows validated in the same table, then a later segment of the first flow (other acknowledgement number): answered with exact arithmetic", 66002, t0);
    }
    // address-family neighbours: the IPv4 flow, the IPv6 flow between the IPv4-mapped forms of the
    // same addresses, and between the IPv4-compatible forms, same ports: three distinct flows
    {
        let a = flow4(40000, 80);
        let mut m = flow6(40000, 80);
        m.cip = Ip::parse("::ffff:10.0.0.9");
        m.sip = Ip::parse("::ffff:10.0.0.1");
        let mut n = flow6(40000, 80);
        n.cip = Ip::parse("::10.0.0.9");
        n.sip = Ip::parse("::10.0.0.1");
        let fl = vec![("A".to_string(), a), ("M".to_string(), m), ("N".to_string(), n)];
        match learn_cookies(&s.cfg, &fl.iter().map(|x| x.1.clone()).collect::<Vec<_>>()) {
            Ok(ck) if ck.len() == 3 => {
                let mut ev: Vec<Event> = Vec::new();
                for (tag, f) in &fl {
                    ev.extend(tcp_events(tag, f, ck[&key_of(f)], false).into_iter().filter(|e| e.name.contains("data-http-ack=") || e.name.ends_with(":syn") || e.name.contains("data-http-half")));
                }
                let o = BfsOpts { stage: "bfs-c07-mapped-addresses".into(), max_depth: if thorough { 4 } else { 3 }, max_states: 30000, abstract_acc: true, differential: false };
                bfs::bfs(&s.cfg, &ev, &ck, &o, rep);
            }
            _ => rep.sink.machinery_errors.push("could not learn the cookies of the mapped-address flows".into()),
        }
    }
    // edge cookies: flows whose cookie is 0xffffffff (valid ack = 0, the "underflow" arm), 0,
    // 0xfffffffe and 1.  The keys were found offline with the harness's own SipHash
    // (`mcx find-edge-cookies`); they are CONFIRMED against the real SYN-ACK here, and the stage
    // is reported as skipped if the real cookie function no longer agrees.
    {
        let edge: [([u64; 2], u32); 4] = [([0xdcdce3a2, 0x5eed], 0xffff_ffff), ([0x45a0fb78, 0x5eed], 0), ([0x45a99a18, 0x5eed], 0xffff_fffe), ([0x32b774b09, 0x5eed], 1)];
        let mut confirmed = 0;
        for (key, want) in edge {
            let cfg = Cfg::base().with_key(key);
            let f = flow4(40000, 80);
            let g = flow4(40001, 80);
            let ck = learn_cookies(&cfg, &[f.clone(), g.clone()]).unwrap_or_default();
            if ck.get(&key_of(&f)) != Some(&want) {
                continue;
            }
            confirmed += 1;
            let mut events: Vec<Event> = tcp_events("E", &f, want, false);
            if let Some(cg) = ck.get(&key_of(&g)) {
                events.extend(tcp_events("G", &g, *cg, false).into_iter().filter(|e| e.name.contains("data-http-ack=") || e.name.ends_with(":syn")));
            }
            let o = BfsOpts { stage: format!("bfs-edge-cookie-{:#x}", want), max_depth: if thorough { 4 } else { 3 }, max_states: 20000, abstract_acc: true, differential: false };
            bfs::bfs(&cfg, &events, &ck, &o, rep);
        }
        rep.sink.count("edge_cookie_flows_confirmed", confirmed);
        if confirmed < 4 {
            rep.extra.insert("edge_cookie_stage".into(), serde_json::json!(format!("{} of 4 edge-cookie flows confirmed against the real SYN-ACK; the others were skipped (cookie function differs from the harness's SipHash guess)", confirmed)));
        }
    }
    // wide arithmetic sweep on a validated flow: seq x payload length, ack low half
    let f = s.flows[0].1.clone();
    let c = s.cookies[&key_of(&f)];
    let t0 = std::time::Instant::now();
    let seqs: Vec<u32> = vec![0, 1, 0x7fffffff, 0x80000000, 0xffffff00, 0xfffffffe, 0xffffffff];
    // (incl. segments beyond one 1460-byte MSS: jumbo / coalesced frames up to the 4096-byte buffer)
    let lens: Vec<usize> = vec![0, 1, 2, 255, 256, 1000, 1400, 1459, 1460, 1461, 1500, 2048, 3000, 3900];
    let doffs: Vec<u8> = (5..=15).collect();
    let total = (seqs.len() * lens.len() * doffs.len()) as u64 + 65536;
    let opts = RunOpts::new("arith").stateful().chunk(64).no_monitor();
    let cookies = s.cookies.clone();
    let cfg = s.cfg.clone();
    engine::run(
        &s.cfg,
        total,
        &opts,
        |i| {
            let nsl = (seqs.len() * lens.len() * doffs.len()) as u64;
            if i < nsl {
                let d = engine::unrank(i, &[seqs.len() as u64, lens.len() as u64, doffs.len() as u64]);
                let seq = seqs[d[0] as usize];
                let n = lens[d[1] as usize];
                let pl: Vec<u8> = (0..n).map(|k| b'a' + (k % 26) as u8).collect();
                let mut seg = TcpSeg::new(f.cport, f.sport, seq, c.wrapping_add(1), F_PSH | F_ACK, &pl);
                seg.doff = doffs[d[2] as usize];
                seg.options = vec![1u8; (seg.doff as usize - 5) * 4];
                vec![Cmd::Frame(f.tcp_seg(&seg))]
            } else {
                // FIN|ACK acknowledgement sweep (reply seq = ack)
                let a = ((i - nsl) as u32) << 16 | 0xfffe;
                vec![Cmd::Frame(f.tcp(0xffffffff, a, F_FIN | F_ACK, b""))]
            }
        },
        |it: &Item, sk: &mut Sink| {
            let model = Model::new();
            engine::judge_item(&cfg, &model, &cookies, it, it.cmds.len(), "arith", sk);
        },
        &mut rep.sink,
    );
    rep.stage("arith", "validated flow: 7 sequence numbers x 14 payload lengths (0..3900) x data offsets 5..15 (TCP options); FIN|ACK acknowledgement high half over all 65536 values", total, t0);
    ack_neighbourhood(&s, rep, "C07");
    source_mac_stage(&s.cfg, rep, "C07");
    sibling_bfs(&s.cfg, rep, "bfs-c07-sibling-destinations", thorough);
    // the other fields of an accepted data segment (advertised window incl. 0, urgent pointer with
    // and without URG, reserved bits, ECE / CWR / NS next to PSH|ACK) shape neither the flags nor
    // the arithmetic nor the data of the answer
    {
        let t0 = std::time::Instant::now();
        let f = s.flows[0].1.clone();
        let c = s.cookies[&key_of(&f)].wrapping_add(1);
        let wins: Vec<u16> = (0..400u16).chain([512, 1024, 1460, 8192, 65535]).collect();
        let urgs: [u16; 5] = [0, 1, 17, 18, 0xffff];
        let extra: [u16; 6] = [0, F_URG, 0x40, 0x80, 0x100, F_URG | 0x40];
        let dims = [wins.len() as u64, urgs.len() as u64, extra.len() as u64, 2];
        let total: u64 = dims.iter().product();
        let opts = RunOpts::new("segment-fields").stateful().chunk(256).no_monitor();
        let cfg = s.cfg.clone();
        let cookies = s.cookies.clone();
        engine::run(
            &s.cfg,
            total,
            &opts,
            |i| {
                let d = engine::unrank(i, &dims);
                let mut seg = TcpSeg::new(f.cport, f.sport, 1000, c, F_PSH | F_ACK | extra[d[2] as usize], HTTP_REQ);
                seg.window = wins[d[0] as usize];
                seg.urg = urgs[d[1] as usize];
                seg.reserved = if d[3] == 1 { 5 } else { 0 };
                vec![Cmd::Frame(f.tcp_seg(&seg))]
            },
            |it: &Item, sk: &mut Sink| {
                sk.count("frames", 1);
                let model = crate::model::Model::new();
                engine::judge_item(&cfg, &model, &cookies, it, it.cmds.len(), "segment-fields", sk);
            },
            &mut rep.sink,
        );
        rep.stage("segment-fields", "one accepted data segment x advertised window 0..399 and 5 larger x 5 urgent pointers x 6 extra flag sets (URG, ECE, CWR, NS) x reserved bits {0, 5}: judged by the reference connection model", total, t0);
        // whatever ENVELOPE the accepted segment travels in (every single departure of one IP / TCP
        // header field, IPv4 option areas): the reference decides which departures make the segment
        // unacceptable; every other one is answered with exact arithmetic
        if let Ok(env) = crate::props::apps::AppEnv::new(s.cfg.clone()) {
            crate::props::apps::envelope_stage(rep, &env, "data-envelope", HTTP_REQ, true, false);
        }
        // every flag word x payload x acknowledgement number, on a flow without state and on a
        // validated one: which segments are answered (and with what) is the reference's decision for
        // ALL 512 flag words - a bare or payload-carrying ACK, RST|ACK, URG|ACK without PSH never is
        let t0 = std::time::Instant::now();
        let pls: [&[u8]; 3] = [b"", b"Z", HTTP_REQ];
        let dims = [512u64, 3, 3, 2];
        let total: u64 = dims.iter().product();
        let opts = RunOpts::new("flags-payload-matrix").stateful().chunk(256).no_monitor();
        let cfg = s.cfg.clone();
        let cookies = s.cookies.clone();
        engine::run(
            &s.cfg,
            total,
            &opts,
            |i| {
                let d = engine::unrank(i, &dims);
                let a = [c, c.wrapping_sub(1), 0x01020304][d[2] as usize];
                let mut cmds = Vec::new();
                if d[3] == 1 {
                    cmds.push(Cmd::Frame(f.tcp(1000, c, F_PSH | F_ACK, b"Z")));
                }
                cmds.push(Cmd::Frame(f.tcp(1001, a, d[0] as u16, pls[d[1] as usize])));
                // and what a well-formed data segment gets afterwards
                cmds.push(Cmd::Frame(f.tcp(2000, 0x0a0b0c0d, F_PSH | F_ACK, b"Y")));
                cmds
            },
            |it: &Item, sk: &mut Sink| {
                sk.count("frames", it.cmds.len() as u64);
                let model = crate::model::Model::new();
                engine::judge_item(&cfg, &model, &cookies, it, it.cmds.len(), "flags-payload-matrix", sk);
            },
            &mut rep.sink,
        );
        rep.stage("flags-payload-matrix", "all 512 TCP flag words x payload {none, 1 byte, complete request} x acknowledgement {cookie+1, cookie, unrelated} x {flow without state, validated flow}, followed by a data segment with an unrelated acknowledgement number: every frame judged by the reference connection model", total, t0);
    }
}

/// Sibling flows: same client address and both ports, different destination address (and the
/// IPv6 counterpart): a small BFS with each flow's data segments acknowledging its own and the
/// sibling's cookie.
pub fn sibling_bfs(cfg: &Cfg, rep: &mut Report, stage: &str, thorough: bool) {
    let a = flow4(40000, 80);
    let mut e = flow4(40000, 80);
    e.sip = srv4b();
    let a6 = flow6(40000, 80);
    let mut e6 = flow6(40000, 80);
    e6.sip = srv6b();
    let fl = vec![("A".to_string(), a), ("E".to_string(), e), ("A6".to_string(), a6), ("E6".to_string(), e6)];
    let ck = match learn_cookies(cfg, &fl.iter().map(|x| x.1.clone()).collect::<Vec<_>>()) {
        Ok(c) if c.len() == 4 => c,
        _ => {
            rep.extra.insert(format!("{}_skipped", stage), serde_json::json!("cookies of the sibling flows could not be learned"));
            return;
        }
    };
    let s = Setup { cfg: cfg.clone(), flows: fl, cookies: ck };
    let mut ev: Vec<Event> = Vec::new();
    for (tag, f) in &s.flows {
        ev.extend(tcp_events(tag, f, s.cookies[&key_of(f)], false).into_iter().filter(|e| e.name.contains("data-http-ack=cookie+1") || e.name.contains("data-http-ack=0") || e.name.ends_with(":syn") || e.name.ends_with(":rst")));
    }
    add_cross_acks(&mut ev, &s);
    let o = BfsOpts { stage: stage.into(), max_depth: if thorough { 4 } else { 3 }, max_states: 40000, abstract_acc: true, differential: false };
    bfs::bfs(&s.cfg, &ev, &s.cookies, &o, rep);
}

/// Acknowledgement numbers around the cookie on a flow WITHOUT state: every value of the low half
/// and of the high half (the other half correct), every XOR pattern with one byte value at two
/// positions, and the complement: only cookie + 1 is accepted, nothing else allocates state.
pub fn ack_neighbourhood(s: &Setup, rep: &mut Report, prop: &'static str) {
    let t0 = std::time::Instant::now();
    let f = s.flows[0].1.clone();
    let c = s.cookies[&key_of(&f)];
    let ok = c.wrapping_add(1);
    let mut acks: Vec<u32> = Vec::new();
    for w in 0..=0xffffu32 {
        acks.push((ok & 0xffff0000) | w);
        acks.push((ok & 0x0000ffff) | (w << 16));
    }
    for (i, j) in [(0u32, 1u32), (0, 2), (0, 3), (1, 2), (1, 3), (2, 3)] {
        for b in 1..=255u32 {
            acks.push((c ^ (b << (8 * i)) ^ (b << (8 * j))).wrapping_add(1));
        }
    }
    for b in 1..=255u32 {
        acks.push((c ^ (b * 0x01010101)).wrapping_add(1));
    }
    acks.push((!c).wrapping_add(1));
    let total = acks.len() as u64;
    let stage = format!("ack-neighbourhood-{}", prop.to_lowercase());
    let opts = RunOpts::new(&stage).stateful().chunk(512).no_monitor();
    let cfg = s.cfg.clone();
    let st = stage.clone();
    engine::run(
        &s.cfg,
        total,
        &opts,
        |i| vec![Cmd::Frame(f.tcp(1000, acks[i as usize], F_PSH | F_ACK, HTTP_REQ))],
        |it: &Item, sk: &mut Sink| {
            sk.count("frames", 1);
            let a = acks[it.idx as usize];
            let o = &it.outs[1];
            if a == ok {
                return;
            }
            if prop == "C07" && o.reply.is_some() {
                sk.violation(Violation { prop: "C07".into(), key: "answered:data-without-valid-cookie".into(), what: format!("PSH|ACK with acknowledgement {:#010x} on a flow without state is answered (cookie + 1 = {:#010x})", a, ok), cfg: cfg.clone(), cmds: it.cmds.to_vec(), idx: it.idx, stage: st.clone() });
            }
            if prop == "C09" && o.n != 0 {
                sk.violation(Violation { prop: "C09".into(), key: "state-from-wrong-ack".into(), what: format!("PSH|ACK with acknowledgement {:#010x} (cookie + 1 = {:#010x}) left {} entries in the connection table", a, ok, o.n), cfg: cfg.clone(), cmds: it.cmds.to_vec(), idx: it.idx, stage: st.clone() });
            }
        },
        &mut rep.sink,
    );
    rep.stage(&stage, "acknowledgement numbers on a flow without state: all 65536 values of each half (other half correct), one byte value XORed at two / four positions (all values, all position pairs), complement", total, t0);
}

/// `n` distinct flows with pairwise distinct SYN cookies, the cookies LEARNED from the responder's
/// own SYN-ACKs (one stateless SYN sweep): flows whose SYN is not answered or whose cookie equals
/// an earlier one are left out (aliasing is the listed finding D13).
pub fn many_flow_set(cfg: &Cfg, n: usize, dport: u16, rep: &mut Report) -> Vec<(Flow, u32)> {
    let cand: Vec<Flow> = (0..(n as u32 + n as u32 / 50)).map(|sp| flow(sp & 1 == 1, (sp >> 1) as u16, dport + (sp >> 17) as u16)).collect();
    let syns: Vec<Cmd> = cand.iter().map(|f| Cmd::Frame(f.tcp(1, 0, F_SYN, b""))).collect();
    let outs = engine::map_cmds(cfg, &syns, "many-flows-syn-learn", false, &mut rep.sink);
    let mut seen = std::collections::HashSet::new();
    let mut v = Vec::with_capacity(n);
    let (mut dup, mut or_mask, mut and_mask, mut total) = (0u64, 0u32, 0xffff_ffffu32, 0u64);
    for (f, o) in cand.into_iter().zip(outs.iter()) {
        if let Some(c) = o.reply.as_deref().and_then(synack_seq) {
            total += 1;
            or_mask |= c;
            and_mask &= c;
            if seen.insert(c) {
                if v.len() < n {
                    v.push((f, c));
                }
            } else {
                dup += 1;
            }
        }
    }
    rep.extra.insert("many_flows_cookie_stats".into(), serde_json::json!({"flows": total, "equal_cookies": dup, "or_mask": format!("{:#010x}", or_mask), "and_mask": format!("{:#010x}", and_mask)}));
    v
}

/// The cookie space is the full 32 bits: over tens of thousands of distinct flows every bit of the
/// cookie takes both values, and the number of flows whose cookie equals an earlier flow's stays
/// within what 32 uniformly distributed bits give (n^2 / 2^33: 0.6 for 71 400 flows; more than 6
/// has probability < 10^-5).  Equal cookies are shared control blocks (C09 / C08 / C06).
pub fn cookie_space_check(cfg: &Cfg, rep: &mut Report, prop: &'static str) {
    let st = match rep.extra.get("many_flows_cookie_stats") {
        Some(s) => s.clone(),
        None => return,
    };
    let flows = st["flows"].as_u64().unwrap_or(0);
    if flows < 20_000 {
        return;
    }
    let dup = st["equal_cookies"].as_u64().unwrap_or(0);
    let or_mask = st["or_mask"].as_str().unwrap_or("").to_string();
    let and_mask = st["and_mask"].as_str().unwrap_or("").to_string();
    let expect = (flows as f64) * (flows as f64) / 8_589_934_592.0;
    if or_mask != "0xffffffff" || and_mask != "0x00000000" || (dup as f64) > expect * 4.0 + 6.0 {
        rep.sink.violation(Violation {
            prop: prop.into(),
            key: "cookie-space-smaller-than-32-bits".into(),
            what: format!("{} distinct flows: {} have a cookie equal to an earlier flow's (32 uniform bits give about {:.1}); OR of all cookies {}, AND {}", flows, dup, expect, or_mask, and_mask),
            cfg: cfg.clone(),
            cmds: vec![],
            idx: 0,
            stage: "many-flows-syn-learn".into(),
        });
    }
}

/// One process: `head` frames, then `n` other flows each sending one valid-cookie data segment
/// ("x"), then `tail`.  Returns the observations of head and tail frames.
pub fn capacity_run(cfg: &Cfg, head: &[Vec<u8>], n: usize, tail: &[Vec<u8>], rep: &mut Report) -> Result<(Vec<crate::driver::Out>, Vec<crate::driver::Out>), String> {
    let mut cmds: Vec<Cmd> = vec![Cmd::Reset];
    cmds.extend(head.iter().map(|f| Cmd::Frame(f.clone())));
    let fl = many_flow_set(cfg, n, 8000, rep);
    if fl.len() < n / 2 {
        return Err(format!("capacity scenario skipped: only {} of {} SYN cookies could be learned", fl.len(), n));
    }
    for (f, g) in &fl {
        cmds.push(Cmd::Frame(f.tcp(1, g.wrapping_add(1), F_PSH | F_ACK, b"x")));
    }
    cmds.extend(tail.iter().map(|f| Cmd::Frame(f.clone())));
    let mut d = crate::driver::Driver::spawn(cfg)?;
    let outs = d.exec(&cmds).map_err(|e| format!("{:?}", e))?;
    let h = outs[1..1 + head.len()].to_vec();
    let t = outs[outs.len() - tail.len()..].to_vec();
    Ok((h, t))
}

/// SYN-sweep tuples, group by learned cookie, return colliding pairs.
pub fn find_collisions(cfg: &Cfg, ntuples_log2: u32, rep: &mut Report) -> Vec<(Flow, Flow, u32)> {
    let n = 1u64 << ntuples_log2;
    let per_port = n / 4;
    let mut flows: Vec<Flow> = Vec::with_capacity(n as usize);
    for (dp, _) in [(80u16, 0), (443, 1), (22, 2), (8080, 3)] {
        for sp in 0..per_port {
            flows.push(flow4((sp % 65536) as u16, dp.wrapping_add((sp / 65536) as u16 * 1000)));
        }
    }
    let cmds: Vec<Cmd> = flows.iter().map(|f| Cmd::Frame(f.tcp(1, 0, F_SYN, b""))).collect();
    let outs = engine::map_cmds(cfg, &cmds, "collision-syn-sweep", false, &mut rep.sink);
    let mut by: HashMap<u32, Vec<usize>> = HashMap::new();
    for (i, o) in outs.iter().enumerate() {
        if let Some(c) = o.reply.as_deref().and_then(synack_seq) {
            by.entry(c).or_default().push(i);
        }
    }
    let mut v: Vec<(Flow, Flow, u32)> = Vec::new();
    let mut keys: Vec<&u32> = by.keys().collect();
    keys.sort();
    for c in keys {
        let l = &by[c];
        if l.len() > 1 {
            v.push((flows[l[0]].clone(), flows[l[1]].clone(), *c));
        }
    }
    v
}

pub fn run_c08(rep: &mut Report, thorough: bool) {
    rep.rule = "BFS as in C07 over flows A, B (and C on IPv6, D from another client in the thorough tier) plus noise frames (ARP, ICMP echo, UDP of every application protocol, SYNs and wrong-ack data on unrelated tuples); on EVERY transition the differential oracle: reply(f | h) == reply(f | h restricted to the accepted data segments of f's own flow, on a fresh table), wall-clock fields masked; plus a no-dedup enumeration of all interleavings of two 3-segment requests with noise; plus (thorough) the same scenario on every pair of flows whose cookies collide among 2^18 SYN-swept tuples; ADDED LATER: 19 structured flow pairs (port swap, equal port sums, IPv4 vs IPv4-mapped IPv6 ...), datagram context switches against a fresh process, all ordered pairs (thorough: triples) of the base corpus and an L2-L4 frame set with the last reply compared with a fresh process".into();
    rep.assumptions = vec!["a violation is keyed cookie-alias only if the two interfering flows have EQUAL cookies (listed finding D13); any other interference is a violation".into()];
    let s = match setup(Cfg::base(), if thorough { 4 } else { 2 }) {
        Ok(s) => s,
        Err(e) => {
            rep.sink.machinery_errors.push(e);
            return;
        }
    };
    let mut events: Vec<Event> = Vec::new();
    for (tag, f) in &s.flows {
        let all = tcp_events(tag, f, s.cookies[&key_of(f)], true);
        // C08 alphabet: the state-changing and state-reading subset
        for e in all {
            let keep = ["syn", "data-http-ack=cookie+1", "data-http-ack=0", "data-Z", "data-http-half1", "data-http-half2", "data-http-sig-cut1", "data-http-sig-cut2", "data-rpc-part1", "data-rpc-part2", "data-rpc-part3", "data-ssh", "finack-0x3e8", "rst", "data-empty", "ack"];
            if keep.iter().any(|k| e.name.split_once(':').map(|x| x.1.starts_with(k)).unwrap_or(false)) {
                events.push(e);
            }
        }
    }
    add_cross_acks(&mut events, &s);
    events.extend(noise_events());
    // frames the link layer must discard (foreign destination MAC) that would otherwise be valid
    // data of flow A: they are not "accepted data segments" and must leave no trace
    {
        let (ta, fa) = &s.flows[0];
        let ok = s.cookies[&key_of(fa)].wrapping_add(1);
        let mut g = fa.clone();
        g.smac = [0x02, 0x99, 0x99, 0x99, 0x99, 0x99];
        let half = HTTP_REQ.len() / 2;
        for (n, fr) in [("foreign-mac-half1", g.tcp(1000, ok, F_PSH | F_ACK, &HTTP_REQ[..half])), ("foreign-mac-whole", g.tcp(1000, ok, F_PSH | F_ACK, HTTP_REQ)), ("foreign-mac-syn", g.tcp(7, 0, F_SYN, b""))] {
            events.push(Event { name: format!("noise:{}:{}", ta, n), frame: fr, flow: None, is_data: false });
        }
    }
    let o = BfsOpts {
        stage: "bfs-c08".into(),
        max_depth: if thorough { 7 } else { 5 },
        max_states: if thorough { 300000 } else { 30000 },
        abstract_acc: true,
        differential: true,
    };
    bfs::bfs(&s.cfg, &events, &s.cookies, &o, rep);
    rep.sink.sample(serde_json::json!({"alphabet": events.iter().map(|e| e.name.clone()).collect::<Vec<_>>()}));
    // (ii) no-dedup interleavings: two flows, each a 3-segment request, 0..2 noise frames
    interleavings(&s, rep, thorough);
    structured_pairs(&s.cfg, rep);
    context_switch(&s.cfg, rep);
    neighbour_probe(&s.cfg, rep);
    crate::props::apps::busy_stage(rep, &s.cfg, "C08", "busy-responder", &crate::props::apps::busy_convs(), 70_000);
    crate::props::apps::edge_conv_stage(rep, "C08", "edge-cookie-conversations", &crate::props::apps::busy_convs());
    crate::props::apps::sibling_conv_stage(rep, &s.cfg, "C08", "sibling-connections", &crate::props::apps::busy_convs());
    {
        // depth-2 histories over the base corpus and the L2-L4 set, process-level differential
        let mut fr: Vec<crate::props::pairs::PFrame> = crate::props::pairs::l2l4_frames();
        for b in base_frames(&s.cookies).into_iter() {
            fr.push(crate::props::pairs::pf(&b.name, b.frame));
        }
        let nmax = fr.len();
        let _ = thorough;
        crate::props::pairs::pair_histories(rep, &s.cfg, "pair-histories", &fr[..nmax]);
        if thorough {
            crate::props::pairs::triple_histories(rep, &s.cfg, "triple-histories", &fr[..fr.len().min(110)]);
        }
        // round 23: flows that agree in PART of their 4-tuple (addresses equal in the low or in the
        // high 64 / 16 bits, ports equal / swapped / neighbouring), every ordered pair back to back:
        // the SYN-ACK (cookie) and the verdict on a data segment of the second flow are those of a
        // fresh process (a cache keyed by a folded or truncated tuple shows here)
        {
            let c6 = ["2001:db8::9", "2001:db9::9", "2001:db8::a", "fe80::9"];
            let s6 = ["fe80::211:22ff:fe33:4455", "2001:db8:0:1:211:22ff:fe33:4455", "2001:db8:0:1:211:22ff:fe33:4456", "fe80::1:211:22ff:fe33:4455"];
            let c4 = ["10.0.0.9", "11.0.0.9", "10.0.0.10", "10.0.1.9"];
            let s4 = ["10.0.0.1", "11.0.0.1", "10.0.0.2", "10.0.1.1"];
            let ports: [(u16, u16); 3] = [(40000, 443), (443, 40000), (40001, 443)];
            let mut hf: Vec<crate::props::pairs::PFrame> = Vec::new();
            for (cs, ss) in [(&c4, &s4), (&c6, &s6)] {
                for c in cs.iter() {
                    for sv in ss.iter() {
                        for (sp, dp) in ports {
                            let f = Flow { cmac: MAC_CLI, smac: MAC_SRV, cip: Ip::parse(c), sip: Ip::parse(sv), cport: sp, sport: dp };
                            hf.push(crate::props::pairs::pf(&format!("syn {}:{}>{}:{}", c, sp, sv, dp), f.tcp(7, 0, F_SYN, b"")));
                        }
                    }
                }
            }
            crate::props::pairs::pair_histories(rep, &Cfg::base(), "pair-histories-tuple-parts", &hf);
        }
        // the responder's own replies fed back (no address lists, so that a frame addressed to the
        // client's address is still for the responder)
        for (tag, f) in s.flows.iter().take(2) {
            for e in tcp_events(tag, f, s.cookies[&key_of(f)], true) {
                fr.push(crate::props::pairs::pf(&e.name, e.frame));
            }
        }
        crate::props::pairs::reflected_replies(rep, &Cfg::base(), "own-replies-fed-back", &fr);
        if !s.cfg.self_ips.is_empty() || !s.cfg.deny_ips.is_empty() {
            crate::props::pairs::reflected_replies(rep, &s.cfg, "own-replies-fed-back-lists", &fr);
        }
    }
    // (iv) collision stage
    if thorough {
        let t0 = std::time::Instant::now();
        let pairs = find_collisions(&s.cfg, 18, rep);
        rep.sink.count("colliding_cookie_pairs_in_2^18", pairs.len() as u64);
        for (a, b, c) in pairs.iter() {
            alias_scenario(&s.cfg, a, b, *c, rep);
        }
        rep.stage("collisions", "2^18 SYN-swept tuples grouped by learned cookie; interference scenario on every colliding pair", 1 << 18, t0);
    } else {
        // the listed witness pair of D13 under the production key
        let a = flow4(59661, 80);
        let b = flow4(15151, 443);
        if let Ok(ck) = learn_cookies(&s.cfg, &[a.clone(), b.clone()]) {
            if ck.get(&key_of(&a)).is_some() && ck.get(&key_of(&a)) == ck.get(&key_of(&b)) {
                alias_scenario(&s.cfg, &a, &b, ck[&key_of(&a)], rep);
            } else {
                rep.sink.count("d13_witness_pair_no_longer_collides", 1);
            }
        }
    }
}

/// Datagram context switches: the same payload sent back to back to different destination
/// addresses / ports / IP versions in ONE responder process; each reply must equal the reply the
/// same frame gets from a fresh process (no state outside the connection table, which datagrams
/// never touch).
pub fn context_switch(cfg: &Cfg, rep: &mut Report) {
    let t0 = std::time::Instant::now();
    let pls = payloads();
    let mut n = 0u64;
    for pl in pls.iter().filter(|p| p.via != Via::TcpOnly) {
        let mut c1 = flow4(40001, 53);
        c1.sip = srv4b();
        let mut c3 = flow6(40001, 111);
        c3.sip = srv6b();
        // same destination address with another port, another address, both IP versions
        let ctx = [flow4(40000, 3478), flow4(40000, 2049), c1, flow6(40000, 3478), flow6(40000, 2049), c3];
        let frames: Vec<Vec<u8>> = ctx.iter().map(|f| f.udp(&pl.bytes)).collect();
        let run = |cmds: &[Cmd]| -> Result<Vec<String>, String> {
            let mut d = crate::driver::Driver::spawn(cfg)?;
            let o = d.exec(cmds).map_err(|e| format!("{:?}", e))?;
            Ok(o.iter().map(|x| crate::mask::canon_reply(x.reply.as_deref())).collect())
        };
        for order in [[0usize, 1, 2, 3, 4, 5], [5, 4, 3, 2, 1, 0], [1, 0, 2, 4, 3, 5]] {
            let cmds: Vec<Cmd> = order.iter().map(|k| Cmd::Frame(frames[*k].clone())).collect();
            let together = match run(&cmds) {
                Ok(v) => v,
                Err(e) => {
                    rep.sink.machinery_errors.push(e);
                    return;
                }
            };
            for (pos, k) in order.iter().enumerate() {
                n += 1;
                if pos == 0 {
                    continue;
                }
                let alone = match run(&cmds[pos..pos + 1]) {
                    Ok(v) => v,
                    Err(e) => {
                        rep.sink.machinery_errors.push(e);
                        return;
                    }
                };
                if alone[0] != together[pos] {
                    rep.sink.violation(Violation {
                        prop: "C08".into(),
                        key: format!("datagram-context-leak:{}", pl.name),
                        what: format!("datagram '{}' to context {} is answered differently after the same payload was sent to other destinations: fresh process {} vs {}", pl.name, k, &alone[0][..alone[0].len().min(120)], &together[pos][..together[pos].len().min(120)]),
                        cfg: cfg.clone(),
                        cmds: cmds[..=pos].to_vec(),
                        idx: n,
                        stage: "context-switch".into(),
                    });
                }
            }
        }
    }
    rep.sink.count("frames", n);
    rep.stage("context-switch", "every datagram payload of the corpus x 3 orders of 6 contexts (per IP version: two ports of one destination address and another address) in one process, each reply compared with the reply from a fresh process", n, t0);
}

/// One flow seen through two link-layer neighbours (two Ethernet source addresses): the cookie,
/// the acceptance of its data segments and the ONE control block belong to the 4-tuple, not to
/// the neighbour.  `prop` selects the clause that is reported: C06 (the SYN-ACK sequence number
/// is the same), C07 (a segment acknowledging the cookie learned through the other neighbour is
/// answered), C09 (one entry, however many neighbours).
pub fn source_mac_stage(cfg: &Cfg, rep: &mut Report, prop: &'static str) {
    let t0 = std::time::Instant::now();
    let macs: [Mac; 4] = [MAC_CLI, MAC_CLI2, [0x02, 0, 0, 0, 0, 0x77], [0x00, 0x50, 0x56, 0xaa, 0xbb, 0xcc]];
    let mut n = 0u64;
    let mut d = match crate::driver::Driver::spawn(cfg) {
        Ok(d) => d,
        Err(e) => {
            rep.sink.machinery_errors.push(e);
            return;
        }
    };
    for v6 in [false, true] {
        for (ai, a) in macs.iter().enumerate() {
            for (bi, b) in macs.iter().enumerate() {
                if ai == bi {
                    continue;
                }
                let mut fa = flow(v6, 40000, 80);
                fa.cmac = *a;
                let mut fb = fa.clone();
                fb.cmac = *b;
                let o1 = d.exec(&[Cmd::Reset, Cmd::Frame(fa.tcp(5, 0, F_SYN, b"")), Cmd::Frame(fb.tcp(5, 0, F_SYN, b""))]).unwrap_or_default();
                let ca = o1.get(1).and_then(|o| o.reply.as_deref()).and_then(synack_seq);
                let cb = o1.get(2).and_then(|o| o.reply.as_deref()).and_then(synack_seq);
                n += 2;
                let (ca, cb) = match (ca, cb) {
                    (Some(x), Some(y)) => (x, y),
                    _ => continue,
                };
                let mut bad: Option<(String, String, Vec<Cmd>)> = None;
                if prop == "C06" && ca != cb {
                    bad = Some(("cookie-depends-on-source-mac".into(), format!("the same 4-tuple gets SYN-ACK sequence {:#010x} through {} and {:#010x} through {}", ca, mac_str(a), cb, mac_str(b)), vec![Cmd::Reset, Cmd::Frame(fa.tcp(5, 0, F_SYN, b"")), Cmd::Frame(fb.tcp(5, 0, F_SYN, b""))]));
                }
                // data acknowledging the cookie learned through A, sent through B, then through A
                let cmds = vec![Cmd::Reset, Cmd::Frame(fb.tcp(1000, ca.wrapping_add(1), F_PSH | F_ACK, HTTP_REQ)), Cmd::Frame(fa.tcp(1000, ca.wrapping_add(1), F_PSH | F_ACK, HTTP_REQ)), Cmd::Frame(fb.tcp(1000, cb.wrapping_add(1), F_PSH | F_ACK, HTTP_REQ))];
                let o2 = d.exec(&cmds).unwrap_or_default();
                n += 3;
                // a VALIDATED flow stays validated whichever neighbour (and whichever accepted
                // destination MAC) its later segments use: the client now acknowledges the reply
                if prop == "C07" {
                    let mut fbb = fb.clone();
                    fbb.smac = [0xff; 6];
                    let later = ca.wrapping_add(1).wrapping_add(393);
                    let c3 = vec![Cmd::Reset, Cmd::Frame(fa.tcp(1000, ca.wrapping_add(1), F_PSH | F_ACK, HTTP_REQ)), Cmd::Frame(fb.tcp(1018, later, F_PSH | F_ACK, b"x")), Cmd::Frame(fbb.tcp(1019, later, F_PSH | F_ACK, b"y")), Cmd::Frame(fa.tcp(1020, later, F_PSH | F_ACK, b"z"))];
                    let o3 = d.exec(&c3).unwrap_or_default();
                    n += 4;
                    if o3.len() == 5 && o3[1].reply.is_some() {
                        for k in 2..5 {
                            if o3[k].reply.is_none() {
                                rep.sink.violation(Violation { prop: "C07".into(), key: "validated-flow-dropped-via-other-neighbour".into(), what: format!("a flow validated through {} is no longer answered when a later segment (other acknowledgement number) arrives from {} / to {}", mac_str(a), mac_str(if k == 4 { a } else { b }), if k == 3 { "the broadcast MAC" } else { "the configured MAC" }), cfg: cfg.clone(), cmds: c3[..=k].to_vec(), idx: n, stage: "source-mac".into() });
                                break;
                            }
                        }
                    }
                }
                if o2.len() == 4 {
                    if prop == "C07" && o2[1].reply.is_none() {
                        bad = Some(("data-unanswered-via-other-neighbour".into(), format!("data acknowledging the flow's cookie + 1 is not answered when it arrives from {} (the SYN-ACK went to {})", mac_str(b), mac_str(a)), cmds[..2].to_vec()));
                    }
                    if prop == "C09" {
                        for k in 1..4 {
                            let accepted = (1..=k).filter(|j| o2[*j].reply.is_some()).count();
                            let want = accepted.min(1);
                            if o2[k].n != want {
                                bad = Some(("table-size-per-neighbour".into(), format!("one 4-tuple, data segments through {} and {}: after segment {} ({} accepted) the table has {} entries", mac_str(a), mac_str(b), k, accepted, o2[k].n), cmds[..=k].to_vec()));
                                break;
                            }
                        }
                        if bad.is_none() && o2[1].reply.is_none() {
                            bad = Some(("valid-segment-creates-no-state".into(), format!("a PSH|ACK with ack = cookie + 1 arriving from {} is dropped and leaves no entry (the cookie was handed out through {})", mac_str(b), mac_str(a)), cmds[..2].to_vec()));
                        }
                    }
                }
                if let Some((key, what, c)) = bad {
                    rep.sink.violation(Violation { prop: prop.into(), key, what, cfg: cfg.clone(), cmds: c, idx: n, stage: "source-mac".into() });
                }
            }
        }
    }
    rep.sink.count("frames", n);
    rep.stage("source-mac", "one 4-tuple through every ordered pair of 4 Ethernet source addresses x {v4,v6}: SYN through both (same cookie), data acknowledging the first one's cookie through the second, then through the first, then the second one's own", n, t0);
}

/// Neighbour probes: one accepted first request on flow X (every TCP payload of the corpus, the
/// >= 256-byte STUN requests with CHANGE-REQUEST flags), then ONE data segment on a neighbouring
/// flow Y (destination port +-1, source port +-1, swapped ports, both +1, sibling address) with a
/// wrong acknowledgement, with Y's own valid one and with X's: each probe must be answered
/// exactly as a fresh process answers it (nothing X did may open, bind or pre-validate Y).
pub fn neighbour_probe(cfg: &Cfg, rep: &mut Report) {
    let t0 = std::time::Instant::now();
    let mut firsts: Vec<(String, Vec<u8>)> = payloads().into_iter().filter(|p| p.via != Via::UdpOnly).map(|p| (p.name.to_string(), p.bytes)).collect();
    for (n, fl) in [("stun-big-change-port", 2u8), ("stun-big-change-ip", 4), ("stun-big-change-both", 6), ("stun-big-plain", 0)] {
        let body = [stun_attr(0x8022, &[b'x'; 244]), stun_attr(3, &[0, 0, 0, fl])].concat();
        firsts.push((n.to_string(), stun_magic(&body, &ID12)));
    }
    let mut scen: Vec<(Flow, Flow, &'static str)> = Vec::new();
    for v6 in [false, true] {
        let x = flow(v6, 40000, 80);
        let mk = |cp: u16, sp: u16| flow(v6, cp, sp);
        scen.push((x.clone(), mk(40000, 81), "dport+1"));
        scen.push((x.clone(), mk(40000, 79), "dport-1"));
        scen.push((x.clone(), mk(40001, 80), "sport+1"));
        scen.push((x.clone(), mk(39999, 80), "sport-1"));
        scen.push((x.clone(), mk(40001, 81), "both+1"));
        scen.push((x.clone(), mk(80, 40000), "swapped"));
        let mut y = x.clone();
        y.sip = if v6 { srv6b() } else { srv4b() };
        scen.push((x.clone(), y, "sibling-address"));
        let mut z = x.clone();
        z.cip = if v6 { cli6b() } else { cli4b() };
        scen.push((x.clone(), z, "other-client"));
    }
    let all: Vec<Flow> = scen.iter().flat_map(|s| [s.0.clone(), s.1.clone()]).collect();
    let ck = match learn_cookies(cfg, &all) {
        Ok(c) => c,
        Err(e) => {
            rep.sink.machinery_errors.push(e);
            return;
        }
    };
    // fresh-process answers of the probes
    let probe = |sc: &(Flow, Flow, &'static str), k: u64| -> Vec<u8> {
        let cx = ck.get(&key_of(&sc.0)).copied().unwrap_or(0).wrapping_add(1);
        let cy = ck.get(&key_of(&sc.1)).copied().unwrap_or(0).wrapping_add(1);
        let ack = [0u32, cy, cx, cy.wrapping_add(1)][k as usize];
        sc.1.tcp(7000, ack, F_PSH | F_ACK, HTTP_REQ)
    };
    let np = 4u64;
    let mut fresh: std::collections::HashMap<(usize, u64), String> = std::collections::HashMap::new();
    {
        let mut d = match crate::driver::Driver::spawn(cfg) {
            Ok(d) => d,
            Err(e) => {
                rep.sink.machinery_errors.push(e);
                return;
            }
        };
        for (si, sc) in scen.iter().enumerate() {
            for k in 0..np {
                let o = d.exec(&[Cmd::Reset, Cmd::Frame(probe(sc, k))]).map(|v| v[1].clone()).unwrap_or_default();
                fresh.insert((si, k), crate::mask::canon_reply(o.reply.as_deref()));
            }
        }
    }
    let dims = [firsts.len() as u64, scen.len() as u64, np];
    let total: u64 = dims.iter().product();
    let opts = RunOpts::new("neighbour-probe").stateful().chunk(64).no_monitor();
    let cfgc = cfg.clone();
    engine::run(
        cfg,
        total,
        &opts,
        |i| {
            let d = engine::unrank(i, &dims);
            let sc = &scen[d[1] as usize];
            let cx = ck.get(&key_of(&sc.0)).copied().unwrap_or(0).wrapping_add(1);
            vec![Cmd::Frame(sc.0.tcp(1000, cx, F_PSH | F_ACK, &firsts[d[0] as usize].1)), Cmd::Frame(probe(sc, d[2]))]
        },
        |it: &Item, sk: &mut Sink| {
            sk.count("frames", 2);
            let d = engine::unrank(it.idx, &dims);
            let sc = &scen[d[1] as usize];
            if ck.get(&key_of(&sc.0)) == ck.get(&key_of(&sc.1)) {
                // equal cookies: the pair is reported by the structured-pairs stage under its own key
                return;
            }
            let got = crate::mask::canon_reply(it.outs[2].reply.as_deref());
            let want = &fresh[&(d[1] as usize, d[2])];
            if &got != want {
                sk.violation(Violation {
                    prop: "C08".into(),
                    key: format!("neighbour-interference:{}:{}", firsts[d[0] as usize].0, sc.2),
                    what: format!("after '{}' was accepted on {}:{}>{}:{}, a data segment (probe {}) on the {} flow is answered {} instead of {} (fresh process)", firsts[d[0] as usize].0, sc.0.cip, sc.0.cport, sc.0.sip, sc.0.sport, d[2], sc.2, &got[..got.len().min(100)], &want[..want.len().min(100)]),
                    cfg: cfgc.clone(),
                    cmds: it.cmds.to_vec(),
                    idx: it.idx,
                    stage: "neighbour-probe".into(),
                });
            }
        },
        &mut rep.sink,
    );
    rep.stage("neighbour-probe", "every TCP payload of the corpus + 4 >= 256-byte STUN requests (CHANGE-REQUEST flags 0 / port / address / both) accepted on flow X x 8 neighbouring flows (destination port +-1, source port +-1, both, swapped, sibling address, other client) x {v4,v6} x probe acknowledgement {0, own cookie + 1, X's cookie + 1, own + 2}: each probe answered as by a fresh process", total, t0);
}

/// Pairs of distinct flows that a weakened cookie function would typically confuse: swapped
/// ports, equal port sums, ports differing in one byte, same ports from another client / to
/// another server address, swapped addresses.  Any pair with equal learned cookies goes through
/// the interference scenario (its key names the pair, so it is never covered by a listed one).
pub fn structured_pairs(cfg: &Cfg, rep: &mut Report) {
    let t0 = std::time::Instant::now();
    let base = flow4(40000, 80);
    let mut pairs: Vec<(Flow, Flow)> = Vec::new();
    let with = |cp: u16, sp: u16| flow4(cp, sp);
    pairs.push((with(40000, 80), with(80, 40000)));
    pairs.push((with(39999, 81), with(40000, 80)));
    pairs.push((with(40000, 80), with(40001, 79)));
    pairs.push((with(0x9c40, 80), with(0x1c40, 80)));
    pairs.push((with(0x9c40, 80), with(0x9c41, 80)));
    pairs.push((with(40000, 80), with(40000, 0x5000)));
    pairs.push((with(40000, 80), with(40000, 81)));
    pairs.push((with(0, 0), with(0, 65535)));
    let mut b2 = base.clone();
    b2.cip = cli4b();
    pairs.push((base.clone(), b2));
    let mut b3 = base.clone();
    b3.sip = srv4b();
    pairs.push((base.clone(), b3));
    let mut b4 = base.clone();
    b4.cip = srv4();
    b4.sip = cli4();
    pairs.push((base.clone(), b4));
    let mut b5 = base.clone();
    b5.cip = Ip::V4([10, 0, 0, 10]);
    pairs.push((base.clone(), b5));
    let mut b6 = base.clone();
    b6.cip = Ip::V4([9, 0, 0, 10]);
    b6.sip = Ip::V4([11, 0, 0, 0]);
    pairs.push((base.clone(), b6));
    pairs.push((flow6(40000, 80), flow6(80, 40000)));
    pairs.push((flow6(39999, 81), flow6(40000, 80)));
    let mut c6 = flow6(40000, 80);
    c6.cip = cli6b();
    pairs.push((flow6(40000, 80), c6));
    let mut d6 = flow6(40000, 80);
    d6.sip = srv6b();
    pairs.push((flow6(40000, 80), d6));
    let mut m6 = flow6(40000, 80);
    m6.cip = Ip::parse("::ffff:10.0.0.9");
    m6.sip = Ip::parse("::ffff:10.0.0.1");
    pairs.push((base.clone(), m6.clone()));
    let mut m6b = m6.clone();
    m6b.cip = cli6();
    pairs.push((m6.clone(), m6b));
    let all: Vec<Flow> = pairs.iter().flat_map(|(a, b)| [a.clone(), b.clone()]).collect();
    let ck = match learn_cookies(cfg, &all) {
        Ok(c) => c,
        Err(e) => {
            rep.sink.machinery_errors.push(e);
            return;
        }
    };
    let mut equal = 0;
    for (a, b) in &pairs {
        if let (Some(x), Some(y)) = (ck.get(&key_of(a)), ck.get(&key_of(b))) {
            if x == y {
                equal += 1;
                alias_scenario(cfg, a, b, *x, rep);
            }
        }
    }
    rep.sink.count("structured_pairs", pairs.len() as u64);
    rep.sink.count("structured_pairs_with_equal_cookies", equal);
    rep.stage("structured-pairs", "19 pairs of flows related by port swap / equal port sum / one-byte port difference / other client / other server address / swapped addresses / IPv4 vs IPv4-mapped IPv6: equal cookies => interference scenario", pairs.len() as u64, t0);
}

fn alias_scenario(cfg: &Cfg, a: &Flow, b: &Flow, c: u32, rep: &mut Report) {
    let ok = c.wrapping_add(1);
    let half = HTTP_REQ.len() / 2;
    let hist = vec![Cmd::Frame(a.tcp(1000, ok, F_PSH | F_ACK, &HTTP_REQ[..half]))];
    let probe = b.tcp(2000, ok, F_PSH | F_ACK, &HTTP_REQ[half..]);
    let mut cmds = hist.clone();
    cmds.push(Cmd::Frame(probe.clone()));
    cmds.push(Cmd::Reset);
    cmds.push(Cmd::Frame(probe.clone()));
    let opts = RunOpts::new("alias").stateful().chunk(1).no_monitor();
    let cfg2 = cfg.clone();
    let (a2, b2) = (a.clone(), b.clone());
    engine::run(
        cfg,
        1,
        &opts,
        |_| cmds.clone(),
        |it: &Item, s: &mut Sink| {
            let with = crate::mask::canon_reply(it.outs[2].reply.as_deref());
            let alone = crate::mask::canon_reply(it.outs[4].reply.as_deref());
            if with != alone {
                s.violation(Violation {
                    prop: "C08".into(),
                    key: crate::model::alias_key(&key_of(&a2), &key_of(&b2)),
                    what: format!("flows {}:{}->{} and {}:{}->{} share cookie {:#x}: a partial request on the first changes the reply to the second", a2.cip, a2.cport, a2.sport, b2.cip, b2.cport, b2.sport, c),
                    cfg: cfg2.clone(),
                    cmds: it.cmds[..3].to_vec(),
                    idx: 0,
                    stage: "alias".into(),
                });
            }
            if it.outs[2].n == 1 {
                s.violation(Violation {
                    prop: "C09".into(),
                    key: crate::model::alias_key(&key_of(&a2), &key_of(&b2)),
                    what: format!("two validated flows with equal cookie {:#x} share one connection-table entry", c),
                    cfg: cfg2.clone(),
                    cmds: it.cmds[..3].to_vec(),
                    idx: 0,
                    stage: "alias".into(),
                });
            }
        },
        &mut rep.sink,
    );
}

fn interleavings(s: &Setup, rep: &mut Report, thorough: bool) {
    let t0 = std::time::Instant::now();
    // two flows, each a 3-segment HTTP request (ordered within the flow), k noise frames
    let fa = &s.flows[0].1;
    let fb = &s.flows[1].1;
    let seg = |f: &Flow, part: usize| -> Vec<u8> {
        let c = s.cookies[&key_of(f)].wrapping_add(1);
        let cuts = [0usize, 3, 14, HTTP_REQ.len()];
        f.tcp(1000 + cuts[part] as u32, c, F_PSH | F_ACK, &HTTP_REQ[cuts[part]..cuts[part + 1]])
    };
    let noise = noise_events();
    // sequences over symbols a,b (3 each) = C(6,3) = 20 orders; noise inserted at every pair of positions
    let mut orders: Vec<Vec<u8>> = Vec::new();
    for mask in 0u32..64 {
        if mask.count_ones() == 3 {
            orders.push((0..6).map(|i| if mask >> i & 1 == 1 { 0 } else { 1 }).collect());
        }
    }
    let nn = if thorough { noise.len() } else { 4 };
    // scenario index: order x noise kind x insertion position (0..=6) x second noise (none or same kind at pos2)
    let dims = [orders.len() as u64, nn as u64, 7, 8];
    let total = engine::product(&dims);
    let opts = RunOpts::new("interleavings").stateful().chunk(16).no_monitor();
    let cfg = s.cfg.clone();
    let cookies = s.cookies.clone();
    engine::run(
        &s.cfg,
        total,
        &opts,
        |i| {
            let d = engine::unrank(i, &dims);
            let ord = &orders[d[0] as usize];
            let nz = &noise[d[1] as usize].frame;
            let (mut ia, mut ib) = (0, 0);
            let mut cmds = Vec::new();
            for (pos, who) in ord.iter().enumerate() {
                if pos as u64 == d[2] {
                    cmds.push(Cmd::Frame(nz.clone()));
                }
                if d[3] >= 1 && pos as u64 == d[3] - 1 {
                    cmds.push(Cmd::Frame(nz.clone()));
                }
                if *who == 0 {
                    cmds.push(Cmd::Frame(seg(fa, ia)));
                    ia += 1;
                } else {
                    cmds.push(Cmd::Frame(seg(fb, ib)));
                    ib += 1;
                }
            }
            if d[2] == 6 {
                cmds.push(Cmd::Frame(nz.clone()));
            }
            cmds
        },
        |it: &Item, sk: &mut Sink| {
            let model = Model::new();
            engine::judge_item(&cfg, &model, &cookies, it, it.cmds.len(), "interleavings", sk);
            sk.count("frames", it.cmds.len() as u64 - 1);
        },
        &mut rep.sink,
    );
    rep.transitions += total;
    rep.stage("interleavings", "all 20 interleavings of two 3-segment requests x noise kind x noise position (x optional second noise), no de-duplication, every frame judged by the per-flow reference model", total, t0);
}

/// Destinations that are NOT the responder's (address lists configured): a foreign unicast address,
/// group / broadcast addresses outside the list, through every destination MAC the responder
/// accepts.  [SYN, data acknowledging whatever the SYN-ACK - if any came - announced or the cookie of
/// that 4-tuple, a second data segment]: no reply, no state.
pub fn foreign_destinations(rep: &mut Report) {
    let t0 = std::time::Instant::now();
    let cfg = Cfg::base().with_self(&[srv4(), srv6()]).with_deny(&[deny4(), deny6()]);
    let mut d = match crate::driver::Driver::spawn(&cfg) {
        Ok(d) => d,
        Err(e) => {
            rep.sink.machinery_errors.push(e);
            return;
        }
    };
    let dsts: Vec<Ip> = vec![Ip::V4([10, 0, 0, 77]), Ip::V4([224, 0, 0, 1]), Ip::V4([224, 0, 0, 251]), Ip::V4([255, 255, 255, 255]), Ip::V4([10, 0, 0, 255]), Ip::V4([10, 0, 0, 0]), Ip::parse("2001:db8::77"), Ip::parse("ff02::1"), Ip::parse("ff02::fb"), Ip::parse("ff02::1:ff00:1"), Ip::parse("ff05::2"), Ip::parse("ff0e::1"), Ip::parse("::1")];
    let mut n = 0u64;
    for dst in &dsts {
        let group_mac: Mac = match dst {
            Ip::V4(b) => [0x01, 0x00, 0x5e, b[1] & 0x7f, b[2], b[3]],
            Ip::V6(b) => [0x33, 0x33, b[12], b[13], b[14], b[15]],
        };
        for dmac in [MAC_SRV, [0xff; 6], group_mac, [0x33, 0x33, 0, 0, 0, 1]] {
            for (cport, sport) in [(40000u16, 80u16), (40001, 3478)] {
                let mut f = flow(!dst.is_v4(), cport, sport);
                f.sip = *dst;
                f.smac = dmac;
                let syn = f.tcp(100, 0, F_SYN, b"");
                let o1 = d.exec(&[Cmd::Reset, Cmd::Frame(syn.clone())]).unwrap_or_default();
                let announced = o1.get(1).and_then(|o| o.reply.as_deref()).and_then(synack_seq);
                let c = announced.unwrap_or_else(|| crate::sip::cookie_guess(cfg.key, &f.cip, &f.sip, f.cport, f.sport));
                let cmds = vec![Cmd::Reset, Cmd::Frame(syn), Cmd::Frame(f.tcp(101, c.wrapping_add(1), F_PSH | F_ACK, HTTP_REQ)), Cmd::Frame(f.tcp(101 + HTTP_REQ.len() as u32, c.wrapping_add(1), F_PSH | F_ACK, b"Z"))];
                let outs = d.exec(&cmds).unwrap_or_default();
                n += 3;
                let mut seen_answer = false;
                for k in 1..outs.len() {
                    if outs[k].n != 0 || (outs[k].reply.is_some() && !seen_answer) {
                        seen_answer |= outs[k].reply.is_some();
                        rep.sink.violation(Violation {
                            prop: if outs[k].n != 0 { "C09".into() } else { "C02".into() },
                            key: if outs[k].n != 0 { "state-for-foreign-destination".into() } else { "answered:foreign-destination".into() },
                            what: format!("address lists configured, destination {} (not handled) via destination MAC {}: frame {} of [SYN, data acknowledging the announced / computed cookie, data] left {} connection-table entries{}", dst, mac_str(&dmac), k, outs[k].n, if outs[k].reply.is_some() { " and was answered" } else { "" }),
                            cfg: cfg.clone(),
                            cmds: cmds[..=k].to_vec(),
                            idx: n,
                            stage: "foreign-destinations".into(),
                        });
                        if outs[k].n != 0 {
                            break;
                        }
                    }
                }
            }
        }
    }
    rep.sink.count("frames", n);
    rep.stage("foreign-destinations", "address lists configured: 13 destinations outside the lists (foreign unicast, IPv4 / IPv6 groups of every scope, broadcast, subnet broadcast / zero host, loopback) x 4 accepted destination MACs (own, broadcast, the group's, all-nodes) x 2 port pairs x [SYN, data acknowledging the announced or computed cookie, data]: no reply, no state", n, t0);
}

pub fn run_c09(rep: &mut Report, thorough: bool) {
    rep.rule = "the table-size oracle |real table| == |reference set of validated flows| on every transition of the connection BFS (alphabet of C07 on 2-3 flows + noise), plus volume sweeps: all 65536 source ports each sending SYN (several accepted flag sets), PSH|ACK with every wrong acknowledgement of the C07 alphabet, FIN|ACK, RST, bare ACK; all base UDP / ICMP / ARP frames repeated; repeated valid PSH|ACK on one flow (growth exactly once); ADDED LATER: 70000 distinct flows validated in one table (size == flows validated so far at every step, every flow still owns its partial request afterwards)".into();
    rep.assumptions = vec!["table size read through hook H2 after every frame".into()];
    let s = match setup(Cfg::base(), if thorough { 3 } else { 2 }) {
        Ok(s) => s,
        Err(e) => {
            rep.sink.machinery_errors.push(e);
            return;
        }
    };
    let mut events: Vec<Event> = Vec::new();
    for (tag, f) in &s.flows {
        events.extend(tcp_events(tag, f, s.cookies[&key_of(f)], false));
    }
    add_cross_acks(&mut events, &s);
    events.extend(noise_events());
    let o = BfsOpts {
        stage: "bfs-c09".into(),
        max_depth: if thorough { 7 } else { 5 },
        max_states: if thorough { 300000 } else { 30000 },
        abstract_acc: true,
        differential: false,
    };
    bfs::bfs(&s.cfg, &events, &s.cookies, &o, rep);
    {
        // the same search with every log-macro argument evaluated (log level trace): behaviour
        // must not depend on verbosity
        let tcfg = s.cfg.clone().with_log(crate::driver::LoggerKind::None, crate::driver::Level::Trace);
        let o2 = BfsOpts { stage: "bfs-c09-trace".into(), max_depth: o.max_depth.min(4), max_states: o.max_states, abstract_acc: true, differential: false };
        bfs::bfs(&tcfg, &events, &s.cookies, &o2, rep);
    }
    structured_pairs(&s.cfg, rep);
    foreign_destinations(rep);
    {
        // the listed witness pair of D13 under the production key
        let a = flow4(59661, 80);
        let b = flow4(15151, 443);
        if let Ok(ck) = learn_cookies(&s.cfg, &[a.clone(), b.clone()]) {
            if ck.get(&key_of(&a)).is_some() && ck.get(&key_of(&a)) == ck.get(&key_of(&b)) {
                alias_scenario(&s.cfg, &a, &b, ck[&key_of(&a)], rep);
            }
        }
    }
    // volume: one long-lived driver per worker, no reset: the table must stay empty
    let t0 = std::time::Instant::now();
    let kinds: u64 = 12;
    let nports: u64 = if thorough { 65536 } else { 16384 };
    let total = nports * kinds;
    for vcfg in [s.cfg.clone(), s.cfg.clone().with_log(crate::driver::LoggerKind::Console, crate::driver::Level::Trace)] {
    let opts = RunOpts::new("volume").chunk(4096).no_monitor();
    let cfg = vcfg.clone();
    engine::run(
        &vcfg,
        total,
        &opts,
        |i| {
            let sp = ((i / kinds) * (65536 / nports)) as u16;
            let v6 = sp & 1 == 1;
            let f = flow(v6, sp, 80);
            let g = crate::sip::cookie_guess(cfg.key, &f.cip, &f.sip, f.cport, f.sport);
            let fr = match i % kinds {
                0 => f.tcp(1, 0, F_SYN, b""),
                1 => f.tcp(1, 0, F_SYN | F_PSH | F_URG | F_ECE, b"xx"),
                2 => f.tcp(1, 0, F_SYN | F_CWR, b""),
                3 => f.tcp(1, g, F_PSH | F_ACK, HTTP_REQ),
                4 => f.tcp(1, g.wrapping_add(2), F_PSH | F_ACK, HTTP_REQ),
                5 => f.tcp(1, 0, F_PSH | F_ACK, HTTP_REQ),
                6 => f.tcp(1, 0xffffffff, F_PSH | F_ACK, HTTP_REQ),
                7 => f.tcp(1, g.wrapping_add(1), F_FIN | F_ACK, b""),
                8 => f.tcp(1, g.wrapping_add(1), F_RST, b""),
                9 => f.tcp(1, g.wrapping_add(1), F_ACK, b""),
                10 => f.udp(HTTP_REQ),
                _ => f.icmp_echo(sp, 1, b"x"),
            };
            vec![Cmd::Frame(fr)]
        },
        |it: &Item, sk: &mut Sink| {
            sk.class(&format!("volume-kind-{}", it.idx % 12));
            if it.outs[0].n != 0 {
                sk.violation(Violation {
                    prop: "C09".into(),
                    key: format!("state-from-unvalidated:{}", it.idx % 12),
                    what: format!("connection table has {} entries after unvalidated traffic only (frame kind {})", it.outs[0].n, it.idx % 12),
                    cfg: cfg.clone(),
                    cmds: it.cmds.to_vec(),
                    idx: it.idx,
                    stage: "volume".into(),
                });
            }
        },
        &mut rep.sink,
    );
    }
    rep.stage("volume", "source ports x 12 kinds of unvalidated frames (3 SYN flag sets, 4 wrong-ack data segments, FIN|ACK, RST, ACK, UDP, ICMP), long-lived tables, at log level off and at trace with the console logger: size must stay 0", total * 2, t0);
    // growth exactly once per flow
    let t0 = std::time::Instant::now();
    let f = s.flows[0].1.clone();
    let c = s.cookies[&key_of(&f)].wrapping_add(1);
    let mut cmds = vec![];
    for k in 0..200u32 {
        cmds.push(Cmd::Frame(f.tcp(1000 + k, c, F_PSH | F_ACK, b"Z")));
    }
    let opts = RunOpts::new("growth-once").stateful().chunk(1).no_monitor();
    let cfg2 = s.cfg.clone();
    engine::run(
        &s.cfg,
        1,
        &opts,
        |_| cmds.clone(),
        |it: &Item, sk: &mut Sink| {
            for (k, o) in it.outs.iter().enumerate().skip(1) {
                if o.n != 1 {
                    sk.violation(Violation {
                        prop: "C09".into(),
                        key: "growth-not-once".into(),
                        what: format!("after {} valid data segments on ONE flow the table has {} entries", k, o.n),
                        cfg: cfg2.clone(),
                        cmds: it.cmds[..=k].to_vec(),
                        idx: k as u64,
                        stage: "growth-once".into(),
                    });
                    break;
                }
            }
        },
        &mut rep.sink,
    );
    rep.stage("growth-once", "200 valid data segments on one flow: table size stays 1", 200, t0);
    ack_neighbourhood(&s, rep, "C09");
    source_mac_stage(&s.cfg, rep, "C09");
    sibling_bfs(&s.cfg, rep, "bfs-c09-sibling-destinations", thorough);
    // whatever ENVELOPE the accepted segment travels in (every single departure of one IP / TCP
    // header field, as is and with sender-style checksums): a segment the reference accepts
    // creates exactly one entry (and the reference decides which departures make it unacceptable)
    if let Ok(env) = crate::props::apps::AppEnv::new(s.cfg.clone()) {
        crate::props::apps::envelope_stage(rep, &env, "table-size-envelope", HTTP_REQ, true, false);
        crate::props::apps::window_stage(rep, &env, "table-size-segment-fields", HTTP_REQ, 64);
    }
    // whatever the accepted segment CARRIES (every corpus payload, every STUN attribute shape incl.
    // CHANGE-REQUEST in >= 256-byte requests, twice in a row): one flow, one entry
    {
        let t0 = std::time::Instant::now();
        let mut shapes: Vec<Vec<u8>> = payloads().into_iter().map(|p| p.bytes).collect();
        shapes.extend(stun_attr_shapes());
        for fl in [2u8, 4, 6] {
            shapes.push(stun_magic(&[stun_attr(0x8022, &[b'x'; 244]), stun_attr(3, &[0, 0, 0, fl])].concat(), &ID12));
        }
        let f = s.flows[0].1.clone();
        let c = s.cookies[&key_of(&f)].wrapping_add(1);
        let ns = shapes.len() as u64;
        let opts = RunOpts::new("payload-table-size").stateful().chunk(128).no_monitor();
        let cfg = s.cfg.clone();
        engine::run(
            &s.cfg,
            ns,
            &opts,
            |i| {
                let p = &shapes[i as usize];
                vec![Cmd::Frame(f.tcp(1000, c, F_PSH | F_ACK, p)), Cmd::Frame(f.tcp(1000u32.wrapping_add(p.len() as u32), c, F_PSH | F_ACK, p))]
            },
            |it: &Item, sk: &mut Sink| {
                sk.count("frames", 2);
                for k in 1..=2 {
                    if it.outs[k].reply.is_some() && it.outs[k].n != 1 {
                        sk.violation(Violation {
                            prop: "C09".into(),
                            key: "table-size-after-payload".into(),
                            what: format!("one flow sent {} accepted data segment(s) carrying {}...: the connection table has {} entries", k, hex(&shapes[it.idx as usize][..shapes[it.idx as usize].len().min(24)]), it.outs[k].n),
                            cfg: cfg.clone(),
                            cmds: it.cmds[..=k].to_vec(),
                            idx: it.idx,
                            stage: "payload-table-size".into(),
                        });
                        break;
                    }
                }
            },
            &mut rep.sink,
        );
        rep.stage("payload-table-size", "every corpus payload and STUN attribute shape as first and second accepted data segment of one flow: exactly one entry", ns, t0);
    }
    // many validated flows in ONE table: size == number of flows validated so far (no pruning, no
    // cap, no wrap of a narrow counter), and afterwards every flow still owns its partial request
    let t0 = std::time::Instant::now();
    let fl = many_flow_set(&s.cfg, 70000, 80, rep);
    cookie_space_check(&s.cfg, rep, "C09");
    if fl.len() < 1000 {
        rep.extra.insert("many_flows_stage".into(), serde_json::json!(format!("skipped: only {} SYN cookies could be learned", fl.len())));
        return;
    }
    let half = HTTP_REQ.len() / 2;
    let mut cmds: Vec<Cmd> = fl.iter().map(|(f, g)| Cmd::Frame(f.tcp(1000, g.wrapping_add(1), F_PSH | F_ACK, &HTTP_REQ[..half]))).collect();
    cmds.extend(fl.iter().map(|(f, g)| Cmd::Frame(f.tcp(1000 + half as u32, g.wrapping_add(1), F_PSH | F_ACK, &HTTP_REQ[half..]))));
    let nfl = fl.len();
    let opts = RunOpts::new("many-flows").stateful().chunk(1).no_monitor();
    let cfg3 = s.cfg.clone();
    engine::run(
        &s.cfg,
        1,
        &opts,
        |_| cmds.clone(),
        |it: &Item, sk: &mut Sink| {
            sk.count("frames", it.cmds.len() as u64 - 1);
            let mut accepted = 0usize;
            for k in 0..nfl {
                let o = &it.outs[1 + k];
                if o.reply.is_some() {
                    accepted += 1;
                }
                if o.n as usize != accepted {
                    sk.violation(Violation { prop: "C09".into(), key: "table-size-many-flows".into(), what: format!("after {} distinct validated flows the table has {} entries", accepted, o.n), cfg: cfg3.clone(), cmds: vec![it.cmds[1 + k].clone()], idx: k as u64, stage: "many-flows".into() });
                    return;
                }
            }
            sk.count("many_flows_validated", accepted as u64);
            for k in 0..nfl {
                let o = &it.outs[1 + nfl + k];
                let first_accepted = it.outs[1 + k].reply.is_some();
                let data = o.reply.as_deref().and_then(crate::mask::app_payload).map(|(_, p)| p).unwrap_or_default();
                if first_accepted && !data.starts_with(b"HTTP/1.1 401") {
                    sk.violation(Violation { prop: "C09".into(), key: "state-lost-many-flows".into(), what: format!("flow #{} of {} lost its partial request while other flows were validated (second half answered with {} bytes)", k, nfl, data.len()), cfg: cfg3.clone(), cmds: vec![it.cmds[1 + k].clone(), it.cmds[1 + nfl + k].clone()], idx: k as u64, stage: "many-flows".into() });
                    return;
                }
                if o.n as usize != accepted {
                    sk.violation(Violation { prop: "C09".into(), key: "table-size-many-flows".into(), what: format!("table has {} entries while {} flows are validated", o.n, accepted), cfg: cfg3.clone(), cmds: vec![it.cmds[1 + nfl + k].clone()], idx: k as u64, stage: "many-flows".into() });
                    return;
                }
            }
        },
        &mut rep.sink,
    );
    rep.stage("many-flows", "N distinct flows (distinct cookies) each send the first half of a request behind a valid cookie, then each the second half, in ONE table: size == flows validated so far at every step, every flow answered", 2 * nfl as u64, t0);
}
